#!/bin/bash
# Build the whole Coq development from files on disk (offline). Full .vo build, never -vos.
set -e
cd "$(dirname "$(readlink -f "$0")")"
export PYTHONPATH=/repo/src:/verif/harness PYTHONHASHSEED=0 PYTHONDONTWRITEBYTECODE=1
/venv/bin/python harness/tables.py
cd coq
coq_makefile -f _CoqProject -o Makefile > /dev/null
timeout 3000 make -j16 > ../build/setup.log 2>&1 || { tail -40 ../build/setup.log; exit 1; }
echo "setup ok"
