#!/bin/bash
# Build the whole Coq development from files on disk (offline). Full .vo build, never -vos.
set -e
cd "$(dirname "$(readlink -f "$0")")"
mkdir -p build replays evidence
export PYTHONPATH=${VERIF_REPO_ROOT:-/repo}/src:$PWD/harness PYTHONHASHSEED=0 PYTHONDONTWRITEBYTECODE=1
/venv/bin/python harness/tables.py
/venv/bin/python harness/framework.py      # writes coq/_CoqProject from the files present + coq_makefile
timeout 3000 make -C coq -j16 > build/setup.log 2>&1 || { tail -40 build/setup.log; exit 1; }
echo "setup ok"
