"""Translator plug-in for C05: regenerates coq/Gen/T_C05.v from the repository's working tree (ast, fail-closed).

Translated DATA (Model/Response.v computes with these; nothing here is hand-copied any more):
  * visit/endpoint/generators/response_handler_generator.py : the builtin-name sets, the typing-construct prefixes and
    the "not a model" name sets of _should_use_cattrs_structure / _is_dataclass_type, the primitive schema types of
    _is_type_alias_to_primitive, the "object"/"array" literals, the preferred media type of _get_response_schema
  * types/strategies/response_strategy.py : binary media types and prefixes (two copies, must agree), the "text/"
    prefix, the "json" / "event-stream" substrings, the preferred media type of _get_response_schema
  * core/loader/responses/parser.py : the keys of STREAM_FORMATS and the schema format that makes a response a stream
Sets are emitted sorted (membership is all the code uses); tuples keep their order.
"""
from __future__ import annotations

import ast

from tables import TranslatorError, _find_class, _find_func, _parse, cstr

OUT_NAME = "T_C05.v"


def _strs(node: ast.AST, where: str) -> list[str]:
    if not isinstance(node, (ast.Set, ast.Tuple, ast.List)) or not all(
            isinstance(e, ast.Constant) and isinstance(e.value, str) for e in node.elts):
        raise TranslatorError(f"{where}: expected a literal collection of strings")
    return [e.value for e in node.elts]


def _clist(name: str, items: list[str]) -> str:
    return f"Definition {name} : list (list N) := [" + "; ".join(cstr(x) for x in items) + "]."


def _in_sets(fn: ast.AST, var: str, negated: bool) -> list[list[str]]:
    """literal collections c in `var in c` / `var not in c` tests of fn, in source order"""
    out = []
    for n in ast.walk(fn):
        if (isinstance(n, ast.Compare) and len(n.ops) == 1 and isinstance(n.ops[0], ast.NotIn if negated else ast.In)
                and isinstance(n.left, ast.Name) and n.left.id == var and isinstance(n.comparators[0], (ast.Set, ast.Tuple, ast.List))):
            out.append((n.lineno, _strs(n.comparators[0], f"{var} in …")))
    return [s for _, s in sorted(out)]


def _handler_tables() -> list[str]:
    mod = _parse("visit/endpoint/generators/response_handler_generator.py")
    cls = _find_class(mod, "EndpointResponseHandlerGenerator")
    suc = _find_func(cls, "_should_use_cattrs_structure")
    idc = _find_func(cls, "_is_dataclass_type")
    b1 = _in_sets(suc, "base_type", False)
    b2 = _in_sets(idc, "type_name", False)
    if len(b1) != 1 or len(b2) != 1:
        raise TranslatorError("builtin-name sets of _should_use_cattrs_structure / _is_dataclass_type not found")
    if sorted(b1[0]) != sorted(b2[0]):
        raise TranslatorError(f"builtin-name sets differ between the two helpers: {sorted(b1[0])} vs {sorted(b2[0])}")
    n1 = _in_sets(suc, "base_type", True)
    n2 = _in_sets(idc, "base_type", True)
    if len(n1) != 1 or len(n2) != 1:
        raise TranslatorError("`base_type not in {...}` sets not found")
    pre = [n for n in ast.walk(suc) if isinstance(n, ast.Call) and isinstance(n.func, ast.Attribute) and n.func.attr == "startswith"
           and isinstance(n.func.value, ast.Name) and n.func.value.id == "base_type"]
    if len(pre) != 1 or len(pre[0].args) != 1:
        raise TranslatorError("_should_use_cattrs_structure: base_type.startswith((...)) not found")
    prefixes = _strs(pre[0].args[0], "construct prefixes")
    # the split separator and the dot test
    seps = {n.args[0].value for n in ast.walk(suc) if isinstance(n, ast.Call) and isinstance(n.func, ast.Attribute)
            and n.func.attr == "split" and n.args and isinstance(n.args[0], ast.Constant)}
    if seps != {", "}:
        raise TranslatorError(f"_should_use_cattrs_structure: split separators {seps}")
    prim = _find_func(cls, "_is_type_alias_to_primitive")
    prims = [_strs(n.comparators[0], "primitive types") for n in ast.walk(prim)
             if isinstance(n, ast.Compare) and isinstance(n.ops[0], ast.In) and isinstance(n.comparators[0], (ast.Tuple, ast.List, ast.Set))]
    if len(prims) != 1:
        raise TranslatorError("_is_type_alias_to_primitive: primitive type tuple not found")

    def str_cmps(fn: ast.AST) -> set[str]:
        return {n.comparators[0].value for n in ast.walk(fn) if isinstance(n, ast.Compare) and len(n.ops) == 1
                and isinstance(n.ops[0], (ast.Eq, ast.NotEq)) and isinstance(n.comparators[0], ast.Constant)
                and isinstance(n.comparators[0].value, str)}
    arr = _find_func(cls, "_is_type_alias_to_array")
    if str_cmps(arr) != {"object", "array"} or str_cmps(prim) != {"object"} or str_cmps(idc) != {"object"}:
        raise TranslatorError(f"alias helpers compare schema.type with {str_cmps(arr)} / {str_cmps(prim)} / {str_cmps(idc)}")
    grs = _find_func(cls, "_get_response_schema")
    pref = str_cmps(grs)
    if len(pref) != 1:
        raise TranslatorError(f"handler _get_response_schema: preferred media types {pref}")
    return ["(* visit/endpoint/generators/response_handler_generator.py *)",
            _clist("builtin_names", sorted(b1[0])),
            _clist("construct_prefixes", prefixes),
            _clist("not_model_names_cattrs", sorted(n1[0])),
            _clist("not_model_names_dataclass", sorted(n2[0])),
            _clist("alias_prim_types", prims[0]),
            f"Definition s_object : list N := {cstr('object')}.  Definition s_array : list N := {cstr('array')}.",
            f"Definition m_json_handler : list N := {cstr(pref.pop())}."]


def _strategy_tables() -> list[str]:
    mod = _parse("types/strategies/response_strategy.py")
    cls = _find_class(mod, "ResponseStrategyResolver")

    def binary_of(fn: ast.AST, where: str) -> tuple[list[str], list[str]]:
        exact = [_strs(n.comparators[0], where) for n in ast.walk(fn) if isinstance(n, ast.Compare) and isinstance(n.ops[0], ast.In)
                 and isinstance(n.comparators[0], ast.List)]
        pre = [_strs(n.args[0], where) for n in ast.walk(fn) if isinstance(n, ast.Call) and isinstance(n.func, ast.Attribute)
               and n.func.attr == "startswith" and n.args and isinstance(n.args[0], ast.Tuple)]
        if len(exact) != 1 or len(pre) != 1:
            raise TranslatorError(f"{where}: binary media test changed shape")
        return exact[0], pre[0]
    s1 = binary_of(_find_func(cls, "_resolve_streaming_strategy"), "_resolve_streaming_strategy")
    ctp = _find_func(cls, "_resolve_content_type_to_python_type")
    s2 = binary_of(ctp, "_resolve_content_type_to_python_type")
    if s1 != s2:
        raise TranslatorError(f"binary media tables differ between the two sites: {s1} vs {s2}")
    text_pre = {n.args[0].value for n in ast.walk(ctp) if isinstance(n, ast.Call) and isinstance(n.func, ast.Attribute)
                and n.func.attr == "startswith" and n.args and isinstance(n.args[0], ast.Constant)}
    if len(text_pre) != 1:
        raise TranslatorError(f"_resolve_content_type_to_python_type: text prefixes {text_pre}")

    def substr_tests(fn: ast.AST) -> set[str]:
        return {n.left.value for n in ast.walk(fn) if isinstance(n, ast.Compare) and isinstance(n.ops[0], ast.In)
                and isinstance(n.left, ast.Constant) and isinstance(n.left.value, str) and isinstance(n.comparators[0], ast.Name)}
    grs = _find_func(cls, "_get_response_schema")
    words = substr_tests(grs)
    exact = {n.left.value for n in ast.walk(grs) if isinstance(n, ast.Compare) and isinstance(n.ops[0], ast.In)
             and isinstance(n.left, ast.Constant) and isinstance(n.comparators[0], ast.Name) and n.comparators[0].id == "content_types"}
    words -= exact
    if exact != {"application/json"} and len(exact) != 1:
        raise TranslatorError(f"strategy _get_response_schema: preferred media type {exact}")
    if len(words) != 1:
        raise TranslatorError(f"strategy _get_response_schema: json substring tests {words}")
    ev = substr_tests(_find_func(cls, "_resolve_streaming_strategy"))
    if len(ev) != 1:
        raise TranslatorError(f"_resolve_streaming_strategy: event-stream substring tests {ev}")
    return ["(* types/strategies/response_strategy.py *)",
            _clist("binary_media_exact", s1[0]),
            _clist("binary_media_prefixes", s1[1]),
            f"Definition p_text : list N := {cstr(text_pre.pop())}.",
            f"Definition m_json : list N := {cstr(exact.pop())}.",
            f"Definition w_json : list N := {cstr(words.pop())}.",
            f"Definition w_event_stream : list N := {cstr(ev.pop())}."]


def _parser_tables() -> list[str]:
    mod = _parse("core/loader/responses/parser.py")
    fn = _find_func(mod, "parse_response")
    d = [n.value for n in ast.walk(fn) if isinstance(n, ast.Assign) and isinstance(n.targets[0], ast.Name)
         and n.targets[0].id == "STREAM_FORMATS"]
    if len(d) != 1 or not isinstance(d[0], ast.Dict):
        raise TranslatorError("parse_response: STREAM_FORMATS dict literal not found")
    keys = _strs(ast.List(elts=d[0].keys), "STREAM_FORMATS keys")
    if any(k != k.lower() for k in keys):
        raise TranslatorError("STREAM_FORMATS keys are expected lower-case (they are looked up with mt.lower())")
    lowered = [n for n in ast.walk(fn) if isinstance(n, ast.Call) and isinstance(n.func, ast.Attribute) and n.func.attr == "get"
               and isinstance(n.func.value, ast.Name) and n.func.value.id == "STREAM_FORMATS" and ast.unparse(n.args[0]) == "mt.lower()"]
    if len(lowered) != 1:
        raise TranslatorError("parse_response: STREAM_FORMATS.get(mt.lower()) not found")
    fmts = {n.comparators[0].value for n in ast.walk(fn) if isinstance(n, ast.Compare) and isinstance(n.ops[0], ast.Eq)
            and isinstance(n.comparators[0], ast.Constant) and isinstance(n.left, ast.Call) and "format" in ast.unparse(n.left)}
    if fmts != {"binary"}:
        raise TranslatorError(f"parse_response: stream-making schema formats {fmts}")
    vals = _strs(ast.List(elts=d[0].values), "STREAM_FORMATS values")
    table = "Definition stream_format_table : list (list N * list N) := [" + "; ".join(
        f"({cstr(k)}, {cstr(v)})" for k, v in zip(keys, vals)) + "]."
    return ["(* core/loader/responses/parser.py *)", _clist("stream_formats", keys), table]


def _ndjson_tables() -> list[str]:
    """_is_ndjson_stream: response_ir.stream_format != <fmt> … not any(<word> in content_type …)"""
    mod = _parse("visit/endpoint/generators/response_handler_generator.py")
    fn = _find_func(_find_class(mod, "EndpointResponseHandlerGenerator"), "_is_ndjson_stream")
    fmts = {n.comparators[0].value for n in ast.walk(fn) if isinstance(n, ast.Compare) and isinstance(n.ops[0], ast.NotEq)
            and isinstance(n.comparators[0], ast.Constant) and isinstance(n.comparators[0].value, str)
            and ast.unparse(n.left).endswith(".stream_format")}
    words = {n.left.value for n in ast.walk(fn) if isinstance(n, ast.Compare) and isinstance(n.ops[0], ast.In)
             and isinstance(n.left, ast.Constant) and isinstance(n.left.value, str)}
    if len(fmts) != 1 or words != {"event-stream"}:
        raise TranslatorError(f"_is_ndjson_stream: formats {fmts}, excluded substrings {words}")
    return ["(* response_handler_generator._is_ndjson_stream *)", f"Definition s_fmt_ndjson : list N := {cstr(fmts.pop())}."]


def _raw_body_tables() -> list[str]:
    """_raw_body_accessor(content_types, python_type): python types it applies to; text prefix; binary media (3rd copy)"""
    mod = _parse("visit/endpoint/generators/response_handler_generator.py")
    fn = _find_func(_find_class(mod, "EndpointResponseHandlerGenerator"), "_raw_body_accessor")
    types = [_strs(n.comparators[0], "python types") for n in ast.walk(fn) if isinstance(n, ast.Compare)
             and isinstance(n.ops[0], ast.NotIn) and isinstance(n.left, ast.Name) and n.left.id == "python_type"]
    if len(types) != 1:
        raise TranslatorError("_raw_body_accessor: `python_type not in (...)` not found")
    pre = [n.args[0] for n in ast.walk(fn) if isinstance(n, ast.Call) and isinstance(n.func, ast.Attribute) and n.func.attr == "startswith"]
    text = [a.value for a in pre if isinstance(a, ast.Constant)]
    binp = [_strs(a, "binary prefixes") for a in pre if isinstance(a, ast.Tuple)]
    exact = [_strs(n.comparators[0], "binary media") for n in ast.walk(fn) if isinstance(n, ast.Compare) and isinstance(n.ops[0], ast.In)
             and isinstance(n.left, ast.Name) and n.left.id == "ct"]
    rets = sorted({n.value for n in ast.walk(fn) if isinstance(n, ast.Constant) and isinstance(n.value, str) and n.value.startswith("response.")})
    neq = sorted({n.comparators[0].value for n in ast.walk(fn) if isinstance(n, ast.Compare) and isinstance(n.ops[0], ast.NotEq)
                  and isinstance(n.comparators[0], ast.Constant)})
    if text != ["text/"] or len(binp) != 1 or len(exact) != 1 or rets != ["response.content", "response.text"] or neq != ["bytes", "str"]:
        raise TranslatorError(f"_raw_body_accessor changed shape: {text} {binp} {exact} {rets} {neq}")
    smod = _parse("types/strategies/response_strategy.py")
    sfn = _find_func(_find_class(smod, "ResponseStrategyResolver"), "_resolve_content_type_to_python_type")
    sexact = [_strs(n.comparators[0], "x") for n in ast.walk(sfn) if isinstance(n, ast.Compare) and isinstance(n.ops[0], ast.In)
              and isinstance(n.comparators[0], ast.List)]
    spre = [_strs(n.args[0], "x") for n in ast.walk(sfn) if isinstance(n, ast.Call) and isinstance(n.func, ast.Attribute)
            and n.func.attr == "startswith" and n.args and isinstance(n.args[0], ast.Tuple)]
    if sexact != exact or spre != binp:
        raise TranslatorError(f"binary media tables of _raw_body_accessor and the strategy resolver differ: {exact}{binp} vs {sexact}{spre}")
    return ["(* response_handler_generator._raw_body_accessor *)", _clist("raw_body_types", types[0])]


def render() -> str:
    lines = ["(* GENERATED by harness/tables_C05.py from the repository's src/ — do not edit *)",
             "From Coq Require Import List NArith.", "Import ListNotations.", "Open Scope N_scope.", ""]
    for sec in (_handler_tables, _strategy_tables, _parser_tables, _ndjson_tables, _raw_body_tables):
        lines += sec() + [""]
    return "\n".join(lines)
