"""Translator plug-in for C06: regenerates coq/Gen/T_C06.v from /repo's working tree (ast, fail-closed).

Translated DATA (the theorems in Proofs/Dispatch.v quantify over / compute with these):
  * core/http_status_codes.py : HTTP_EXCEPTION_NAMES, the keyword-conflict rename and the `Error{code}` fallback of
    get_exception_class_name, the bounds of is_error_code / is_client_error / is_server_error
  * core/exceptions.py        : the class hierarchy HTTPError / ClientError / ServerError and that HTTPError.__init__
    stores status_code and response
  * visit/exception_visitor.py and emitters/exceptions_emitter.py : which base class an alias gets (by range test),
    the alias filter (is_error_code) and that the alias __init__ forwards response.status_code / response
  * core/http_transport.py    : the bundled transport's raise condition (status < lo or status >= hi) and raised class
  * visit/endpoint/generators/response_handler_generator.py : the class raised by the `default` / catch-all cases and
    by declared numeric non-2xx cases, and the "2" prefix that makes a declared code a success case
"""
from __future__ import annotations

import ast

from tables import TranslatorError, _find_class, _find_func, _module_assign, _parse, cstr

OUT_NAME = "T_C06.v"


def _bounds(mod: ast.Module, fn: str) -> tuple[int, int]:
    f = _find_func(mod, fn)
    body = [s for s in f.body if not (isinstance(s, ast.Expr) and isinstance(s.value, ast.Constant))]
    if len(body) != 1 or not isinstance(body[0], ast.Return):
        raise TranslatorError(f"{fn}: body is not a single return")
    c = body[0].value
    if not (isinstance(c, ast.Compare) and isinstance(c.left, ast.Constant) and isinstance(c.left.value, int)
            and len(c.ops) == 2 and isinstance(c.ops[0], ast.LtE) and isinstance(c.ops[1], ast.Lt)
            and isinstance(c.comparators[0], ast.Name) and c.comparators[0].id == "code"
            and isinstance(c.comparators[1], ast.Constant) and isinstance(c.comparators[1].value, int)):
        raise TranslatorError(f"{fn}: expected `return <int> <= code < <int>`")
    return c.left.value, c.comparators[1].value


def _status_tables() -> list[str]:
    mod = _parse("core/http_status_codes.py")
    d = _module_assign(mod, "HTTP_EXCEPTION_NAMES")
    if not isinstance(d, ast.Dict):
        raise TranslatorError("HTTP_EXCEPTION_NAMES is not a dict literal")
    names: list[tuple[int, str]] = []
    for k, v in zip(d.keys, d.values):
        if not (isinstance(k, ast.Constant) and isinstance(k.value, int) and not isinstance(k.value, bool)
                and isinstance(v, ast.Constant) and isinstance(v.value, str)):
            raise TranslatorError("HTTP_EXCEPTION_NAMES: non-literal entry")
        names.append((k.value, v.value))
    if len({k for k, _ in names}) != len(names):
        raise TranslatorError("HTTP_EXCEPTION_NAMES: duplicate key")
    # get_exception_class_name: if code in TABLE: name = TABLE[code]; if name == X: return Y; return name; return f"P{code}"
    f = _find_func(mod, "get_exception_class_name")
    body = [s for s in f.body if not (isinstance(s, ast.Expr) and isinstance(s.value, ast.Constant))]
    if len(body) != 2 or not isinstance(body[0], ast.If) or not isinstance(body[1], ast.Return):
        raise TranslatorError("get_exception_class_name: unexpected shape")
    t = body[0].test
    if not (isinstance(t, ast.Compare) and isinstance(t.ops[0], ast.In) and isinstance(t.comparators[0], ast.Name)
            and t.comparators[0].id == "HTTP_EXCEPTION_NAMES" and not body[0].orelse):
        raise TranslatorError("get_exception_class_name: table test changed")
    inner = body[0].body
    if not (len(inner) == 3 and isinstance(inner[0], ast.Assign) and isinstance(inner[1], ast.If)
            and isinstance(inner[2], ast.Return) and isinstance(inner[2].value, ast.Name)):
        raise TranslatorError("get_exception_class_name: table branch changed")
    rt = inner[1].test
    rets = [s for s in inner[1].body if isinstance(s, ast.Return)]
    if not (isinstance(rt, ast.Compare) and isinstance(rt.ops[0], ast.Eq) and isinstance(rt.comparators[0], ast.Constant)
            and len(rets) == 1 and isinstance(rets[0].value, ast.Constant) and not inner[1].orelse):
        raise TranslatorError("get_exception_class_name: rename branch changed")
    ren_from, ren_to = rt.comparators[0].value, rets[0].value.value
    fb = body[1].value
    if not (isinstance(fb, ast.JoinedStr) and len(fb.values) == 2 and isinstance(fb.values[0], ast.Constant)
            and isinstance(fb.values[1], ast.FormattedValue) and isinstance(fb.values[1].value, ast.Name)
            and fb.values[1].value.id == "code" and fb.values[1].format_spec is None and fb.values[1].conversion == -1):
        raise TranslatorError("get_exception_class_name: fallback is not f\"<prefix>{code}\"")
    prefix = fb.values[0].value
    e_lo, e_hi = _bounds(mod, "is_error_code")
    c_lo, c_hi = _bounds(mod, "is_client_error")
    s_lo, s_hi = _bounds(mod, "is_server_error")
    return [
        "(* core/http_status_codes.py *)",
        "Definition exc_names : list (N * list N) := [" + "; ".join(f"({k}, {cstr(v)})" for k, v in names) + "].",
        f"Definition exc_rename_from : list N := {cstr(ren_from)}.",
        f"Definition exc_rename_to : list N := {cstr(ren_to)}.",
        f"Definition exc_fallback_prefix : list N := {cstr(prefix)}.",
        f"Definition error_lo : N := {e_lo}.  Definition error_hi : N := {e_hi}.",
        f"Definition client_lo : N := {c_lo}.  Definition client_hi : N := {c_hi}.",
        f"Definition server_lo : N := {s_lo}.  Definition server_hi : N := {s_hi}.",
    ]


def _hierarchy() -> list[str]:
    mod = _parse("core/exceptions.py")
    pairs = []
    for n in mod.body:
        if isinstance(n, ast.ClassDef):
            if len(n.bases) != 1 or not isinstance(n.bases[0], ast.Name) or n.keywords:
                raise TranslatorError(f"core/exceptions.py: class {n.name} does not have exactly one plain base")
            pairs.append((n.name, n.bases[0].id))
    if not pairs:
        raise TranslatorError("core/exceptions.py: no classes")
    http = _find_class(mod, "HTTPError")
    init = _find_func(http, "__init__")
    params = [a.arg for a in init.args.args]
    stored = {}
    for s in ast.walk(init):
        if (isinstance(s, ast.Assign) and isinstance(s.targets[0], ast.Attribute) and isinstance(s.targets[0].value, ast.Name)
                and s.targets[0].value.id == "self" and isinstance(s.value, ast.Name)):
            stored[s.targets[0].attr] = s.value.id
    if stored.get("status_code") != "status_code" or stored.get("response") != "response" or \
            not {"status_code", "response"} <= set(params):
        raise TranslatorError("HTTPError.__init__ no longer stores status_code / response as given")
    # only HTTPError may define __init__: a subclass overriding it could drop the fields
    for n in mod.body:
        if isinstance(n, ast.ClassDef) and n.name != "HTTPError":
            if any(isinstance(s, (ast.FunctionDef, ast.AsyncFunctionDef)) for s in n.body):
                raise TranslatorError(f"core/exceptions.py: {n.name} defines methods (model assumes it inherits HTTPError's)")
    return ["(* core/exceptions.py : (class, base) *)",
            "Definition exc_hierarchy : list (list N * list N) := ["
            + "; ".join(f"({cstr(a)}, {cstr(b)})" for a, b in pairs) + "]."]


def _alias_bases_of(fn: ast.AST, where: str) -> tuple[str, str, bool]:
    """the `if is_client_error(code): base_class = A elif is_server_error(code): base_class = B else: continue` chain"""
    found = None
    for n in ast.walk(fn):
        if (isinstance(n, ast.If) and isinstance(n.test, ast.Call) and isinstance(n.test.func, ast.Name)
                and n.test.func.id == "is_client_error"):
            found = n
            break
    if found is None:
        raise TranslatorError(f"{where}: is_client_error branch not found")

    def assigned(body: list[ast.stmt]) -> str:
        if not (len(body) == 1 and isinstance(body[0], ast.Assign) and isinstance(body[0].targets[0], ast.Name)
                and body[0].targets[0].id == "base_class" and isinstance(body[0].value, ast.Constant)):
            raise TranslatorError(f"{where}: base_class assignment changed shape")
        return body[0].value.value
    a = assigned(found.body)
    if not (len(found.orelse) == 1 and isinstance(found.orelse[0], ast.If) and isinstance(found.orelse[0].test, ast.Call)
            and isinstance(found.orelse[0].test.func, ast.Name) and found.orelse[0].test.func.id == "is_server_error"):
        raise TranslatorError(f"{where}: is_server_error branch not found")
    b = assigned(found.orelse[0].body)
    els = found.orelse[0].orelse
    if not (len(els) == 1 and isinstance(els[0], ast.Continue)):
        raise TranslatorError(f"{where}: final else is not `continue`")
    # the alias __init__ must forward status and response
    fwd = False
    bases_ok = False
    for n in ast.walk(fn):
        if isinstance(n, ast.Constant) and isinstance(n.value, str) and "super().__init__(" in n.value:
            fwd = "status_code=response.status_code" in n.value and "response=response" in n.value
        if isinstance(n, ast.keyword) and n.arg == "base_classes":
            bases_ok = (isinstance(n.value, ast.List) and len(n.value.elts) == 1 and isinstance(n.value.elts[0], ast.Name)
                        and n.value.elts[0].id == "base_class")
    if not fwd:
        raise TranslatorError(f"{where}: alias __init__ no longer forwards status_code=response.status_code, response=response")
    if not bases_ok:
        raise TranslatorError(f"{where}: render_class(base_classes=[base_class]) changed")
    return a, b, True


def _aliases() -> list[str]:
    vmod = _parse("visit/exception_visitor.py")
    visit = _find_func(_find_class(vmod, "ExceptionVisitor"), "visit")
    a1, b1, _ = _alias_bases_of(visit, "ExceptionVisitor.visit")
    # filter: error_codes = sorted([code for code in all_codes if is_error_code(code)])
    filt = [n for n in ast.walk(visit) if isinstance(n, ast.comprehension) and any(
        isinstance(c, ast.Call) and isinstance(c.func, ast.Name) and c.func.id == "is_error_code" for c in n.ifs)]
    if len(filt) != 1:
        raise TranslatorError("ExceptionVisitor.visit: is_error_code filter not found")
    emod = _parse("emitters/exceptions_emitter.py")
    gen = _find_func(_find_class(emod, "ExceptionsEmitter"), "_generate_for_codes")
    a2, b2, _ = _alias_bases_of(gen, "ExceptionsEmitter._generate_for_codes")
    if (a1, b1) != (a2, b2):
        raise TranslatorError(f"alias base classes differ between visitor {a1, b1} and emitter {a2, b2}")
    return ["(* visit/exception_visitor.py, emitters/exceptions_emitter.py *)",
            f"Definition alias_base_client : list N := {cstr(a1)}.",
            f"Definition alias_base_server : list N := {cstr(b1)}."]


def _range_test(e: ast.expr, where: str) -> tuple[int, int]:
    """`<int> <= response.status_code < <int>`"""
    if not (isinstance(e, ast.Compare) and isinstance(e.left, ast.Constant) and isinstance(e.left.value, int)
            and len(e.ops) == 2 and isinstance(e.ops[0], ast.LtE) and isinstance(e.ops[1], ast.Lt)
            and ast.unparse(e.comparators[0]) == "response.status_code"
            and isinstance(e.comparators[1], ast.Constant) and isinstance(e.comparators[1].value, int)):
        raise TranslatorError(f"{where}: expected `<int> <= response.status_code < <int>`")
    return e.left.value, e.comparators[1].value


def _ranges_table(name: str, ranges: list[tuple[int, int, str]]) -> str:
    return f"Definition {name} : list (N * N * list N) := [" + "; ".join(f"({lo}, {hi}, {cstr(c)})" for lo, hi, c in ranges) + "]."


def _transport() -> list[str]:
    """if status < lo or status >= hi:  error_class = D; if a <= status < b: error_class = X; elif …; raise error_class(…)"""
    mod = _parse("core/http_transport.py")
    req = _find_func(_find_class(mod, "HttpxTransport"), "request")
    ifs = [s for s in req.body if isinstance(s, ast.If)]
    if len(ifs) != 1:
        raise TranslatorError("HttpxTransport.request: expected exactly one top-level if")
    t = ifs[0].test

    def cmp(e: ast.expr, op: type) -> int:
        if not (isinstance(e, ast.Compare) and len(e.ops) == 1 and isinstance(e.ops[0], op)
                and ast.unparse(e.left) == "response.status_code" and isinstance(e.comparators[0], ast.Constant)
                and isinstance(e.comparators[0].value, int)):
            raise TranslatorError("HttpxTransport.request: status test changed shape")
        return e.comparators[0].value
    if not (isinstance(t, ast.BoolOp) and isinstance(t.op, ast.Or) and len(t.values) == 2) or ifs[0].orelse:
        raise TranslatorError("HttpxTransport.request: expected `if status < lo or status >= hi:` without else")
    lo, hi = cmp(t.values[0], ast.Lt), cmp(t.values[1], ast.GtE)
    b = ifs[0].body
    if not (len(b) == 3 and isinstance(b[0], (ast.Assign, ast.AnnAssign)) and isinstance(b[1], ast.If) and isinstance(b[2], ast.Raise)):
        raise TranslatorError("HttpxTransport.request: expected `error_class = <Base>; if/elif by range; raise error_class(...)`")
    tgt = b[0].target if isinstance(b[0], ast.AnnAssign) else b[0].targets[0]
    if not (isinstance(tgt, ast.Name) and isinstance(b[0].value, ast.Name)):
        raise TranslatorError("HttpxTransport.request: default error class assignment changed")
    var, default = tgt.id, b[0].value.id
    ranges: list[tuple[int, int, str]] = []
    node: ast.stmt | None = b[1]
    while node is not None:
        if not isinstance(node, ast.If):
            raise TranslatorError("HttpxTransport.request: range chain ends with a bare else")
        r = _range_test(node.test, "HttpxTransport.request")
        if not (len(node.body) == 1 and isinstance(node.body[0], ast.Assign) and isinstance(node.body[0].targets[0], ast.Name)
                and node.body[0].targets[0].id == var and isinstance(node.body[0].value, ast.Name)):
            raise TranslatorError("HttpxTransport.request: range branch is not `error_class = <Name>`")
        ranges.append((r[0], r[1], node.body[0].value.id))
        if len(node.orelse) > 1:
            raise TranslatorError("HttpxTransport.request: range chain changed shape")
        node = node.orelse[0] if node.orelse else None
    call = b[2].exc
    if not (isinstance(call, ast.Call) and isinstance(call.func, ast.Name) and call.func.id == var and not call.args):
        raise TranslatorError("HttpxTransport.request: does not raise error_class(...)")
    kws = {k.arg: ast.unparse(k.value) for k in call.keywords}
    if kws.get("status_code") != "response.status_code" or kws.get("response") != "response":
        raise TranslatorError("HttpxTransport.request: raise no longer passes status_code=response.status_code, response=response")
    last = req.body[-1]
    if not (isinstance(last, ast.Return) and isinstance(last.value, ast.Name) and last.value.id == "response"):
        raise TranslatorError("HttpxTransport.request: does not end with `return response`")
    return ["(* core/http_transport.py : HttpxTransport.request *)",
            f"Definition transport_lo : N := {lo}.  Definition transport_hi : N := {hi}.",
            f"Definition transport_default : list N := {cstr(default)}.",
            _ranges_table("transport_ranges", ranges)]


def _handler() -> list[str]:
    mod = _parse("visit/endpoint/generators/response_handler_generator.py")
    cls = _find_class(mod, "EndpointResponseHandlerGenerator")
    gen = _find_func(cls, "generate_response_handling")
    # ---- _write_range_aware_raise: for lo, hi, cls in ((…), (…)): import; `if lo <= status < hi:` raise cls(…); raise Base(…)
    rar = _find_func(cls, "_write_range_aware_raise")
    body = [s for s in rar.body if not (isinstance(s, ast.Expr) and isinstance(s.value, ast.Constant))]
    if not (len(body) == 3 and isinstance(body[0], ast.For) and isinstance(body[0].iter, ast.Tuple)):
        raise TranslatorError("_write_range_aware_raise: expected `for … in (<tuples>)` + import + final raise")
    ranges = []
    for el in body[0].iter.elts:
        if not (isinstance(el, ast.Tuple) and len(el.elts) == 3 and all(isinstance(x, ast.Constant) for x in el.elts)
                and isinstance(el.elts[0].value, int) and isinstance(el.elts[1].value, int) and isinstance(el.elts[2].value, str)):
            raise TranslatorError("_write_range_aware_raise: range table entry is not (int, int, str)")
        ranges.append((el.elts[0].value, el.elts[1].value, el.elts[2].value))
    loop_src = [ast.unparse(n) for n in ast.walk(body[0]) if isinstance(n, ast.JoinedStr)]
    names = [t.id for t in body[0].target.elts] if isinstance(body[0].target, ast.Tuple) else []
    if len(names) != 3:
        raise TranslatorError("_write_range_aware_raise: loop target changed")
    lo_v, hi_v, cls_v = names
    want_if = f"f'if {{{lo_v}}} <= response.status_code < {{{hi_v}}}:'"
    want_raise = "f'raise {error_ref}(response=response, message=\"{message}\", status_code=response.status_code)'"
    refs = [n for n in ast.walk(body[0]) if isinstance(n, ast.Call) and isinstance(n.func, ast.Attribute) and n.func.attr == "_exception_ref"]
    if len(refs) != 1 or ast.unparse(refs[0].args[1]) != "'exceptions'" or ast.unparse(refs[0].args[2]) != cls_v:
        raise TranslatorError("_write_range_aware_raise: the raised class is not resolved with _exception_ref(context, 'exceptions', <class>)")
    if want_if not in loop_src or want_raise not in loop_src:
        raise TranslatorError(f"_write_range_aware_raise: rendered lines changed: {loop_src}")
    finals = [ast.unparse(n) for n in ast.walk(body[2]) if isinstance(n, ast.JoinedStr)]
    m = [f for f in finals if f.startswith("f'raise ") and "response=response" in f and "status_code=response.status_code" in f]
    if len(m) != 1:
        raise TranslatorError(f"_write_range_aware_raise: final raise changed: {finals}")
    fallback_cls = m[0][len("f'raise "):m[0].index("(")]
    # both `case _` variants must go through it and nothing else raises literally there
    calls = [n for n in ast.walk(gen) if isinstance(n, ast.Call) and isinstance(n.func, ast.Attribute)
             and n.func.attr == "_write_range_aware_raise"]
    if len(calls) != 2:
        raise TranslatorError("generate_response_handling: expected two calls of _write_range_aware_raise (default, catch-all)")
    lits = [n.value for n in ast.walk(gen) if isinstance(n, ast.Constant) and isinstance(n.value, str)]
    # ---- declared numeric non-2xx: alias for error codes, inline base class otherwise
    fstr = [n for n in ast.walk(gen) if isinstance(n, ast.JoinedStr) and n.values and isinstance(n.values[0], ast.Constant)
            and n.values[0].value == "raise "]
    if len(fstr) != 1 or ast.unparse(fstr[0]) != "f'raise {error_ref}(response=response)'":
        raise TranslatorError("generate_response_handling: alias raise line changed")
    arefs = [n for n in ast.walk(gen) if isinstance(n, ast.Call) and isinstance(n.func, ast.Attribute) and n.func.attr == "_exception_ref"]
    if len(arefs) != 1 or ast.unparse(arefs[0].args[1]) != "'exception_aliases'" or ast.unparse(arefs[0].args[2]) != "error_class_name":
        raise TranslatorError("generate_response_handling: the alias is not resolved with _exception_ref(context, 'exception_aliases', …)")
    # _exception_ref: a name that a model class of the spec also has is referenced through its module
    er = _find_func(cls, "_exception_ref")
    quals = [ast.unparse(n) for n in ast.walk(er) if isinstance(n, ast.JoinedStr)]
    tests = [n for n in ast.walk(er) if isinstance(n, ast.If) and isinstance(n.test, ast.Compare) and isinstance(n.test.ops[0], ast.In)
             and ast.unparse(n.test.left) == "class_name"]
    if "f'{module}.{class_name}'" not in quals or len(tests) != 1 or not any(isinstance(x, ast.Return) for x in tests[0].body):
        raise TranslatorError(f"_exception_ref changed shape: {quals}")
    guards = [n for n in ast.walk(gen) if isinstance(n, ast.If) and isinstance(n.test, ast.Call)
              and isinstance(n.test.func, ast.Name) and n.test.func.id == "is_error_code"]
    if len(guards) != 1 or not any(isinstance(x, ast.JoinedStr) for b in guards[0].body for x in ast.walk(b)):
        raise TranslatorError("generate_response_handling: `if is_error_code(code): raise <alias>` not found")
    other = [s for b in guards[0].orelse for s in (n.value for n in ast.walk(b) if isinstance(n, ast.Constant) and isinstance(n.value, str))
             if s.startswith("raise ")]
    tail = [s for b in guards[0].orelse for s in (n.value for n in ast.walk(b) if isinstance(n, ast.Constant) and isinstance(n.value, str))
            if "status_code=response.status_code" in s]
    if len(other) != 1 or "response=response" not in other[0] or len(tail) != 1:
        raise TranslatorError(f"generate_response_handling: inline raise for declared non-error codes changed: {other} {tail}")
    declared_other = other[0][len("raise "):other[0].index("(")]
    # ---- default response with content: `if 200 <= response.status_code < 300:` before the strategy return
    dguard = [s for s in lits if s.startswith("if ") and s.endswith(":")]
    if len(dguard) != 1:
        raise TranslatorError(f"generate_response_handling: expected one literal `if` line (the default-case success test): {dguard}")
    d_lo, d_hi = _range_test(ast.parse(dguard[0] + "\n    pass").body[0].test, "default-case success test")
    # ---- "2XX" range case
    rcase = [s for s in lits if s.startswith("case _ if ")]
    if len(rcase) != 1 or not rcase[0].endswith(":"):
        raise TranslatorError(f"generate_response_handling: expected one literal range case: {rcase}")
    r_lo, r_hi = _range_test(ast.parse("if " + rcase[0][len("case _ if "):] + "\n    pass").body[0].test, "range case")
    wild = {n.comparators[0].value for n in ast.walk(gen) if isinstance(n, ast.Compare) and isinstance(n.ops[0], ast.Eq)
            and isinstance(n.left, ast.Call) and isinstance(n.left.func, ast.Attribute) and n.left.func.attr == "upper"
            and isinstance(n.comparators[0], ast.Constant)}
    if wild != {"2XX"}:
        raise TranslatorError(f"generate_response_handling: wildcard keys {wild}")
    # the success-prefix tests: .startswith("2")
    pre = {n.args[0].value for n in ast.walk(gen) if isinstance(n, ast.Call) and isinstance(n.func, ast.Attribute)
           and n.func.attr == "startswith" and n.args and isinstance(n.args[0], ast.Constant)}
    if pre != {"2"}:
        raise TranslatorError(f"generate_response_handling: startswith prefixes {pre}")
    return ["(* visit/endpoint/generators/response_handler_generator.py *)",
            f"Definition handler_fallback_raises : list N := {cstr(fallback_cls)}.",
            _ranges_table("handler_ranges", ranges),
            f"Definition handler_declared_other_raises : list N := {cstr(declared_other)}.",
            f"Definition default_success_lo : N := {d_lo}.  Definition default_success_hi : N := {d_hi}.",
            f"Definition wildcard_lo : N := {r_lo}.  Definition wildcard_hi : N := {r_hi}.",
            f"Definition s_wildcard_2xx : list N := {cstr('2XX')}.",
            "Definition success_lead_digit : N := 2."]


def _primary() -> list[str]:
    """the priority list `for code in ["200", "201", "202", "204"]` of the three copies of _get_primary_response"""
    sites = [("types/strategies/response_strategy.py", "ResponseStrategyResolver"),
             ("types/resolvers/response_resolver.py", "OpenAPIResponseResolver"),
             ("helpers/endpoint_utils.py", None)]
    found = []
    for rel, cls in sites:
        mod = _parse(rel)
        fn = _find_func(_find_class(mod, cls) if cls else mod, "_get_primary_response")
        loops = [n for n in fn.body if isinstance(n, ast.For) and isinstance(n.iter, ast.List)]
        if len(loops) != 1 or not all(isinstance(e, ast.Constant) and isinstance(e.value, str) and e.value.isdigit()
                                      and str(int(e.value)) == e.value for e in loops[0].iter.elts):
            raise TranslatorError(f"{rel}: _get_primary_response priority loop changed shape")
        pre = {n.args[0].value for n in ast.walk(fn) if isinstance(n, ast.Call) and isinstance(n.func, ast.Attribute)
               and n.func.attr == "startswith" and n.args and isinstance(n.args[0], ast.Constant)}
        dflt = {n.comparators[0].value for n in ast.walk(fn) if isinstance(n, ast.Compare) and isinstance(n.ops[0], ast.Eq)
                and isinstance(n.comparators[0], ast.Constant) and isinstance(n.comparators[0].value, str)}
        found.append(([int(e.value) for e in loops[0].iter.elts], pre, dflt))
    if not all(f == found[0] for f in found):
        raise TranslatorError(f"the three copies of _get_primary_response use different constants: {found}")
    prio, pre, dflt = found[0]
    if pre != {"2"} or dflt != {"default"}:
        raise TranslatorError(f"_get_primary_response: prefix {pre} / default literal {dflt}")
    return ["(* _get_primary_response (response_strategy.py, response_resolver.py, endpoint_utils.py: identical constants) *)",
            "Definition primary_priority : list N := [" + "; ".join(map(str, prio)) + "].",
            f"Definition s_default : list N := {cstr('default')}."]


def render() -> str:
    lines = ["(* GENERATED by harness/tables_C06.py from /repo/src — do not edit *)",
             "From Coq Require Import List NArith.", "Import ListNotations.", "Open Scope N_scope.", ""]
    for sec in (_status_tables, _hierarchy, _aliases, _transport, _handler, _primary):
        lines += sec() + [""]
    return "\n".join(lines)
