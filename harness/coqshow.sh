#!/bin/bash
# usage: coqshow.sh <file.v relative to coq/> <line>  — print the goals after line N (debug aid)
cd "$(dirname "$(readlink -f "$0")")/../coq"
f=$1; n=$2
mkdir -p ../build/show
head -n "$n" "$f" > ../build/show/Show_tmp.v
printf '\nShow.\n' >> ../build/show/Show_tmp.v
timeout 120 coqc -Q . PG -w -notation-overridden ../build/show/Show_tmp.v 2>&1 | head -${3:-80}
