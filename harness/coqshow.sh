#!/bin/bash
# usage: coqshow.sh <file.v relative to coq/> <line>  — print the goals after line N (debug aid)
cd /verif/coq
f=$1; n=$2
mkdir -p /verif/build/show
head -n "$n" "$f" > /verif/build/show/Show_tmp.v
printf '\nShow.\n' >> /verif/build/show/Show_tmp.v
timeout 120 coqc -Q . PG -w -notation-overridden /verif/build/show/Show_tmp.v 2>&1 | head -${3:-80}
