"""C06 — non-2xx responses always raise a status-carrying, class-correct error.

Correspondence: real pipeline (generate -> import in a fresh interpreter -> call under httpx.MockTransport) for
operation shapes x statuses x {bundled HttpxTransport, custom pass-through transport}, compared with
Model/Dispatch.v `call`; plus a function-level relation for the three copies of _get_primary_response.
Oracle: the property's conclusion evaluated on the observation (written from the property text).

Mutation testing: VERIF_REPO_ROOT=<scratch copy of the repo> ./check C06 (framework.REPO, tables.SRC and the
PYTHONPATH set by ./check all follow it; /repo is never edited).
"""
from __future__ import annotations

import json
import os
import sys
from concurrent.futures import ThreadPoolExecutor
from pathlib import Path

from framework import Check, cbool, clist, cstr, load_corpus

TRUSTED = [
    "Coq 8.16.1 kernel + vm_compute (witness theorems, finite status-table lemmas, correspondence evaluation)",
    "hand-written Gallina model coq/Model/Dispatch.v of HttpxTransport.request's raise condition, the three copies of "
    "_get_primary_response, the generated `match` (generate_response_handling), alias generation and the exception "
    "hierarchy — tied to the code by this run's pipeline cases",
    "translator harness/tables_C06.py (ast, fail-closed) for HTTP_EXCEPTION_NAMES, the rename/fallback of "
    "get_exception_class_name, is_*_error bounds, the exception class hierarchy, alias base classes, the transport's "
    "bounds and raised class, the handler's fallback class, the priority list of _get_primary_response",
    "httpx.MockTransport / httpx.Response as the fake server; Python's `match` on int literals takes the first equal case",
    "domain of the pipeline cases: parameter-less GET operations; response keys are canonical decimal strings, "
    "'default' or wildcard-like strings; declared contents are JSON objects (or one event-stream primary); the fake server "
    "answers with 15 body x Content-Type shapes (JSON object/array/scalars, empty, truncated, text, binary, no Content-Type, "
    "application/problem+json)",
]

OBJ = {"type": "object", "properties": {"x": {"type": "integer"}}}
QUICK_STATUSES = [100, 101, 102, 199, 200, 201, 202, 204, 206, 226, 299, 300, 301, 302, 304, 307, 308, 399, 400, 401, 403,
                  404, 409, 410, 418, 422, 429, 451, 499, 500, 501, 502, 503, 504, 511, 599]
OK_CODES = ["200", "201", "202", "204", "206", "299", "2XX"]
ERR_CODES = ["400", "401", "404", "409", "418", "422", "429", "451", "499", "500", "501", "503", "511", "599", "4XX", "5XX"]
BAD_CODES = ["302", "304", "100", "101", "600", "399", "1XX"]  # numeric ones make the package unimportable (F06d)
ODD_CODES = ["20", "2"]  # all digits, start with "2": the handler treats them as success cases


# body x Content-Type shapes the fake server answers with (the body must not influence dispatch):
# name -> (body bytes, Content-Type or None)
BODY_SHAPES: dict[str, tuple[bytes, str | None]] = {
    "obj": (b'{"x": 1}', "application/json"),
    "arr": (b'[1, 2]', "application/json"),
    "null": (b'null', "application/json"),
    "num": (b'42', "application/json"),
    "str": (b'"Internal server error"', "application/json"),
    "bool": (b'true', "application/json"),
    "empty_json": (b'', "application/json"),
    "empty": (b'', None),
    "trunc": (b'{"x": ', "application/json"),
    "text": (b'upstream says no', "text/plain; charset=utf-8"),
    "bin": (b'\x89PNG\x00\xfe\xff', "application/octet-stream"),
    "noct": (b'{"x": 1}', None),
    "problem": (b'{"title": "t", "status": 400, "detail": "d"}', "application/problem+json"),
    "problem_str": (b'"bad things"', "application/problem+json"),
    "problem_arr": (b'["e1", "e2"]', "application/problem+json; charset=utf-8"),
}
# 3xx answers that carry a Location header whose target the fake server DOES serve (200 / 204 / 404): a transport that
# follows redirects would return the target's answer although the server answered 3xx
LOCATION_SHAPES: dict[str, str] = {
    "loc_rel_200": "/__t200", "loc_abs_200": "http://srv.test/__t200", "loc_rel_204": "/__t204", "loc_rel_404": "/__t404",
}
REDIRECT_STATUSES = [301, 302, 303, 307, 308]
SHAPE_STATUSES = [100, 302, 404, 422, 500, 503]   # statuses that are crossed with every body shape


# ---------------------------------------------------------------- inputs
def R(code: str, content: str | None = "json") -> list:
    return [code, content]


FIXED_SPECS: list[list[list[list]]] = [
    # spec = list of ops; op = list of [code, content-kind]
    [[R("200"), R("404"), R("503", None)]],
    [[R("200"), R("default")]],                                  # F06c
    [[R("200"), R("default", None)]],
    [[R("204", None), R("default")]],                            # default has content but return type None -> raises
    [[R("200"), R("302", None)]],                                # F06d
    [[R("200"), R("404")], [R("200"), R("100", None)]],          # F06d through a sibling operation
    [[R("200"), R("400"), R("401"), R("404"), R("409"), R("422"), R("429"), R("500"), R("501"), R("503")]],
    [[R("201"), R("200"), R("202", None), R("404")]],            # secondary 2xx
    [[R("404"), R("500")]],                                      # no 2xx at all: primary is the first response
    [[R("default")]],                                            # only default
    [[R("2XX"), R("4XX"), R("5XX", None)]],                      # wildcard keys are never cases
    [[R("299"), R("499"), R("599")]],                            # Error499 / Error599 fallback names
    [[R("200", "sse"), R("404"), R("default", None)]],           # streaming primary: errors surface on iteration
    [[R("200"), R("418")], [R("204", None), R("503")], [R("200"), R("default")]],
    [[R("20"), R("404")]],
    [[R("404"), R("200"), R("default")]],                        # order in the document differs from priority
    # F06e: a model class named like an exception class the module raises
    [[R("200", "ref:NotFoundError"), R("404")]],
    [[R("200", "ref:ClientError"), R("404")]],
    [[R("200", "ref:ServerError"), R("503", None)]],
    [[R("200", "ref:Error499"), R("499"), R("404")]],
    [[R("200", "ref:ConflictError"), R("404")], [R("200"), R("409")]],   # shadowing reaches a sibling operation
    [[R("200", "ref:Item"), R("404")]],                                  # harmless model name
]
COLLIDING = ["NotFoundError", "ClientError", "ServerError", "BadRequestError", "ConflictError", "InternalServerError",
             "Error499", "Error599", "Item", "Thing"]


def gen_op(rng, allow_bad: bool) -> list:
    n_ok = rng.choice([0, 1, 1, 1, 2, 3])
    n_err = rng.choice([0, 1, 2, 3, 5])
    codes = rng.sample(OK_CODES, n_ok) + rng.sample(ERR_CODES, n_err)
    if rng.random() < 0.4:
        codes.append("default")
    if allow_bad and rng.random() < 0.5:
        codes.append(rng.choice(BAD_CODES))
    if rng.random() < 0.05:
        codes.append(rng.choice(ODD_CODES))
    if not codes:
        codes = [rng.choice(OK_CODES + ERR_CODES + ["default"])]
    rng.shuffle(codes)
    return [R(c, ("ref:" + rng.choice(COLLIDING)) if c in ("200", "201") and rng.random() < 0.25
              else "json" if rng.random() < 0.6 else None) for c in codes]


def gen_spec(rng) -> list:
    allow_bad = rng.random() < 0.12
    return [gen_op(rng, allow_bad) for _ in range(rng.choice([1, 1, 2, 3]))]


def build_document(spec: list) -> dict:
    paths = {}
    for i, op in enumerate(spec):
        responses = {}
        for code, content in op:
            r: dict = {"description": "d"}
            if content == "json":
                r["content"] = {"application/json": {"schema": OBJ}}
            elif content is not None and content.startswith("ref:"):
                r["content"] = {"application/json": {"schema": {"$ref": "#/components/schemas/" + content[4:]}}}
            elif content == "sse":
                r["content"] = {"text/event-stream": {"schema": OBJ}}
            elif content == "text":
                r["content"] = {"text/plain": {"schema": {"type": "string"}}}
            responses[code] = r
        paths[f"/o{i}"] = {"get": {"operationId": f"op{i}", "tags": ["t"], "responses": responses}}
    doc = {"openapi": "3.0.3", "info": {"title": "T", "version": "1.0"}, "paths": paths}
    names = model_names(spec)
    if names:
        doc["components"] = {"schemas": {n: OBJ for n in names}}
    return doc


def model_names(spec: list) -> list[str]:
    """component schemas referenced by 2xx bodies: their classes are imported BY NAME into the endpoints module.
    Domain: names the class-name sanitiser leaves unchanged (checked against the generated import lines)."""
    out: list[str] = []
    for op in spec:
        for code, content in op:
            if content is not None and content.startswith("ref:") and code.startswith("2") and content[4:] not in out:
                out.append(content[4:])
    return out


def declared_statuses(spec: list) -> list[int]:
    out = set()
    for op in spec:
        for code, _ in op:
            if code.isdigit() and 100 <= int(code) <= 599:
                out.add(int(code))
    return sorted(out)


# ---------------------------------------------------------------- implementation runner (driver in a fresh interpreter)
DRIVER = r'''
import asyncio, importlib, httpx

def main(arg):
    out = {}
    for job in arg["jobs"]:
        pkg = job["pkg"]
        try:
            cm = importlib.import_module(pkg + ".client")
            cfgm = importlib.import_module(pkg + ".core.config")
            exc = importlib.import_module(pkg + ".core.exceptions")
        except BaseException as e:
            out[pkg] = {"import_error": type(e).__name__ + ": " + str(e)[:300]}
            continue
        out[pkg] = {"rows": asyncio.run(run_client(cm, cfgm, exc, job, arg["shapes"], arg["locations"]))}
    return out

async def run_client(cm, cfgm, exc, job, shapes, locations):
    import traceback
    cur = {}
    def handler(req):
        if req.url.path.startswith("/__t"):     # a redirect target (only reached by a client that follows redirects)
            code = int(req.url.path[4:])
            return httpx.Response(code, json={"x": 1}) if code != 204 else httpx.Response(204)
        if cur["shape"] in locations:
            r = httpx.Response(cur["st"], json={"x": 1}, headers={"location": locations[cur["shape"]]})
            cur["sent"] = r
            return r
        if cur["sse"] and cur["shape"] == "obj":
            r = httpx.Response(cur["st"], content=b'data: {"x": 1}\n\n', headers={"content-type": "text/event-stream"})
        else:
            body, ct = shapes[cur["shape"]]
            r = httpx.Response(cur["st"], content=bytes.fromhex(body), headers=({"content-type": ct} if ct else {}))
        cur["sent"] = r
        return r
    class PassThrough:
        """a custom transport: returns whatever the server answered, never raises on status"""
        def __init__(self):
            self.c = httpx.AsyncClient(transport=httpx.MockTransport(handler))
        async def request(self, method, url, **kw):
            return await self.c.request(method, url, **kw)
        async def close(self):
            await self.c.aclose()
    apis = {}
    async def api_for(kind):
        if kind not in apis:
            if kind == "bundled":
                api = cm.APIClient(cfgm.ClientConfig(base_url="http://srv.test"))
                await api.transport._client.aclose()
                api.transport._client = httpx.AsyncClient(base_url="http://srv.test", transport=httpx.MockTransport(handler))
            else:
                api = cm.APIClient(cfgm.ClientConfig(base_url="http://srv.test"), transport=PassThrough())
            apis[kind] = api
        return apis[kind]
    rows = []
    for op_i, kind, st, shape in job["calls"]:
        api = await api_for(kind)
        cur["st"] = st; cur["sent"] = None; cur["sse"] = job["sse"][op_i]; cur["shape"] = shape
        try:
            v = getattr(api.t, "op%d" % op_i)()
            if hasattr(v, "__aiter__"):
                v = [x async for x in v]
            else:
                v = await v
            rows.append(["ret", type(v).__name__])
        except BaseException as e:
            mro = [c.__name__ for c in type(e).__mro__]
            mro = mro[: mro.index("Exception") + 1] if "Exception" in mro else mro
            sc = getattr(e, "status_code", None)
            frames = traceback.extract_tb(e.__traceback__)
            files = [f.filename.replace("\\", "/") for f in frames]
            ep = [f for f in frames if "/endpoints/" in f.filename.replace("\\", "/")]
            # a TypeError thrown by the `raise X(...)` statement itself (X does not denote the exception class) is NOT a
            # decode crash: it is the dispatch outcome "Crashed" of the model
            where = ("transport" if any(f.endswith("/core/http_transport.py") for f in files)
                     else "endpoint_raise" if ep and (ep[-1].line or "").lstrip().startswith("raise ") and frames[-1] is ep[-1]
                     else "endpoint" if ep else "other")
            rows.append(["exc", mro, isinstance(e, exc.HTTPError), isinstance(e, exc.ClientError),
                         isinstance(e, exc.ServerError), sc if isinstance(sc, int) else None,
                         cur["sent"] is not None and getattr(e, "response", None) is cur["sent"], str(e)[:120], where])
    for api in apis.values():
        await api.close()
    return rows
'''


def run_jobs(jobs: list[dict]) -> list[dict]:
    """jobs: [{"spec":…, "calls":[(op, kind, st)…]}] -> flat list of cases {"input", "obs", "oracle_fail"}."""
    from pipeline import SCRATCH, drive, generate
    import tempfile
    import shutil
    SCRATCH.mkdir(parents=True, exist_ok=True)
    root = Path(tempfile.mkdtemp(prefix="c06_", dir=SCRATCH))
    try:
        gens = []
        for j, job in enumerate(jobs):
            pkg = f"c{j:04d}"
            g = generate(build_document(job["spec"]), package=pkg, root=root)
            job["pkg"] = pkg
            job["gen_error"] = None if g.ok else g.error
            gens.append(g)
        batches = [jobs[i:i + 8] for i in range(0, len(jobs), 8)]

        def one(batch: list[dict]) -> dict:
            arg = {"shapes": {k: [b.hex(), ct] for k, (b, ct) in BODY_SHAPES.items()}, "locations": LOCATION_SHAPES,
                   "jobs": [{"pkg": j["pkg"], "calls": j["calls"],
                             "sse": [any(c == "sse" for _, c in op) for op in j["spec"]]}
                            for j in batch if j["gen_error"] is None]}
            r = drive(gens[0], DRIVER, arg, timeout=900)
            if not r["ok"]:
                raise RuntimeError(f"driver failed: {r['error']}\n{r.get('traceback', '')}")
            return r["result"]
        results: dict = {}
        with ThreadPoolExecutor(max_workers=8) as ex:
            for res in ex.map(one, batches):
                results.update(res)
    finally:
        shutil.rmtree(root, ignore_errors=True)
    cases = []
    for job in jobs:
        res = results.get(job["pkg"])
        for k, (op_i, kind, st, shape) in enumerate(job["calls"]):
            if job["gen_error"] is not None:
                obs = ["generator_error", job["gen_error"]]
            elif "import_error" in res:
                obs = ["import_error", res["import_error"]]
            else:
                obs = res["rows"][k]
            if obs[0] == "exc" and not obs[2] and obs[8] == "endpoint":
                # The handler took a `return <decode>` branch and the decode expression itself failed inside the
                # endpoint method (NameError: structure_from_dict missing in a secondary-2xx branch; cattrs/json
                # rejecting a body that does not conform).  For the DISPATCH model this is the Return branch; the
                # oracle still sees an exception that is not an HTTPError.  A crash inside the transport is never
                # canonicalised this way.
                obs = ["decode_crash", obs[1][0], obs[7]]
            inp = {"kind": kind, "spec": job["spec"], "op": op_i, "st": st, "body": shape}
            cases.append({"input": inp, "obs": obs, "oracle_fail": oracle(inp, obs)})
    return cases


# ---------------------------------------------------------------- the property's own oracle
def oracle(inp: dict, obs: list) -> list[str]:
    """For every status outside 200-299 the call never returns a value: it raises an instance of the package's
    HTTPError carrying that status and the response; 4xx -> ClientError instance, 5xx -> ServerError instance."""
    st = inp["st"]
    if 200 <= st <= 299:
        return []
    if obs[0] == "generator_error":
        return [f"generator failed: {obs[1][:100]}"]
    if obs[0] == "import_error":
        return ["the generated package cannot be imported, no call can raise a status-carrying error: " + obs[1].split(" (")[0]]
    if obs[0] == "ret":
        return [f"status {st // 100}xx: the call returned a value ({obs[1]}) instead of raising"]
    if obs[0] == "decode_crash":
        return [f"status {st // 100}xx: the handler tried to decode the body as a success value and raised {obs[1]}, "
                f"not an instance of HTTPError"]
    _, mro, is_http, is_client, is_server, sc, same, _msg, _where = obs
    fails = []
    if not is_http:
        fails.append(f"status {st // 100}xx: raised {mro[0]}, not an instance of HTTPError")
    else:
        if sc != st:
            fails.append(f"status {st // 100}xx: exception carries status_code {sc}")
        if not same:
            fails.append(f"status {st // 100}xx: exception does not carry the response")
        if 400 <= st < 500 and not is_client:
            fails.append(f"4xx raised {'base HTTPError' if mro[0] == 'HTTPError' else mro[0]}, not an instance of ClientError")
        if 500 <= st < 600 and not is_server:
            fails.append(f"5xx raised {'base HTTPError' if mro[0] == 'HTTPError' else mro[0]}, not an instance of ServerError")
    return fails


# ---------------------------------------------------------------- Coq printers
def c_code(code: str) -> str:
    if code == "default":
        return "Default"
    if code.isdigit() and str(int(code)) == code and code.isascii():
        return f"(Num {int(code)})"
    if code.isdigit():
        raise ValueError(f"non-canonical numeric response key {code!r} is outside the modelled domain")
    return f"(Other {cstr(code)})"


def c_op(op: list) -> str:
    return clist(f"{{| r_code := {c_code(c)}; r_content := {cbool(k is not None)} |}}" for c, k in op)


def c_obs(obs: list) -> str:
    if obs[0] == "ret":
        return "ORet"
    if obs[0] in ("import_error", "generator_error"):
        return "OImport"
    if obs[0] == "decode_crash":
        return "ORet"
    _, mro, _h, _c, _s, sc, same, _msg, _where = obs
    return f"(OExc {clist(cstr(n) for n in mro)} {sc if sc is not None else 0} {cbool(bool(same) and sc is not None)})"


def c_case(c: dict) -> str:
    i = c["input"]
    return (f"(({'Bundled' if i['kind'] == 'bundled' else 'Custom'}, {clist(c_op(o) for o in i['spec'])}, "
            f"{clist(cstr(n) for n in model_names(i['spec']))}, {i['op']}%nat, {i['st']}), {c_obs(c['obs'])})")


# ---------------------------------------------------------------- function-level relation: _get_primary_response x3
PRIMARY_POOL = OK_CODES + ERR_CODES + BAD_CODES + ODD_CODES + ["default", "203", "2xx", "x2"]


def primary_cases(rng, n: int) -> list[tuple[list, list]]:
    from pyopenapi_gen import HTTPMethod, IROperation, IRResponse, IRSchema
    from pyopenapi_gen.helpers.endpoint_utils import _get_primary_response
    from pyopenapi_gen.types.resolvers.response_resolver import OpenAPIResponseResolver
    from pyopenapi_gen.types.strategies.response_strategy import ResponseStrategyResolver
    strat = object.__new__(ResponseStrategyResolver)
    resol = object.__new__(OpenAPIResponseResolver)
    out = []
    fixed = [[], [R("default")], [R("404"), R("default"), R("2XX")], [R("204", None), R("202"), R("201"), R("200")],
             [R("299"), R("206")], [R("500"), R("404")], [R("20"), R("404")]]
    for k in range(n):
        if k < len(fixed):
            op = fixed[k]
        else:
            codes = rng.sample(PRIMARY_POOL, rng.choice([0, 1, 2, 2, 3, 4, 5, 6]))
            op = [R(c, "json" if rng.random() < 0.5 else None) for c in codes]
        resps = [IRResponse(status_code=c, description="d",
                            content=({"application/json": IRSchema(name=None, type="object")} if k_ else {}))
                 for c, k_ in op]
        iop = IROperation(operation_id="o", method=HTTPMethod.GET, path="/p", summary=None, description=None, responses=resps)

        def ix(r):
            return None if r is None else next(i for i, x in enumerate(resps) if x is r)
        out.append((op, [ix(strat._get_primary_response(iop)), ix(resol._get_primary_response(iop)),
                         ix(_get_primary_response(iop))]))
    return out


def c_onat(x) -> str:
    return "None" if x is None else f"(Some {x}%nat)"


# ---------------------------------------------------------------- entry
def main(chk: Check, replay: dict | None = None) -> int:
    if replay is not None:
        i = replay["input"]
        cs = run_jobs([{"spec": i["spec"], "calls": [(i["op"], i["kind"], i["st"], i.get("body", "obj"))]}])
        print(json.dumps(cs[0], indent=1))
        if cs[0]["oracle_fail"]:
            print(f"VIOLATION property=C06 replay=(replayed) : {cs[0]['oracle_fail']}")
            return 1
        return 0
    chk.prove()
    rng = chk.rng
    jobs: list[dict] = []
    for c in load_corpus("C06"):
        i = c["input"]
        jobs.append({"spec": i["spec"], "calls": [(i["op"], i["kind"], i["st"], i.get("body", "obj"))]})
    specs = list(FIXED_SPECS) + [gen_spec(rng) for _ in range(110 if chk.thorough else 26)]
    all_statuses = list(range(100, 600))
    for spec in specs:
        sts = all_statuses if chk.thorough else sorted(set(QUICK_STATUSES) | set(declared_statuses(spec)))
        broken = False  # (before the F06d fix a declared 1xx/3xx made the whole package unimportable)
        calls = [(o, k, st, "obj") for o in range(len(spec)) for k in ("bundled", "custom") for st in sts]
        if not broken:
            # statuses x every other body/Content-Type shape (the body must not influence the outcome)
            ssts = sorted(set(SHAPE_STATUSES) | set(declared_statuses(spec)[:2])) if not chk.thorough else \
                sorted(set(range(100, 600, 20)) | set(SHAPE_STATUSES) | set(declared_statuses(spec)))
            calls += [(o, k, st, sh) for o in range(len(spec)) for k in ("bundled", "custom") for st in ssts
                      for sh in BODY_SHAPES if sh != "obj"]
        # 3xx with a Location header pointing at a path the server serves
        calls += [(o, k, st, sh) for o in range(len(spec)) for k in ("bundled", "custom")
                  for st in (REDIRECT_STATUSES if chk.thorough else [301, 302, 307]) for sh in LOCATION_SHAPES]
        jobs.append({"spec": spec, "calls": calls})
    cases = run_jobs(jobs)
    chk.cov["evaluations"] = len(cases)
    nontrivial = {json.dumps(c["input"], sort_keys=True) for c in cases if not 200 <= c["input"]["st"] <= 299}
    chk.cov["distinct_nontrivial"] = len(nontrivial)
    dist: dict[str, int] = {}
    for c in cases:
        o = c["obs"]
        key = o[0] if o[0] != "exc" else "exc:" + ("alias" if len(o[1]) > 2 else "base")
        dist[key] = dist.get(key, 0) + 1
    chk.cov["input_distribution"] = {
        "packages_generated": len(jobs), "operations": sum(len(j["spec"]) for j in jobs),
        "statuses_per_op": "every 100..599" if chk.thorough else f"{len(QUICK_STATUSES)} representative + declared",
        "by_kind": {k: sum(1 for c in cases if c["input"]["kind"] == k) for k in ("bundled", "custom")},
        "by_status_class": {f"{d}xx": sum(1 for c in cases if c["input"]["st"] // 100 == d) for d in range(1, 6)},
        "by_body_shape": {sh: sum(1 for c in cases if c["input"].get("body") == sh) for sh in list(BODY_SHAPES) + list(LOCATION_SHAPES)},
        "observations": dist, "oracle_failures": sum(1 for c in cases if c["oracle_fail"])}
    for c in cases[:2] + cases[-2:]:
        chk.sample({"input": c["input"], "obs": c["obs"]})
    codes = None
    if chk.model_ok:
        codes = chk.coq_eval("From PG Require Import Lib.Strs Model.Dispatch Corr.C06.", "input * obs",
                             [c_case(c) for c in cases], "run", shard=1500 if chk.thorough else 1000)
    chk.decide(cases, codes, {},
               "Corr.C06.run: call(model) = outcome of the generated client's method under MockTransport")
    # function-level: the three copies of _get_primary_response
    pc = primary_cases(rng, 6000 if chk.thorough else 1500)
    chk.cov["evaluations"] += len(pc)
    chk.cov["input_distribution"]["primary_response_cases"] = len(pc)
    chk.cov["input_distribution"]["primary_copies_disagree"] = sum(1 for _, o in pc if len({str(x) for x in o}) > 1)
    if chk.model_ok:
        pcodes = chk.coq_eval("From PG Require Import Lib.Strs Model.Dispatch Corr.C06.",
                              "op * (option nat * option nat * option nat)",
                              [f"({c_op(op)}, ({c_onat(o[0])}, {c_onat(o[1])}, {c_onat(o[2])}))" for op, o in pc],
                              "run_primary", shard=800, tag="primary")
        pcases = [{"input": {"responses": op}, "obs": o, "oracle_fail": []} for op, o in pc]
        chk.decide(pcases, pcodes, {}, "Corr.C06.run_primary: primary_rs/primary_eu = the three _get_primary_response copies")
    return chk.finish(TRUSTED,
                      rule="corpus + fixed operation shapes + seeded random specs (1-3 ops, 2xx/4xx/5xx/default/wildcard/"
                           "3xx/1xx keys, with/without content) x statuses x {bundled, custom}; one case = one call; "
                           "every status with a JSON-object body, a subset of statuses x 14 further body/Content-Type shapes; "
                           "non-trivial = status outside 200-299; distinct by JSON of (kind, spec, op, status, body shape)")
