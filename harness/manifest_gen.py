"""Regenerates MANIFEST.json from the per-property fragments harness/manifest/Cxx.json
(keys: text, note, technique, design).  Run by hand after adding a property."""
import json
from pathlib import Path

HERE = Path(__file__).resolve().parent
CHECKS = {p.stem: json.loads(p.read_text()) for p in sorted((HERE / "manifest").glob("C*.json"))}
ALL = [f"C{i:02d}" for i in range(1, 21)]
PENDING_REASON = "check not built yet in this snapshot (planned per DESIGN.md §8); not claimed until its model, theorems and correspondence run exist"


def main() -> None:
    checks = []
    for pid, c in CHECKS.items():
        checks.append({
            "property_id": pid,
            "quick_cmd": f"./check {pid} --tier quick",
            "thorough_cmd": f"./check {pid} --tier thorough",
            "evidence_file": f"evidence/{pid}.json",
            "replay_cmd_template": f"./check {pid} --replay {{path}}",
            "engine": "coq-model+correspondence",
            "level_claimed": {"category": "proof", "text": c["text"], "design_ref": c["design"]},
            "level_note": c["note"],
            "technique": c["technique"],
        })
    m = {
        "version": 1,
        "setup_cmd": "./setup.sh",
        "hooks": {"guard": "PYOPENAPI_GEN_VERIF", "enable": "no source hooks: observation is done from the harness "
                  "(MockTransport, module-attribute wrapping, audit hooks); the variable is exported by ./check for completeness",
                  "baseline_off_cmd": "cd /repo && /venv/bin/python -m pytest -ra -q -p no:cacheprovider --timeout=900 --continue-on-collection-errors",
                  "source_commits": [], "add_only": True},
        "engines": [{"name": "coq-model+correspondence", "path": "check",
                     "serves_properties": sorted(CHECKS),
                     "kind_free_text": "Coq 8.16.1 theorems about hand-written Gallina models (coq/), a fail-closed ast translator "
                                       "for the data tables (harness/tables.py), and per-property differential correspondence + "
                                       "oracle harnesses (harness/prop_Cxx.py)"}],
        "checks": checks,
        "not_applicable": [{"property_id": p, "reason": PENDING_REASON} for p in ALL if p not in CHECKS],
        "notes": "See DESIGN.md. known_findings.json lists genuine defects of the unchanged tree (KNOWN-FINDING lines).",
    }
    (HERE.parent / "MANIFEST.json").write_text(json.dumps(m, indent=1) + "\n")


if __name__ == "__main__":
    main()
