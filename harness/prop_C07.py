"""C07 — every operation is reachable exactly once per tag; none silently dropped."""
from __future__ import annotations

import ast
import json
import keyword
import os
import re
import sys
from concurrent.futures import ThreadPoolExecutor
from pathlib import Path
from typing import Any

# the implementation under test is whatever ./check put on PYTHONPATH (framework.REPO, default /repo;
# VERIF_REPO_ROOT=<scratch checkout> for seeded-change experiments) — nothing here names /repo
from framework import Check, cbool, clist, copt, cpair, cstr, load_corpus  # noqa: E402
from pipeline import base_spec, drive, generate  # noqa: E402

TRUSTED = [
    "Coq 8.16.1 kernel + vm_compute (witness theorems and correspondence evaluation)",
    "hand-written Gallina model coq/Model/Tags.v of parse_operations' skip conditions, the operation-id de-dup loop, "
    "the tag grouping of EndpointsEmitter.emit and ClientVisitor.visit (validated on this run's cases only)",
    "name sanitisation is NOT modelled here: sanitize_method_name / normalize_tag_key / sanitize_module_name / "
    "sanitize_class_name / clean_auto_generated_operation_id / the nested tag_score / str.isidentifier enter the model as "
    "finite tables produced by the real functions for the strings of each case (Section variables in the theorems)",
    "the harness' reading of the loaded document into raw_op shapes (isinstance checks on json/yaml.safe_load output)",
    "CPython ast/inspect for the observation of generated classes",
]

HTTP = ["get", "post", "put", "patch", "delete", "options", "head", "trace"]
STRATEGIES = ["operationId", "clean", "path"]
RENDERS = ["json", "yaml", "yaml_int"]
PATHS = ["/a", "/a/{id}", "/users", "/users/{user_id}/items", "/", "/a-b/c.d", "/v1/Things", "/items/"]
TAG_FAMILIES = [["Users", "users", "USERS", "user-s", "Users_"],
                ["DataSources", "data_sources", "data-sources", "datasources", "Data Sources", "dataSources"],
                ["x"], ["type"], ["1st"], ["admin.ops", "AdminOps", "admin_ops"], ["default", "Default"]]
ODD_TAGS = ["-", "", "unnamed", "café", "caf", "日本", "中国"]
# response-key shapes: explicit codes, `default`, and the OpenAPI range keys 2XX/4XX/5XX, alone and mixed
RESP_KEYSETS = [["200"], ["200", "404"], ["201", "default"], ["default"], ["2XX"], ["2XX", "4XX"], ["200", "5XX", "default"],
                ["4XX", "default"], ["204", "4XX", "5XX"], ["2XX", "default"]]
OPID_FAMILIES = [["fooBar", "foo_bar", "FooBar", "foo-bar"], ["foo", "foo", "foo_2", "foo_2_2", "foo_3"],
                 ["listUsers", "getUser", "createUser", "deleteUser"], ["class", "2fa", "list", "get"]]


# ---------------------------------------------------------------- case -> document text
def case_spec(case: dict) -> dict:
    paths: dict[str, Any] = {}
    for p in case["paths"]:
        item: dict[str, Any] = {}
        if p.get("params"):
            item["parameters"] = [param_node(s, f"pp{i}") for i, s in enumerate(p["params"])]
        for k, v in p.get("extra", []):
            item[k] = v
        for it in p["items"]:
            if it.get("node") == "null":
                item[it["method"]] = None
                continue
            n: dict[str, Any] = {}
            if it.get("opid") is not None:
                n["operationId"] = it["opid"]
            if it.get("tags") == "null":
                n["tags"] = None
            elif it.get("tags") is not None:
                n["tags"] = list(it["tags"])
            if it.get("params"):
                n["parameters"] = [param_node(s, f"q{i}") for i, s in enumerate(it["params"])]
            resp: dict[Any, Any] = {}
            for code, ok in it.get("resp", [["200", True]]):
                k: Any = int(code) if case["render"] == "yaml_int" and code.isdigit() else code
                resp[k] = {"description": "ok"} if ok else "oops"
            n["responses"] = resp
            item[it["method"]] = n
        paths[p["path"]] = item
    return base_spec(paths)


def param_node(shape: str, name: str) -> Any:
    if shape == "ok":
        return {"name": name, "in": "query", "schema": {"type": "string"}}
    if shape == "noname":
        return {"in": "query", "schema": {"type": "string"}}
    return "oops"


def render(case: dict) -> tuple[str, bool]:
    spec = case_spec(case)
    if case["render"] == "json":
        return json.dumps(spec), False
    import yaml
    return yaml.safe_dump(spec, sort_keys=False, allow_unicode=True), True


def load_text(text: str, is_yaml: bool) -> dict:
    if is_yaml:
        import yaml
        return yaml.safe_load(text)
    return json.loads(text)


# ---------------------------------------------------------------- loaded document -> raw_op shapes (model input)
def raw_ops(doc: dict) -> list[dict]:
    from collections.abc import Mapping
    out = []
    for path, item in doc["paths"].items():
        if not isinstance(item, Mapping):
            continue
        base = item.get("parameters", [])
        for method, node in item.items():
            r: dict[str, Any] = {"path": path, "method": method, "node_ok": isinstance(node, Mapping), "opid": None,
                                 "tags": "absent", "resp": [], "params": []}
            if isinstance(node, Mapping):
                if "operationId" in node:
                    r["opid"] = node["operationId"]
                if "tags" in node:
                    t = node["tags"]
                    r["tags"] = list(t) if isinstance(t, list) and all(isinstance(x, str) for x in t) else "bad"
                for p in list(base) + list(node.get("parameters", [])):
                    r["params"].append("notmap" if not isinstance(p, Mapping) else ("ok" if "name" in p else "noname"))
                resp = node.get("responses", {})
                for k, v in (resp.items() if isinstance(resp, Mapping) else []):
                    r["resp"].append([["s", k] if isinstance(k, str) else ["i", int(k)], isinstance(v, Mapping)])
            out.append(r)
    return out


# ---------------------------------------------------------------- tables from the real code
_score_cache: dict[str, Any] = {}


def nested_tag_score(modname: str, outer: str):
    """compile the nested function tag_score out of <modname>.<…>.<outer> (it is a closure-free local def)"""
    if modname in _score_cache:
        return _score_cache[modname]
    import importlib
    mod = importlib.import_module(modname)
    tree = ast.parse(Path(mod.__file__).read_text())
    # the one function named tag_score of the module, wherever it is nested (`outer` names where it lived when the
    # model was written; a move inside the module is fine, two different copies in one module are not)
    fns = [n for n in ast.walk(tree) if isinstance(n, ast.FunctionDef) and n.name == "tag_score"]
    if len(fns) != 1:
        raise RuntimeError(f"expected exactly one tag_score in {modname}, found {len(fns)}")
    fn = fns[0]
    code = compile(ast.Module(body=[fn], type_ignores=[]), f"<tag_score of {modname}>", "exec")
    ns: dict[str, Any] = {"re": re}
    exec(code, ns)
    _score_cache[modname] = ns["tag_score"]
    return ns["tag_score"]


def build_tables(case: dict, raws: list[dict], chk: Check | None) -> dict:
    from pyopenapi_gen.core.utils import NameSanitizer as NS
    n = len(raws) + 1
    ids: set[str] = set()
    clean: dict[str, str] = {}
    meth: dict[str, str] = {}
    for r in raws:
        mu = r["method"].upper()
        fb_raw = f"{mu}_{r['path']}".strip("/")
        fb = NS.sanitize_method_name(fb_raw)
        meth[fb_raw] = fb
        ids.add(fb)
        if isinstance(r["opid"], str):
            ids.add(r["opid"])
            c = NS.clean_auto_generated_operation_id(r["opid"], mu, r["path"])
            clean[r["opid"] + "\0" + mu + "\0" + r["path"]] = c
            ids.add(c)
    for b in sorted(ids):
        for s1 in [""] + [f"_{k}" for k in range(2, n + 2)]:
            for s2 in [""] + ([f"_{k}" for k in range(2, n + 2)] if s1 else []):
                s = b + s1 + s2
                meth.setdefault(s, NS.sanitize_method_name(s))
    tags = {"default"}
    for r in raws:
        if isinstance(r["tags"], list):
            tags.update(r["tags"])
    e_score = nested_tag_score("pyopenapi_gen.emitters.endpoints_emitter", "emit")
    c_score = nested_tag_score("pyopenapi_gen.visit.client_visitor", "visit")
    score = {}
    for t in sorted(tags):
        se, sc = e_score(t), c_score(t)
        if se != sc and chk is not None:
            chk.broken.append({"kind": "translator", "name": "tag_score copies differ",
                               "detail": f"tag {t!r}: emitter {se} vs client visitor {sc}"})
        if se[3] != t:
            raise RuntimeError("tag_score no longer ends with the tag itself")
        score[t] = [bool(se[0]), int(se[1]), int(se[2])]
    attr = {t: NS.sanitize_module_name(t) for t in tags}
    return {
        "method": {k: v for k, v in meth.items() if k != v},
        "key": {t: NS.normalize_tag_key(t) for t in tags},
        "attr": attr,
        "class": {t: NS.sanitize_class_name(t) for t in tags},
        "clean": clean,
        "score": score,
        "ident": {a: (a.isidentifier() and not keyword.iskeyword(a)) for a in set(attr.values())},
    }


# ---------------------------------------------------------------- implementation runner
DRIVER = """
import importlib, inspect
def main(arg):
    m = importlib.import_module('client.client')
    cfg = importlib.import_module('client.core.config')
    c = m.APIClient(cfg.ClientConfig(base_url='http://x'))
    out = []
    for n, p in vars(m.APIClient).items():
        if isinstance(p, property):
            obj = getattr(c, n)
            cls = type(obj)
            meths = sorted(k for k, v in inspect.getmembers(cls) if not k.startswith('__')
                           and (inspect.iscoroutinefunction(v) or inspect.isasyncgenfunction(v)))
            out.append([n, cls.__name__, cls.__module__, meths])
    return out
"""


def observe_files(g) -> list:
    out = []
    d = g.pkg_dir / "endpoints"
    for f in sorted(d.glob("*.py")):
        if f.name == "__init__.py":
            continue
        try:
            tree = ast.parse(f.read_text())
        except SyntaxError:
            out.append([f.name[:-3], "SYNTAXERROR", []])
            continue
        for n in tree.body:
            if isinstance(n, ast.ClassDef) and not n.name.endswith("Protocol"):
                defs = [b.name for b in n.body if isinstance(b, (ast.AsyncFunctionDef, ast.FunctionDef))
                        and not b.name.startswith("__")]
                out.append([f.name[:-3], n.name, defs])
    return out


def generate_case(case: dict):
    text, is_yaml = render(case)
    g = generate({}, raw_text=text, as_yaml=is_yaml, naming_strategy=case["strategy"])
    return text, is_yaml, g


def run_cases(inputs: list[dict], chk: Check | None) -> list[dict]:
    staged = []
    for case in inputs:
        text, is_yaml, g = generate_case(case)
        raws = raw_ops(load_text(text, is_yaml))
        staged.append((case, g, raws))

    def one(x):
        case, g, raws = x
        if not g.ok:
            obs: Any = {"gen": "ERR", "error": g.error}
        else:
            r = drive(g, DRIVER, {})
            obs = {"gen": "ok", "files": observe_files(g),
                   "props": r["result"] if r["ok"] else None,
                   "props_error": None if r["ok"] else r["error"][:300],
                   "skipped": sorted(set(re.findall(r"Skipping operation parsing for (\w+ \S+):", g.log)))}
        g.cleanup()
        return obs

    with ThreadPoolExecutor(max_workers=12) as ex:
        observations = list(ex.map(one, staged))
    out = []
    for (case, g, raws), obs in zip(staged, observations):
        tables = build_tables(case, raws, chk)
        out.append({"input": case, "obs": obs, "raws": raws, "tables": tables, "oracle_fail": oracle(case, obs)})
    return out


# ---------------------------------------------------------------- the property's own oracle
def norm_tag(s: str) -> str:
    return "".join(ch for ch in s.casefold() if ch.isalnum())


def norm_id(s: str) -> str:
    return re.sub(r"[^0-9a-z]", "", s.lower())


def case_malformed(case: dict) -> bool:
    """does the case contain, by construction, an operation that cannot be represented?"""
    for p in case["paths"]:
        if any(x != "ok" for x in p.get("params", [])):
            return True
        for it in p["items"]:
            if it["method"].lower() not in HTTP:
                continue
            if it.get("node") == "null" or it.get("tags") == "null" or it.get("opid") == "":
                return True
            if any(x != "ok" for x in it.get("params", [])) or any(not ok for _, ok in it.get("resp", [])):
                return True
    return False


def oracle(case: dict, obs: dict) -> list[str]:
    """C07 on the implementation's observation, from the property text: every (path, method) operation of the document
    is exactly one async method of the client of each of its tags (or of `default`); each tag client is a property of
    APIClient; names are identifiers, unique per client, follow the naming strategy; nothing is dropped when generation
    succeeded."""
    if obs["gen"] == "ERR":
        # failed visibly: nothing was silently dropped — acceptable only if the document really contains an operation
        # that cannot be represented (the malformed shapes are put there by construction)
        if case_malformed(case):
            return []
        return [f"generation failed on a document whose operations are all well-formed: {obs.get('error')}"]
    fails: list[str] = []
    groups: dict[str, list] = {}
    for p in case["paths"]:
        for it in p["items"]:
            if it["method"].lower() not in HTTP:
                continue
            tags = it.get("tags")
            tags = tags if isinstance(tags, list) and tags else ["default"]
            for k in dict.fromkeys(norm_tag(t) for t in tags):   # one tag, however spelled, is one tag
                groups.setdefault(k, []).append((p["path"], it))
    if obs["props"] is None:
        return [f"generation succeeded but client.py is not importable: {obs['props_error']}"]
    props = obs["props"]
    names = [x[0] for x in props]
    if len(set(names)) != len(names):
        fails.append(f"duplicate tag property on APIClient: {names}")
    if len(props) != len(groups):
        fails.append(f"{len(groups)} tags in the document but {len(props)} tag properties on APIClient")
    by_file = {(m, c): defs for m, c, defs in obs["files"]}

    def matches(k: str) -> list:
        # a property is the tag's if its name normalises to the tag, or to the tag without its non-ASCII characters
        # (sanitize_module_name drops them: tag 'café' is served by property `caf`)
        k_ascii = "".join(ch for ch in k if ch.isascii())
        return [x for x in props if norm_tag(x[0]) == k or (k_ascii and norm_tag(x[0]) == k_ascii)]
    claimed = [x[0] for k in groups if k for x in matches(k)]
    for k, members in groups.items():
        # a tag without any alphanumeric character ('-', '') has no name to look for: its client must be the one
        # property that no named tag accounts for
        cand = matches(k) if k else [x for x in props if x[0] not in claimed]
        if len(cand) != 1:
            fails.append(f"tag {k!r}: {len(cand)} matching properties on APIClient (expected exactly one)")
            continue
        pname, cls, module, meths = cand[0]
        defs = by_file.get((module.rsplit(".", 1)[-1], cls))
        if defs is None:
            fails.append(f"tag {k!r}: class {cls} not found in the module on disk")
            continue
        if len(set(defs)) != len(defs):
            fails.append(f"tag {k!r}: a method is defined more than once in {cls}: {defs}")
        if sorted(set(defs)) != meths:
            fails.append(f"tag {k!r}: definitions {defs} are not exactly the public async methods {meths}")
        if len(meths) != len(members):
            fails.append(f"tag {k!r}: {len(members)} operations in, {len(meths)} methods out "
                         f"(generation succeeded, so an operation was dropped or collapsed)")
        for m in meths:
            if not m.isidentifier() or keyword.iskeyword(m):
                fails.append(f"tag {k!r}: method name {m!r} is not a valid identifier")
        for path, it in members:
            mu = it["method"].upper()
            opid = it.get("opid") if isinstance(it.get("opid"), str) and it.get("opid") else None
            by_path = norm_id(mu + path)
            ok = False
            for m in meths:
                nm = norm_id(m)
                if case["strategy"] == "path" or opid is None:
                    ok = ok or re.fullmatch(re.escape(by_path) + r"\d*", nm) is not None
                elif case["strategy"] == "operationId":
                    ok = ok or re.fullmatch(re.escape(norm_id(opid)) + r"\d*", nm) is not None
                else:  # clean: the operationId or a non-empty prefix of it (auto-generated suffix stripped)
                    stem = nm.rstrip("0123456789") or nm
                    ok = ok or (norm_id(opid).startswith(stem) and stem != "") or \
                        re.fullmatch(re.escape(norm_id(opid)) + r"\d*", nm) is not None
            if not ok:
                fails.append(f"tag {k!r}: no method named after {mu} {path} (operationId {opid!r}) under strategy "
                             f"{case['strategy']}: {meths}")
    return fails


# ---------------------------------------------------------------- Coq printers
def c_key(k) -> str:
    return f"(KStr {cstr(k[1])})" if k[0] == "s" else f"(KInt {int(k[1])})"


def c_raw(r: dict) -> str:
    tags = "TAbsent" if r["tags"] == "absent" else "TBad" if r["tags"] == "bad" else f"(TList {clist(cstr(t) for t in r['tags'])})"
    ps = {"ok": "POk", "noname": "PNoName", "notmap": "PNotMap"}
    opid = r["opid"] if isinstance(r["opid"], str) else None
    return (f"{{| r_path := {cstr(r['path'])}; r_method := {cstr(r['method'])}; r_node_ok := {cbool(r['node_ok'])}; "
            f"r_opid := {copt(opid, cstr)}; r_tags := {tags}; "
            f"r_resp := {clist(cpair(c_key(k), cbool(ok)) for k, ok in r['resp'])}; "
            f"r_params := {clist(ps[p] for p in r['params'])} |}}")


def c_tbl(d: dict) -> str:
    return clist(cpair(cstr(k), cstr(v)) for k, v in sorted(d.items()))


def c_tables(t: dict) -> str:
    score = clist(cpair(cstr(k), f"({cbool(v[0])}, {v[1]}, {v[2]})") for k, v in sorted(t["score"].items()))
    ident = clist(cpair(cstr(k), cbool(v)) for k, v in sorted(t["ident"].items()))
    return (f"{{| t_method := {c_tbl(t['method'])}; t_key := {c_tbl(t['key'])}; t_attr := {c_tbl(t['attr'])}; "
            f"t_class := {c_tbl(t['class'])}; t_clean := {c_tbl(t['clean'])}; t_score := {score}; t_ident := {ident} |}}")


C_STRAT = {"operationId": "SOpId", "clean": "SClean", "path": "SPath"}


def c_obs(o: dict) -> str:
    if o["gen"] == "ERR":
        return "OGenErr"
    files = clist(cpair(cstr(m), cpair(cstr(c), clist(cstr(d) for d in defs))) for m, c, defs in o["files"])
    props = "None" if o["props"] is None else "(Some " + clist(cpair(cstr(p[0]), cstr(p[1])) for p in o["props"]) + ")"
    return f"(OGen {files} {props})"


def c_case(c: dict) -> str:
    raws = clist(c_raw(r) for r in c["raws"])
    return f"(({c_tables(c['tables'])}, {C_STRAT[c['input']['strategy']]}, {raws}), {c_obs(c['obs'])})"


# ---------------------------------------------------------------- generators
def gen_opids(rng, n: int, paths_methods: list) -> list:
    mode = rng.choice(["family", "family", "absent", "fastapi", "mixed"])
    fam = rng.choice(OPID_FAMILIES)
    out = []
    for i in range(n):
        path, method = paths_methods[i]
        m = mode if mode != "mixed" else rng.choice(["family", "absent", "fastapi"])
        if m == "absent":
            out.append(None)
        elif m == "fastapi":
            seg = re.sub(r"\W", "_", path)
            out.append(f"{rng.choice(['read', 'create', 'do'])}_{rng.choice(['item', 'thing'])}{seg}_{method.lower()}")
        else:
            out.append(fam[i % len(fam)] if rng.random() < 0.7 else rng.choice(fam))
    return out


def gen_tags(rng, odd: bool) -> Any:
    r = rng.random()
    if r < 0.2:
        return None
    if r < 0.25:
        return []
    fams = rng.sample(TAG_FAMILIES, rng.choice([1, 1, 1, 2, 2, 3]))
    tags = []
    for f in fams:
        tags.append(rng.choice(f))
        if rng.random() < 0.15:
            tags.append(rng.choice(f))      # a second spelling of the same tag on the same operation
    if odd and rng.random() < 0.5:
        tags.append(rng.choice(ODD_TAGS))
    return tags


def gen_case(rng, malformed: bool = False, odd: bool = False) -> dict:
    npaths = rng.randint(1, 3)
    paths = []
    pm = []
    for p in rng.sample(PATHS, npaths):
        methods = rng.sample(HTTP, rng.randint(1, 3))
        for m in methods:
            pm.append((p, m))
        paths.append({"path": p, "methods": methods})
    opids = gen_opids(rng, len(pm), pm)
    i = 0
    out_paths = []
    for p in paths:
        items = []
        for m in p["methods"]:
            method = m.upper() if rng.random() < 0.05 else m
            it: dict[str, Any] = {"method": method, "opid": opids[i], "tags": gen_tags(rng, odd),
                                  "resp": [[c, True] for c in rng.choice(RESP_KEYSETS)],
                                  "params": ["ok"] * rng.choice([0, 0, 1, 2])}
            i += 1
            if malformed and rng.random() < 0.35:
                k = rng.choice(["noname", "notmap", "respnode", "nullnode", "tagsnull", "emptyid"])
                if k in ("noname", "notmap"):
                    it["params"] = it["params"] + [k]
                elif k == "respnode":
                    it["resp"] = it["resp"] + [["500", False]]
                elif k == "nullnode":
                    it = {"method": method, "node": "null"}
                elif k == "tagsnull":
                    it["tags"] = "null"
                else:
                    it["opid"] = ""
            items.append(it)
        entry: dict[str, Any] = {"path": p["path"], "items": items}
        if rng.random() < 0.2:
            entry["params"] = ["ok"] + (["noname"] if malformed and rng.random() < 0.2 else [])
        if rng.random() < 0.15:
            entry["extra"] = [["summary", "s"], ["x-ext", {"operationId": "ghost", "responses": {"200": {"description": "x"}}}]]
        out_paths.append(entry)
    return {"strategy": rng.choice(STRATEGIES), "render": rng.choice(RENDERS), "paths": out_paths}


def enum_small() -> list[dict]:
    """one or two operations x tag assignment x opid shape x strategy x rendering — exhaustive over small pools"""
    out = []
    tagsets = [None, [], ["Users"], ["Users", "x"], ["Users", "users"], ["data_sources", "DataSources"]]
    idsets = [(None, None), ("foo", "foo"), ("fooBar", "foo_bar"), ("read_a_a_get", "b")]
    i = 0
    for st in STRATEGIES:
        for rd in RENDERS:
            for tg in tagsets:
                for a, b in idsets:
                    ka = RESP_KEYSETS[i % len(RESP_KEYSETS)]
                    kb = RESP_KEYSETS[(i // 3 + 3) % len(RESP_KEYSETS)]
                    i += 1
                    out.append({"strategy": st, "render": rd, "paths": [
                        {"path": "/a", "items": [{"method": "get", "opid": a, "tags": tg, "resp": [[k, True] for k in ka], "params": []},
                                                 {"method": "post", "opid": b, "tags": ["users"], "resp": [[k, True] for k in kb], "params": []}]}]})
    return out


# ---------------------------------------------------------------- entry
# bit 1 = dedup_total (model bound of the suffix search; F07a is fixed), bit 2 = no operation skipped
GUARDS = {5: "F07e"}   # bit 2 (no operation skipped; F07f) is fixed: generation now fails instead   # bit 3 was F07c, bit 4 was F07d (both fixed; bit 4 still = every tag attribute is an identifier)


def main(chk: Check, replay: dict | None = None) -> int:
    if replay is not None:
        r = run_cases([replay["input"]], None)[0]
        print(json.dumps({"obs": r["obs"], "oracle_fail": r["oracle_fail"]}, indent=1))
        if r["oracle_fail"]:
            print(f"VIOLATION property=C07 replay=(replayed) : {r['oracle_fail']}")
            return 1
        return 0
    chk.prove()
    rng = chk.rng
    inputs = [c["input"] for c in load_corpus("C07")]
    small = enum_small()
    inputs += small if chk.thorough else rng.sample(small, 40)
    n = 900 if chk.thorough else 90
    inputs += [gen_case(rng) for _ in range(n)]
    inputs += [gen_case(rng, malformed=True) for _ in range(n // 3)]
    inputs += [gen_case(rng, odd=True) for _ in range(n // 6)]
    cases = run_cases(inputs, chk)
    chk.cov["evaluations"] = len(cases)
    chk.cov["distinct_nontrivial"] = len({json.dumps(c["input"], sort_keys=True) for c in cases
                                          if sum(len(p["items"]) for p in c["input"]["paths"]) >= 2})
    dist: dict[str, int] = {}

    def bump(k):
        dist[k] = dist.get(k, 0) + 1
    for c in cases:
        bump("strategy=" + c["input"]["strategy"])
        bump("render=" + c["input"]["render"])
        bump("ops=%d" % sum(1 for r in c["raws"] if r["method"].lower() in HTTP))
        bump("gen=" + c["obs"]["gen"])
        if c["obs"]["gen"] == "ok":
            bump("with_skipped_ops" if c["obs"]["skipped"] else "no_skipped_ops")
            bump("client_importable" if c["obs"]["props"] is not None else "client_not_importable")
        if any(isinstance(r["tags"], list) and len(r["tags"]) > 1 for r in c["raws"]):
            bump("multi_tag")
        if c["oracle_fail"]:
            bump("oracle_failures")
    chk.cov["input_distribution"] = dict(sorted(dist.items()))
    for c in cases[:2] + cases[-2:]:
        chk.sample({"input": c["input"], "obs": c["obs"]})
    codes = None
    if chk.model_ok:
        codes = chk.coq_eval("From PG Require Import Lib.Strs Model.Tags Corr.C07.", "input * obs",
                             [c_case(c) for c in cases], "run", shard=40)
    slim = [{"input": c["input"], "obs": c["obs"], "oracle_fail": c["oracle_fail"]} for c in cases]
    chk.decide(slim, codes, GUARDS, "Corr.C07.run: generate(model) = endpoint classes on disk + APIClient properties")
    return chk.finish(TRUSTED,
                      rule="corpus + small exhaustive product (tag assignment x operationId shape x strategy x rendering) + seeded "
                           "random documents (1-3 paths x 1-3 methods; tag families with spelling variants; operationId families "
                           "colliding after sanitisation; FastAPI-style ids) + a malformed stream (nameless/non-mapping parameters, "
                           "non-mapping response/operation nodes, tags: null, empty operationId, YAML integer status keys) + odd "
                           "tags (no alphanumerics, non-ASCII); non-trivial = at least two operations; distinct by JSON of the input")
