"""C08 — parsing cyclic and deep schema graphs terminates with balanced tracker state.

Implementation side: the real loader (`load_ir_from_spec`) is run on generated documents with
`unified_enter_schema` / `unified_exit_schema` wrapped from here (ParsingContext looks the functions up at
call time, so no source hook is needed).  Every event carries a full tracker snapshot and the identity of the
`_parse_schema` frame it was issued from (found by walking the Python stack), from which the tree of nested
invocations is rebuilt.  Model side: Coq `trace` of that tree (Model/Cycle.v) must reproduce every snapshot.

The implementation is run in worker sub-processes against framework.REPO (VERIF_REPO_ROOT overrides /repo,
used for mutation testing against a scratch copy, never /repo itself).
"""
from __future__ import annotations

import itertools
import json
import os
import subprocess
import sys
import tempfile
import time
from pathlib import Path
from typing import Any

TRUSTED = [
    "Coq 8.16.1 kernel + vm_compute (witness theorems and correspondence evaluation)",
    "hand-written Gallina model coq/Model/Cycle.v of unified_cycle_check/enter/exit and of the enter / early-return / "
    "try-finally skeleton of _parse_schema, tied to the code by this run's trace correspondence",
    "translator harness/tables_C08.py for the heuristic strings, the path separator and the default depth limit",
    "the tracing wrappers in harness/prop_C08.py (module attributes replaced at run time; frames identified with "
    "sys._getframe) and the tree reconstruction",
    "CPython's recursion limit as the stand-in for 'exhausting the interpreter stack' (default limit, 1000 frames)",
    "w02's reduced parser model coq/Model/Parser.v (imported by Model/CycleParser.v) for the termination theorems; its "
    "predicted nesting is compared with the observed nesting on the enumerated reference graphs",
    "the registration contract of C08_all_present is a hypothesis about the parser body, evaluated on every trace",
]

def src_root() -> str:
    from framework import REPO
    return str(REPO / "src")


HARNESS = str(Path(__file__).resolve().parent)
STATE_CODE = {"not_started": 0, "in_progress": 1, "completed": 2, "placeholder_cycle": 3,
              "placeholder_depth": 4, "placeholder_self_ref": 5}
ACTION_CODE = {"continue": 0, "placeholder": 1, "create": 2, "existing": 3}
TERMINAL = {"completed", "placeholder_cycle", "placeholder_depth", "placeholder_self_ref"}
CASE_BUDGET_S = 60
LONG_CHAIN = 400
LONG_ALLOF = 220
LONG_ARR = 220
SHORT_CHAIN0 = 30


# =====================================================================================================
# worker side (runs with PYTHONPATH=<src>:harness)
# =====================================================================================================
def R(n: str) -> dict:
    return {"$ref": "#/components/schemas/" + n}


def nest_anon(kind: str, k: int, leaf: Any) -> Any:
    node = leaf
    for _ in range(k):
        if kind == "oneof":
            node = {"oneOf": [node, {"type": "string"}]}
        elif kind == "anyof":
            node = {"anyOf": [node, {"type": "string"}]}
        elif kind == "allof":
            node = {"allOf": [node]}
        elif kind == "map":
            node = {"type": "object", "additionalProperties": node}
        elif kind == "array":
            node = {"type": "array", "items": node}
        elif kind == "inline":
            node = {"type": "object", "properties": {"p": node}}
        else:
            raise ValueError(kind)
    return node


def expand(node: Any) -> Any:
    """Case inputs keep deep nestings as a recipe {"$nest": [kind, k, leaf]} (JSON files with 1000+ levels cannot
    be written by json.dump); the document handed to the loader has them expanded."""
    if isinstance(node, dict):
        if set(node) == {"$nest"}:
            kind, k, leaf = node["$nest"]
            return nest_anon(kind, k, expand(leaf))
        return {a: expand(b) for a, b in node.items()}
    if isinstance(node, list):
        return [expand(x) for x in node]
    return node


def make_doc(case: dict) -> dict:
    case = {**case, "schemas": expand(case["schemas"]), "op": expand(case.get("op"))}
    resp: dict[str, Any] = {"description": "ok"}
    if case.get("op") is not None:
        resp["content"] = {"application/json": {"schema": case["op"]}}
    return {"openapi": "3.0.3", "info": {"title": "t", "version": "1"},
            "paths": {"/x": {"get": {"operationId": "getX", "responses": {"200": resp}}}},
            "components": {"schemas": case["schemas"]}}


class Tracer:
    def __init__(self) -> None:
        self.events: list[dict] = []
        self.open: list[tuple[Any, int]] = []
        self.serial = 0
        self.ctxs: list[Any] = []

    def reset(self) -> None:
        self.events, self.open, self.serial, self.ctxs = [], [], 0, []

    def locate(self) -> tuple[int, int, int, int]:
        f = sys._getframe(2)
        chain = []
        n = 0
        while f is not None:
            n += 1
            co = f.f_code
            if co.co_name == "_parse_schema" and co.co_filename.endswith("schema_parser.py"):
                chain.append(f)
            f = f.f_back
        chain.reverse()
        new: list[tuple[Any, int]] = []
        same = True
        for i, fr in enumerate(chain):
            if same and i < len(self.open) and self.open[i][0] is fr:
                new.append(self.open[i])
            else:
                same = False
                self.serial += 1
                new.append((fr, self.serial))
        self.open = new
        cur = new[-1][1] if new else 0
        par = new[-2][1] if len(new) > 1 else 0
        return cur, par, len(new), n

    def ctx_id(self, c: Any) -> int:
        for i, x in enumerate(self.ctxs):
            if x is c:
                return i
        self.ctxs.append(c)
        return len(self.ctxs) - 1

    @staticmethod
    def snap(c: Any) -> dict:
        return {"stack": list(c.schema_stack), "depth": c.recursion_depth,
                "states": [[k, v.value] for k, v in c.schema_states.items()],
                "parsed": [k for k in c.parsed_schemas], "ncyc": len(c.detected_cycles),
                "lcyc": sum(len(ci.cycle_path) for ci in c.detected_cycles),
                "flag": bool(c.cycle_detected), "nexc": len(c.depth_exceeded_schemas)}


TR = Tracer()


def install() -> None:
    import pyopenapi_gen.core.parsing.unified_cycle_detection as ucd
    if getattr(ucd, "_c08_wrapped", False):
        return
    orig_enter, orig_exit = ucd.unified_enter_schema, ucd.unified_exit_schema

    def w_enter(name, ctx):  # type: ignore[no-untyped-def]
        before = [k for k in ctx.parsed_schemas]
        before_states = [k for k in ctx.schema_states]
        allow = bool(ctx.allow_self_reference)
        try:
            r = orig_enter(name, ctx)
        except BaseException as e:
            TR.events.append({"k": "raised", "in": "enter", "exc": type(e).__name__})
            raise
        cur, par, nest, py = TR.locate()
        TR.events.append({"k": "enter", "name": name, "allow": allow, "action": r.action.value, "frame": cur,
                          "parent": par, "nest": nest, "py": py, "before": before, "before_states": before_states,
                          "snap": TR.snap(ctx),
                          "ctx": TR.ctx_id(ctx), "exc": None})
        return r

    def w_exit(name, ctx):  # type: ignore[no-untyped-def]
        before = [k for k in ctx.parsed_schemas]
        before_states = [k for k in ctx.schema_states]
        et = sys.exc_info()[0]
        try:
            orig_exit(name, ctx)
        except BaseException as e:
            TR.events.append({"k": "raised", "in": "exit", "exc": type(e).__name__})
            raise
        cur, par, nest, py = TR.locate()
        TR.events.append({"k": "exit", "name": name, "frame": cur, "parent": par, "nest": nest, "py": py,
                          "before": before, "before_states": before_states, "snap": TR.snap(ctx),
                          "ctx": TR.ctx_id(ctx),
                          "exc": et.__name__ if et is not None else None})

    ucd.unified_enter_schema, ucd.unified_exit_schema = w_enter, w_exit
    ucd._c08_wrapped = True


class Budget(Exception):
    pass


def run_impl(case: dict) -> dict:
    """Run the real loader on one document; return events + outcome (JSON-able)."""
    import logging
    import signal
    import warnings
    logging.disable(logging.CRITICAL)
    install()
    from pyopenapi_gen.core.loader.loader import load_ir_from_spec
    from pyopenapi_gen.core.utils import NameSanitizer
    TR.reset()
    md = case.get("max_depth")
    if md is None:
        os.environ.pop("PYOPENAPI_MAX_DEPTH", None)
    else:
        os.environ["PYOPENAPI_MAX_DEPTH"] = str(md)
    doc = make_doc(case)

    def on_alarm(signum, frame):  # type: ignore[no-untyped-def]
        raise Budget()
    signal.signal(signal.SIGALRM, on_alarm)
    signal.setitimer(signal.ITIMER_REAL, CASE_BUDGET_S)
    out: dict[str, Any] = {"error": None, "schemas": None}
    t0 = time.time()
    try:
        with warnings.catch_warnings():
            warnings.simplefilter("ignore")
            ir = load_ir_from_spec(doc)
        out["schemas"] = sorted(ir.schemas)
        out["schema_names"] = sorted({s.name for s in ir.schemas.values() if s.name})
    except Budget:
        out["error"] = {"type": "Budget", "msg": f"no result within {CASE_BUDGET_S}s"}
    except RecursionError as e:
        out["error"] = {"type": "RecursionError", "msg": str(e)[:200]}
    except Exception as e:  # noqa: BLE001
        out["error"] = {"type": type(e).__name__, "msg": str(e)[:300]}
    finally:
        signal.setitimer(signal.ITIMER_REAL, 0)
    out["seconds"] = round(time.time() - t0, 3)
    out["events"] = TR.events
    tops = {e["name"] for e in TR.events if e.get("k") == "enter" and e.get("parent") == 0 and e.get("name")}
    out["sanitized"] = {n: NameSanitizer.sanitize_class_name(n) for n in list(case["schemas"]) + sorted(tops)}
    TR.reset()
    return out


def worker_main(inp: str, outp: str) -> None:
    cases = json.loads(Path(inp).read_text())
    with open(outp, "w") as fh:
        for c in cases:
            fh.write(json.dumps(run_impl(c)) + "\n")
            fh.flush()


# =====================================================================================================
# harness side
# =====================================================================================================
def run_workers(cases: list[dict], jobs: int = 12) -> list[dict]:
    """Run the implementation on every case in sub-processes (a crashed / hung worker yields error results)."""
    tmp = Path(tempfile.mkdtemp(prefix="c08_", dir=str(Path(HARNESS).parent / "build")))
    chunks: list[list[int]] = [[] for _ in range(jobs)]
    # deal cases round-robin so that heavy (deep) ones spread
    for i in range(len(cases)):
        chunks[i % jobs].append(i)
    env = dict(os.environ)
    env["PYTHONPATH"] = f"{src_root()}:{HARNESS}"
    env["PYTHONHASHSEED"] = "0"
    env["PYTHONDONTWRITEBYTECODE"] = "1"
    procs = []
    for j, idxs in enumerate(chunks):
        if not idxs:
            continue
        fi, fo = tmp / f"in_{j}.json", tmp / f"out_{j}.jsonl"
        fi.write_text(json.dumps([cases[i] for i in idxs]))
        p = subprocess.Popen([sys.executable, __file__, "--worker", str(fi), str(fo)], env=env,
                             stdout=subprocess.DEVNULL, stderr=subprocess.PIPE, text=True)
        procs.append((p, idxs, fo))
    results: list[dict | None] = [None] * len(cases)
    for p, idxs, fo in procs:
        try:
            _, err = p.communicate(timeout=CASE_BUDGET_S * 4 + 30 * len(idxs))  # generous: a killed worker reads as a failure
        except subprocess.TimeoutExpired:
            p.kill()
            _, err = p.communicate()
        lines = fo.read_text().splitlines() if fo.exists() else []
        for k, i in enumerate(idxs):
            if k < len(lines):
                results[i] = json.loads(lines[k])
            else:
                results[i] = {"error": {"type": "WorkerDied", "msg": f"rc={p.returncode} " + (err or "")[-300:]}, "events": [],
                              "schemas": None, "sanitized": {}, "seconds": None}
    for f in tmp.glob("*"):
        f.unlink()
    tmp.rmdir()
    return results  # type: ignore[return-value]


# ---------------------------------------------------------------- trace -> call trees (+ skeleton grammar)
def rebuild(events: list[dict]) -> dict:
    """Rebuild the forest of _parse_schema invocations from the event trace.
    Returns {"tops": [...items...], "obs_events": [...], "grammar": [violations], "truncated": bool,
             "top_ends": [snap after the last event of every top-level invocation]}"""
    grammar: list[str] = []
    tops: list[Any] = []
    stack: list[dict] = []
    used: list[dict] = []
    truncated = False
    prev_parsed: list[str] = []
    prev_states: list[str] = []
    top_ends: list[dict] = []
    fell: list[str] = []

    def finish(node: dict) -> None:
        a, nx = node["action"], node["nexits"]
        nm = node["name"]
        if a == "continue" and nx != 1:
            grammar.append(f"frame {nm!r} (CONTINUE) has {nx} exits instead of exactly its finally-exit")
        if a in ("placeholder", "create"):
            if nx != 1:
                grammar.append(f"frame {nm!r} ({a}) has {nx} exits instead of exactly one balancing exit")
            if node["body"]:
                grammar.append(f"frame {nm!r} ({a}) did work after an early return")
        if a == "existing":
            if nx not in (1, 2):
                grammar.append(f"frame {nm!r} (RETURN_EXISTING) has {nx} exits")
            if nx == 1 and node["body"]:
                grammar.append(f"frame {nm!r} (RETURN_EXISTING, returned) did work after its exit")
            if nx == 2:
                fell.append(nm)
        if node["parent_node"] is None and node["last_snap"] is not None:
            top_ends.append({"name": nm, "stack": node["last_snap"]["stack"], "depth": node["last_snap"]["depth"]})

    def pop_to(serial: int) -> bool:
        """pop finished frames until the frame `serial` is on top (serial 0 = empty stack)"""
        if serial != 0 and not any(n["serial"] == serial for n in stack):
            return False
        while stack and stack[-1]["serial"] != serial:
            finish(stack.pop())
        return True

    ctx0 = None
    for e in events:
        if e["k"] == "raised" or e.get("exc") in ("RecursionError", "MemoryError", "Budget"):
            truncated = True
            break
        if ctx0 is None:
            ctx0 = e["ctx"]
        elif e["ctx"] != ctx0:
            grammar.append("more than one ParsingContext used in one load")
            break
        pp, bb = set(prev_parsed), set(e["before"])
        regs = [["reg", k] for k in e["before"] if k not in pp] + [["unreg", k] for k in prev_parsed if k not in bb]
        prev_parsed = e["snap"]["parsed"]
        bs = set(e["before_states"])
        pops = [k for k in prev_states if k not in bs]      # schema_states.pop(k) executed outside enter/exit
        prev_states = [k for k, _ in e["snap"]["states"]]
        if e["k"] == "enter":
            if not pop_to(e["parent"]):
                grammar.append(f"enter of {e['name']!r} from a _parse_schema frame that never entered")
                break
            if stack and stack[-1]["serial"] == e["frame"]:
                grammar.append(f"second enter in one _parse_schema frame ({e['name']!r})")
                break
            parent = stack[-1] if stack else None
            if parent is not None:
                pa, pn = parent["action"], parent["nexits"]
                if (pa == "continue" and pn >= 1) or (pa in ("placeholder", "create")) or (pa == "existing" and pn != 1):
                    grammar.append(f"frame {parent['name']!r} ({pa}, {pn} exits) calls _parse_schema outside its body")
            node = {"serial": e["frame"], "name": e["name"], "allow": e["allow"], "action": e["action"], "body": [],
                    "nexits": 0, "parent_node": parent, "last_snap": e["snap"]}
            target = parent["body"] if parent is not None else tops
            target.extend(regs)
            if pops:
                # the only place that drops tracker state is build_schemas' re-parse of a depth placeholder:
                # `schema_states.pop(n)` immediately followed by the top-level `_parse_schema(n, ...)`
                if parent is None and pops == [e["name"]]:
                    node["fresh"] = True
                else:
                    grammar.append(f"tracker state of {pops} dropped outside a top-level re-parse (before enter of {e['name']!r})")
            target.append(node)
            stack.append(node)
        else:
            if not any(n["serial"] == e["frame"] for n in stack):
                grammar.append(f"exit of {e['name']!r} from a _parse_schema frame that never entered")
                break
            pop_to(e["frame"])
            node = stack[-1]
            if e["name"] != node["name"]:
                grammar.append(f"frame entered as {node['name']!r} exits as {e['name']!r}")
            if pops:
                grammar.append(f"tracker state of {pops} dropped inside frame {node['name']!r}")
            if node["nexits"] == 0 and node["action"] != "continue" and (node["body"] or regs):
                grammar.append(f"frame {node['name']!r} ({node['action']}): work between enter and balancing exit")
            node["body"].extend(regs)
            node["nexits"] += 1
            node["last_snap"] = e["snap"]
        used.append(e)
    if not truncated:
        while stack:
            finish(stack.pop())
    return {"tops": tops, "used": used, "grammar": grammar, "truncated": truncated, "top_ends": top_ends,
            "fell": fell}


def strip(item: Any, limit: int = 8) -> Any:
    """JSON form of a call tree item (for replay files / samples); cut below `limit` levels"""
    if isinstance(item, list):
        return item
    return {"name": item["name"], "allow": item["allow"], "action": item["action"], "nexits": item["nexits"],
            "fresh": bool(item.get("fresh")), "body": [strip(x, limit - 1) for x in item["body"]] if limit > 0 else "(cut)"}


# ---------------------------------------------------------------- the property's own oracle
def declared_aliases(schemas: dict) -> list[list[str]]:
    out = []
    for n, nd in schemas.items():
        if isinstance(nd, dict) and set(nd) == {"$ref"} and isinstance(nd["$ref"], str):
            tgt = nd["$ref"].split("/")[-1]
            if tgt in schemas:
                out.append([n, tgt])
    return out


def oracle(case: dict, res: dict, rb: dict) -> list[str]:
    """C08 as stated, evaluated on what the implementation did (no reference to the model)."""
    fails = []
    err = res["error"]
    # (1) loading terminates within the budget, without exhausting the interpreter stack
    if err and err["type"] in ("RecursionError", "Budget", "WorkerDied", "MemoryError"):
        fails.append(f"loading did not terminate normally: {err['type']}")
    # (2) after each top-level schema the tracker is at rest
    if not rb["truncated"]:
        for te in rb["top_ends"]:
            if te["stack"] or te["depth"] != 0:
                fails.append(f"tracker not at rest after top-level {te['name']!r}: stack={te['stack']} depth={te['depth']}")
                break
    # (1') recursion is cut at the configured limit: no NAMED schema is told to continue parsing at a counted depth
    #      beyond the limit (it must be answered with a placeholder there)
    limit = case["max_depth"] if case.get("max_depth") is not None else 150
    for e in rb["used"]:
        if e["k"] == "enter" and e["name"] and e["action"] == "continue" and e["snap"]["depth"] > limit:
            fails.append(f"schema {e['name']!r} continues parsing at counted depth {e['snap']['depth']} > limit {limit}")
            break
    # (2') the trace is an instance of the enter / early-return / finally skeleton
    for g in rb["grammar"][:3]:
        fails.append("unbalanced enter/exit: " + g)
    # (3) every declared name is present in the result
    if err and err["type"] == "RuntimeError" and "was not parsed" in err["msg"]:
        fails.append("declared schema missing from the result: " + err["msg"][:120])
    elif err and err["type"] == "ValueError" and "" in case["schemas"] and "empty name" in err["msg"]:
        pass  # an invalid document (a component schema keyed by "") is rejected up front with a clear error
    elif err and err["type"] not in ("RecursionError", "Budget", "WorkerDied", "MemoryError"):
        fails.append(f"loading raised {err['type']}: {err['msg'][:160]}")
    elif not err:
        have = set(res["schemas"]) | set(res.get("schema_names", []))
        missing = [n for n in case["schemas"] if n not in have and res["sanitized"].get(n) not in have]
        if missing:
            fails.append(f"declared schema missing from the result: {missing}")
    # (4) every schema ends in a terminal state
    if rb["used"] and not rb["truncated"]:
        final = dict(rb["used"][-1]["snap"]["states"])
        bad = sorted(k for k, v in final.items() if v not in TERMINAL)
        if bad:
            fails.append(f"schemas left in a non-terminal state: {[(k, final[k]) for k in bad]}")
    return fails


# ---------------------------------------------------------------- Coq printers
def c_item(x: Any) -> str:
    """Coq term of one item; iterative (trees can be ~1000 deep, CPython 3.12 caps C-level recursion)"""
    from framework import cbool, copt, cstr
    out: list[str] = []
    work: list[Any] = [x]
    while work:
        y = work.pop()
        if isinstance(y, str):
            out.append(y)
        elif isinstance(y, list):
            out.append(f"({'Reg' if y[0] == 'reg' else 'Unreg'} {cstr(y[1])})")
        else:
            out.append(f"(Call {copt(y['name'], cstr)} {cbool(y['allow'])} [")
            tail: list[Any] = []
            for i, ch in enumerate(y["body"]):
                if i:
                    tail.append("; ")
                tail.append(ch)
            tail.append("])")
            work.extend(reversed(tail))
    return "".join(out)


def c_top(x: Any) -> str:
    from framework import cstr
    if isinstance(x, dict) and x.get("fresh"):
        return f"(Fresh {cstr(x['name'])} {c_item(x)})"
    return f"(Plain {c_item(x)})"


def hsnap(s: dict) -> tuple[int, int]:
    """the checksum of Corr/C08.v: a += x + 1; b += a over code points with separators"""
    a, b = 7, 0

    def step(x: int) -> None:
        nonlocal a, b
        a += x + 1
        b += a

    def hstr(n: str) -> None:
        for ch in n:
            step(ord(ch))
        step(1114112)
    for n in s["stack"]:
        hstr(n)
    step(1114113)
    for k, v in s["states"]:
        hstr(k)
        step(STATE_CODE[v])
    step(1114113)
    for n in s["parsed"]:
        hstr(n)
    return a, b


def enc_event(e: dict) -> list[int]:
    s = e["snap"]
    depth = s["depth"] if s["depth"] >= 0 else 10 ** 9 - s["depth"]   # (a negative depth cannot be written in N)
    return [0 if e["k"] == "enter" else 1, ACTION_CODE[e["action"]] if e["k"] == "enter" else 9, depth, e["nest"],
            s["ncyc"], s["lcyc"], 1 if s["flag"] else 0, s["nexc"], len(s["stack"]), len(s["states"]),
            len(s["parsed"]), *hsnap(s)]


def c_case(case: dict, rb: dict) -> str:
    from framework import cbool, clist, cpair, cstr
    md = case["max_depth"] if case.get("max_depth") is not None else 150
    obs = clist(clist(str(v) for v in enc_event(e)) for e in rb["used"])
    alt = clist(cpair(cstr(a), cstr(b)) for a, b in sorted(rb.get("sanitized", {}).items()) if a != b)
    inp = (f"{{| i_md := {md}; i_tops := {clist(c_top(t) for t in rb['tops'])}; i_trunc := {cbool(rb['truncated'])}; "
           f"i_alt := {alt} |}}")
    return f"({inp}, ({cbool(rb['truncated'])}, {obs}))"


# ---------------------------------------------------------------- generators
PRIM = {"type": "string"}
EDGE_KINDS = ["ref", "arr", "map", "oneof", "anyof", "allof", "inl", "arrinl"]


def edge_node(kind: str, tgt: str) -> dict:
    """property schema carrying one reference to `tgt` through the given construct"""
    if kind == "ref":
        return R(tgt)
    if kind == "arr":
        return {"type": "array", "items": R(tgt)}
    if kind == "map":
        return {"type": "object", "additionalProperties": R(tgt)}
    if kind == "oneof":
        return {"oneOf": [R(tgt), dict(PRIM)]}
    if kind == "anyof":
        return {"anyOf": [R(tgt), {"type": "integer"}]}
    if kind == "allof":
        return {"allOf": [R(tgt)]}
    if kind == "inl":
        return {"type": "object", "properties": {"q": R(tgt)}}
    if kind == "arrinl":
        return {"type": "array", "items": {"type": "object", "properties": {"q": R(tgt)}}}
    raise ValueError(kind)


def graph_case(names: list[str], edges: list[tuple[int, int, str]], order: list[int] | None = None,
               md: int | None = None, shapes: dict[int, str] | None = None, kind: str = "graph") -> dict:
    """names: schema names; edges (i, j, kind): schema i refers to schema j.  shapes[i] in
    {"object", "array", "allof", "oneof", "alias", "map"}: how the edges of node i are attached at node level."""
    shapes = shapes or {}
    nodes: dict[str, dict] = {}
    for i, n in enumerate(names):
        out = [(j, k) for (a, j, k) in edges if a == i]
        sh = shapes.get(i, "object")
        if sh == "alias" and out:
            nodes[n] = R(names[out[0][0]])
        elif sh == "array" and out:
            j, k = out[0]
            nodes[n] = {"type": "array", "items": edge_node(k, names[j]) if k != "arr" else R(names[j])}
        elif sh == "allof" and out:
            nodes[n] = {"allOf": [R(names[j]) for j, _ in out] + [{"type": "object", "properties": {"own": dict(PRIM)}}]}
        elif sh == "oneof" and out:
            nodes[n] = {"oneOf": [R(names[j]) for j, _ in out]}
        elif sh == "map" and out:
            nodes[n] = {"type": "object", "additionalProperties": edge_node(out[0][1], names[out[0][0]])}
        else:
            props = {f"p{x}": edge_node(k, names[j]) for x, (j, k) in enumerate(out)}
            nodes[n] = {"type": "object", "properties": props} if props else {"type": "object", "properties": {"v": dict(PRIM)}}
    order = order if order is not None else list(range(len(names)))
    return {"kind": kind, "schemas": {names[i]: nodes[names[i]] for i in order}, "max_depth": md, "op": None}


NAME_POOLS = [["A", "B", "C"], ["Node", "NodeItem", "Tree"], ["Children", "ChildrenItem", "Root"],
              ["Foo", "FooProperty", "FooBar"], ["X", "XP0", "Item"]]


def enum_small(n: int) -> list[dict]:
    """every assignment 'no edge | one edge of kind k' to the n*n ordered pairs (n <= 2 feasible)"""
    names = ["A", "B", "C"][:n]
    pairs = [(i, j) for i in range(n) for j in range(n)]
    out = []
    for combo in itertools.product([None] + EDGE_KINDS, repeat=len(pairs)):
        edges = [(i, j, k) for (i, j), k in zip(pairs, combo) if k is not None]
        out.append(graph_case(names, edges, kind=f"enum{n}"))
    return out


def enum_self_multi() -> list[dict]:
    """one schema, every subset of edge kinds as parallel self-loops"""
    out = []
    for r in range(0, len(EDGE_KINDS) + 1):
        for ks in itertools.combinations(EDGE_KINDS, r):
            out.append(graph_case(["A"], [(0, 0, k) for k in ks], kind="self-multi"))
    return out


def enum_three(rng, per_shape: int) -> list[dict]:
    """every edge set over 3 schemas (2^9 shapes) x sampled kind assignments / declaration orders / names"""
    pairs = [(i, j) for i in range(3) for j in range(3)]
    out = []
    for mask in range(1 << 9):
        sel = [p for b, p in enumerate(pairs) if (mask >> b) & 1]
        for _ in range(per_shape):
            edges = [(i, j, rng.choice(EDGE_KINDS)) for i, j in sel]
            if rng.random() < 0.3 and sel:   # a parallel edge
                i, j = rng.choice(sel)
                edges.append((i, j, rng.choice(EDGE_KINDS)))
            order = [0, 1, 2]
            rng.shuffle(order)
            names = rng.choice(NAME_POOLS) if rng.random() < 0.3 else ["A", "B", "C"]
            shapes = {}
            if rng.random() < 0.25:
                shapes[rng.randrange(3)] = rng.choice(["array", "allof", "oneof", "map"])
            out.append(graph_case(names, edges, order, md=rng.choice([None, None, 2, 5]), shapes=shapes, kind="enum3"))
    return out


def random_graph(rng) -> dict:
    n = rng.randint(2, 8)
    names = [f"S{i}" for i in range(n)]
    if rng.random() < 0.3:
        pool = rng.choice(NAME_POOLS)
        names[:len(pool)] = pool[:n]
    dens = rng.choice([0.15, 0.3, 0.5])
    edges = [(i, j, rng.choice(EDGE_KINDS)) for i in range(n) for j in range(n) if rng.random() < dens]
    order = list(range(n))
    rng.shuffle(order)
    shapes = {i: rng.choice(["array", "allof", "oneof", "map", "alias"]) for i in range(n) if rng.random() < 0.15}
    case = graph_case(names, edges, order, md=rng.choice([None, None, 2, 5, 150]), shapes=shapes, kind="random")
    if rng.random() < 0.3:
        case["op"] = rng.choice([R(names[0]), {"type": "array", "items": R(names[-1])},
                                 {"type": "object", "properties": {"d": R(names[0])}}])
    return case


def nest(kind: str, k: int, leaf: Any) -> dict:
    return {"$nest": [kind, k, leaf]}


def depth_cases(thorough: bool) -> list[dict]:
    out = []
    for md in (2, 5, 150):
        ks = sorted({max(md - 1, 1), md, md + 1, md + 2, md + 4})
        for k in ks:
            # chain of k+1 named schemas through plain property refs
            names = [f"S{i}" for i in range(k + 1)]
            out.append(graph_case(names, [(i, i + 1, "ref") for i in range(k)], md=md, kind=f"chain-ref-md{md}"))
            if md <= 5 or (thorough and k <= md + 1):
                for ek in ("arr", "oneof", "map", "inl"):
                    out.append(graph_case(names, [(i, i + 1, ek) for i in range(k)], md=md, kind=f"chain-{ek}-md{md}"))
            # closed ring of named schemas
            if md <= 5:
                out.append(graph_case(names, [(i, (i + 1) % (k + 1), "ref") for i in range(k + 1)], md=md,
                                      kind=f"ring-md{md}"))
            # nesting inside one schema: named (inline objects / arrays get synthetic names) and anonymous
            for nk in ("inline", "array"):
                # (synthetic names grow by 1-4 characters per level: at md=150 one such trace costs minutes of
                #  vm_compute, so only the placeholder-producing depth is kept, thorough tier only)
                if md <= 5 or (thorough and k == md + 1):
                    out.append({"kind": f"nest-{nk}-md{md}", "max_depth": md, "op": None,
                                "schemas": {"Deep": nest(nk, k, dict(PRIM)), "Other": {"type": "object", "properties": {"d": R("Deep")}}}})
            if md <= 5:
                for nk in ("oneof", "allof", "map", "anyof"):
                    out.append({"kind": f"nest-{nk}-md{md}", "max_depth": md, "op": None,
                                "schemas": {"Deep": nest(nk, k, R("Leaf")), "Leaf": {"type": "object", "properties": {"v": dict(PRIM)}}}})
    # limit 1 with reference chains of NAMED schemas long enough to exhaust the interpreter stack if they were not
    # cut (~3 frames per level: 334 levels overflow; cut at counted depth 2; build_schemas re-parses every placeholder from depth 0, linear in the length)
    names = [f"S{i}" for i in range(LONG_CHAIN + 1)]
    out.append(graph_case(names, [(i, i + 1, "ref") for i in range(LONG_CHAIN)], md=1, kind="longchain-ref-md1"))
    # array items: ~6 Python frames per level (~170 levels overflow when uncut) and three times the events
    out.append(graph_case(names[:LONG_ARR + 1], [(i, i + 1, "arr") for i in range(LONG_ARR)], md=1,
                          kind="longchain-arr-md1"))
    # allOf parents: ~6 Python frames per level (~170 levels overflow when uncut); the third-party spec validator run by load_ir is quadratic in the
    # length of an allOf chain (600 -> 45 s)
    out.append(graph_case(names[:LONG_ALLOF + 1], [(i, i + 1, "ref") for i in range(LONG_ALLOF)], md=1,
                          shapes={i: "allof" for i in range(LONG_ALLOF)}, kind="longchain-allof-md1"))
    # limit 0: nothing can be parsed (every schema is answered with a depth placeholder at depth 1) and build_schemas
    # repeats len(schemas) passes over all of them: quadratic by construction, so the chains are short; an uncut
    # recursion shows as a named schema continuing beyond the limit (oracle clause 1')
    for n, ek, sh in ((SHORT_CHAIN0, "ref", {}), (SHORT_CHAIN0 // 2, "arr", {}),
                      (SHORT_CHAIN0 // 2, "ref", {i: "allof" for i in range(SHORT_CHAIN0 // 2)})):
        out.append(graph_case(names[:n + 1], [(i, i + 1, ek) for i in range(n)], md=0, shapes=sh,
                              kind=f"chain-{'allof' if sh else ek}-md0"))
    for md in (0, 1):
        out.append(graph_case(["A", "B", "C"], [(0, 1, "ref"), (1, 2, "arr"), (2, 0, "oneof"), (1, 1, "inl")], md=md,
                              kind=f"small-md{md}"))
    # default limit, chains longer than the limit: the schema at the limit is re-parsed from depth 0
    for n in (200, 320):
        out.append(graph_case(names[:n + 1], [(i, i + 1, "ref") for i in range(n)], md=None, kind="chain-ref-default"))
    # anonymous nesting well beyond the default limit but within the interpreter's stack
    for nk, k in (("oneof", 160), ("map", 200)):
        out.append({"kind": f"nest-{nk}-{k}", "max_depth": None, "op": None,
                    "schemas": {"Deep": nest(nk, k, dict(PRIM))}})
    return out


def mask_case(k: int, mask: int, md: int) -> dict:
    """reference graph number `mask` over k named object schemas (Model/CycleParser.gspec): bit i*k+j = schema i has
    a property p<j> that is a $ref to schema j"""
    names = [chr(65 + i) for i in range(k)]
    return {"kind": "refgraph", "max_depth": md, "op": None, "mask": [k, mask],
            "schemas": {names[i]: {"type": "object",
                                   "properties": {"p" + chr(97 + j): R(names[j]) for j in range(k) if (mask >> (i * k + j)) & 1}}
                        for i in range(k)}}


def refgraph_cases(rng, thorough: bool) -> list[dict]:
    allm = [(k, m) for k in (1, 2, 3) for m in range(2 ** (k * k))]
    lims = [1, 2, 3, 4, 5, 20, 150]
    if thorough:
        return [mask_case(k, m, md) for (k, m) in allm for md in (1, 3, 4, 150)]
    picked = [(3, 484, 4), (3, 484, 150), (3, 106, 3)] + [(k, m, rng.choice(lims)) for (k, m) in rng.sample(allm, 60)]
    return [mask_case(k, m, md) for (k, m, md) in picked]


def malformed(rng) -> list[dict]:
    """deliberately odd documents: dangling refs, malformed refs, null nodes, non-object shapes"""
    out = []
    out.append({"kind": "malformed", "max_depth": None, "op": None,
                "schemas": {"A": {"type": "object", "properties": {"n": R("Nil")}}, "Nil": None, "Self": R("Self"),
                            "P": R("Q"), "Q": R("P"), "snake_case": {"type": "object"}}})
    out.append({"kind": "malformed", "max_depth": None, "op": None,
                "schemas": {"A": {"type": "object", "properties": {"x": R("Nope"), "y": {"$ref": "#/components/schemas/"}}},
                            "B": {"type": "array"}, "C": {"type": ["object", "null"], "properties": {"a": R("A")}}}})
    out.append({"kind": "malformed", "max_depth": 2, "op": {"type": "array", "items": {"type": "array", "items": R("A")}},
                "schemas": {"A": {"allOf": [R("A"), {"type": "object", "properties": {"z": R("A")}}]},
                            "a": {"type": "object", "properties": {"k": R("A")}}}})
    out.append({"kind": "malformed", "max_depth": None, "op": None,
                "schemas": {"A": {"type": "object", "properties": {"": R("A"), "p": {"type": "object", "description": "d"}}},
                            "B": {"enum": ["x", "y"]}, "C": {"type": "object", "additionalProperties": True}}})
    return out


# ---------------------------------------------------------------- entry
def evaluate(case: dict, res: dict) -> dict:
    rb = rebuild(res["events"])
    rb["sanitized"] = res.get("sanitized", {})
    fails = oracle(case, res, rb)
    obs = {"error": res["error"], "events": len(res["events"]), "used_events": len(rb["used"]),
           "truncated": rb["truncated"], "fell": rb["fell"], "schemas": res.get("schemas"),
           "final_states": rb["used"][-1]["snap"]["states"] if rb["used"] else [],
           "max_nest": max([e["nest"] for e in rb["used"]], default=0),
           "max_depth_counted": max([e["snap"]["depth"] for e in rb["used"]], default=0),
           "max_py_frames": max([e["py"] for e in rb["used"]], default=0)}
    return {"input": case, "obs": obs, "oracle_fail": fails, "_rb": rb}


def main(chk, replay: dict | None = None) -> int:
    from framework import load_corpus
    if replay is not None:
        case = replay["input"]
        res = run_workers([case], jobs=1)[0]
        ev = evaluate(case, res)
        print(json.dumps({"obs": ev["obs"], "oracle_fail": ev["oracle_fail"],
                          "tops": [strip(t) for t in ev["_rb"]["tops"]]}, indent=1)[:6000])
        if ev["oracle_fail"]:
            print(f"VIOLATION property=C08 replay=(replayed) : {ev['oracle_fail']}")
            return 1
        return 0
    chk.prove()
    rng = chk.rng
    inputs = [c["input"] for c in load_corpus("C08")]
    if chk.thorough:
        inputs += enum_self_multi() + enum_small(1) + enum_small(2) + enum_three(rng, 4)
        inputs += [random_graph(rng) for _ in range(1500)]
    else:
        inputs += rng.sample(enum_self_multi(), 40) + enum_small(1) + rng.sample(enum_small(2), 250)
        inputs += rng.sample(enum_three(rng, 1), 150)
        inputs += [random_graph(rng) for _ in range(150)]
    inputs += depth_cases(chk.thorough) + malformed(rng) + refgraph_cases(rng, chk.thorough)
    t0 = time.time()
    results = run_workers(inputs)
    chk.say(f"[C08] implementation runs: {len(inputs)} documents in {time.time() - t0:.1f}s")
    cases = [evaluate(c, r) for c, r in zip(inputs, results)]
    # spread the heavy traces over the Coq shards: cost ~ events x size of the snapshot that is digested per event
    shard = 60
    nsh = max(1, -(-len(cases) // shard))

    def weight(c: dict) -> int:
        used = c["_rb"]["used"]
        if not used:
            return 0
        sn = used[-1]["snap"]
        return len(used) * (sum(len(n) + 1 for n in sn["parsed"]) + sum(len(k) + 2 for k, _ in sn["states"]) + 10)
    order = sorted(range(len(cases)), key=lambda i: -weight(cases[i]))
    heavy, light = order[:3 * nsh], order[3 * nsh:]
    buckets: list[list[int]] = [[] for _ in range(nsh)]
    load = [0] * nsh
    for i in heavy:                      # longest-processing-time first
        k = min(range(nsh), key=lambda j: load[j])
        buckets[k].append(i)
        load[k] += weight(cases[i])
    it = iter(light)                     # top every bucket up to exactly `shard` cases (the last one gets the rest)
    for k in range(nsh):
        while len(buckets[k]) < shard:
            nxt = next(it, None)
            if nxt is None:
                break
            buckets[k].append(nxt)
    cases = [cases[i] for bk in buckets for i in bk]
    chk.cov["evaluations"] = len(cases)
    chk.cov["distinct_nontrivial"] = len({json.dumps(c["input"], sort_keys=True) for c in cases
                                          if c["obs"]["used_events"] > 2 * len(c["input"]["schemas"])})
    kinds: dict[str, int] = {}
    for c in cases:
        kinds[c["input"]["kind"]] = kinds.get(c["input"]["kind"], 0) + 1
    ev_total = sum(c["obs"]["used_events"] for c in cases)
    chk.cov["input_distribution"] = {
        "kinds": kinds,
        "schemas_per_doc": {str(k): sum(1 for c in cases if len(c["input"]["schemas"]) == k)
                            for k in sorted({len(c["input"]["schemas"]) for c in cases})},
        "max_depth_settings": {str(k): sum(1 for c in cases if c["input"]["max_depth"] == k)
                               for k in sorted({c["input"]["max_depth"] for c in cases}, key=lambda v: -1 if v is None else v)},
        "events_compared": ev_total, "max_events_one_doc": max(c["obs"]["used_events"] for c in cases),
        "docs_with_fallthrough": sum(1 for c in cases if c["obs"]["fell"]),
        "docs_with_error": {k: sum(1 for c in cases if c["obs"]["error"] and c["obs"]["error"]["type"] == k)
                            for k in sorted({c["obs"]["error"]["type"] for c in cases if c["obs"]["error"]})},
        "max_true_nesting": max(c["obs"]["max_nest"] for c in cases),
        "max_counted_depth": max(c["obs"]["max_depth_counted"] for c in cases),
        "oracle_failures": sum(1 for c in cases if c["oracle_fail"]),
    }
    for c in cases[:2] + cases[-1:]:
        chk.sample({"input": c["input"], "obs": c["obs"], "tops": [strip(t) for t in c["_rb"]["tops"]][:3]})
    codes = None
    if chk.model_ok:
        codes = chk.coq_eval("From PG Require Import Lib.Strs Model.Cycle Corr.C08.", "input * obs",
                             [c_case(c["input"], c["_rb"]) for c in cases], "run", shard=shard)
    if codes is not None:
        chk.cov["input_distribution"]["guard_bits_false"] = {
            name: sum(1 for v in codes if (v >> k) & 1)
            for k, name in ((1, "F08a_nesting_beyond_limit"), (2, "F08b_fallthrough"), (3, "empty_name"),
                            (4, "state_dropped_elsewhere"), (5, "registration_contract"))}
    for c in cases:
        del c["_rb"]
    # second relation: nesting predicted by the fuel-based parser model = nesting observed, on the enumerated graphs
    ng = [c for c in cases if c["input"].get("mask") and not c["obs"]["error"]]
    if chk.model_ok and ng:
        ncodes = chk.coq_eval("From PG Require Import Lib.Strs Corr.C08.", "nat * N * N * nat",
                              [f"({c['input']['mask'][0]}%nat, {c['input']['mask'][1]}, {c['input']['max_depth']}, "
                               f"{c['obs']['max_nest']}%nat)" for c in ng], "run_nest", shard=400, tag="nest")
        bad = [c for c, v in zip(ng, ncodes or []) if v]
        chk.cov["input_distribution"]["nesting_relation"] = {"compared": len(ng), "mismatches": len(bad),
                                                             "max_nesting_seen": max(c["obs"]["max_nest"] for c in ng)}
        if ncodes is not None and bad:
            first = bad[0]
            chk.broken.append({"kind": "correspondence", "name": "Corr.C08.run_nest: needed fuel (Model/Parser) = max nesting observed",
                               "mismatches": len(bad), "first": {"input": first["input"], "obs": first["obs"]}})
            chk.say(f"[C08] nesting relation broken on {len(bad)} graph(s); first: {json.dumps(first['input'])[:300]} "
                    f"observed max nesting {first['obs']['max_nest']}")
    chk.decide(cases, codes, {1: "F08a", 2: "F08b", 5: "F08e"},
               "Corr.C08.run: Coq trace of the rebuilt call trees = tracker snapshots recorded at every enter/exit")
    return chk.finish(TRUSTED,
                      rule="corpus + enumerated graphs over <=3 named schemas x 8 edge kinds (+ node shapes, declaration "
                           "orders, heuristic-triggering names) + random graphs <= 8 schemas + chains/rings/nestings around "
                           "PYOPENAPI_MAX_DEPTH in {2,5,150} + malformed documents; non-trivial = more than two events per "
                           "declared schema; distinct by JSON of the document")


if __name__ == "__main__":
    if len(sys.argv) == 4 and sys.argv[1] == "--worker":
        worker_main(sys.argv[2], sys.argv[3])
