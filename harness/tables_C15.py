"""Translator plug-in for C15: the SITE INVENTORY (coq/Gen/T_C15.v).

Every place in the generator's emitting modules where an interpolated value is put between quote characters,
after `#`, inside a docstring template, or where the interpolated expression mentions a text-bearing attribute
(description, summary, title, …) is listed with file:line and classified:
  n >= 1   a rendering site of the lexical model Model/Escape.v (number as in Corr/C15.v)
  0        the value is not free spec text: a sanitised identifier / type expression (property C20), an HTTP verb or
           status code from a closed table, generator-fixed text, markdown output, or a composition feeding another site
A candidate that is not in the table below makes the translator FAIL CLOSED: a new site needs a model first.
Keys do not contain line numbers (unrelated edits do not break the build); lines are reported in the output.
"""
from __future__ import annotations

import ast
from pathlib import Path

import tables
from tables import TranslatorError

OUT_NAME = "T_C15.v"
DIRS = ["visit", "core/writers", "emitters", "emit", "helpers", "generator", "context", "types"]
TEXT_WORDS = ("desc", "summary", "title", "default")
FLOW_ATTRS = {"description", "summary", "title", "default", "enum", "example", "examples", "external_docs", "version", "tags"}
FLOW_PARAMS = {"description", "summary", "title", "desc", "text", "docstring", "comment", "default", "field_desc"}
FLOW_SINKS = {"write_line", "write_block", "append", "extend", "join", "write_wrapped_line", "write_wrapped_docstring_line",
              "append_wrapped", "wrap_and_append", "insert"}
LOG_FUNCS = {"debug", "info", "warning", "error", "exception", "critical", "warn"}

MODELLED = {1: "enum_value", 2: "meta_key", 3: "disc_prop", 4: "disc_value", 5: "query_key", 6: "header_key", 7: "media_type",
            8: "default", 17: "enum_default", 20: "media_repr", 9: "alias_doc", 10: "field_comment", 11: "wrapper_doc", 12: "DocumentationWriter", 13: "tag_doc",
            14: "block_doc_line", 15: "client_doc_title", 16: "client_doc_description"}

# (file, function, template prefix) -> site number (0 = not free text, with the reason as a comment)
R = "core/writers/python_construct_renderer.py"
U = "visit/endpoint/generators/url_args_generator.py"
KNOWN: dict[tuple[str, str, str], int] = {
    (R, "render_enum", '__all__ = ["{enum_name}"]'): 0,                       # class name (sanitised)
    (R, "render_dataclass", '__all__ = ["{class_name}"]'): 0,                 # class name
    (R, "render_alias", '    """Discriminator metadata for {alias_name} union."""'): 0,   # alias name
    (R, "render_alias", '"""Alias for {safe_desc_content}"""'): 9,
    (R, "render_class", '"""{docstring}"""'): 0,                              # callers pass generator-fixed text (HTTP status names)
    (R, "render_dataclass", '  # {comment_text}'): 10,
    (R, "render_dataclass", "{name}: {type_hint} = {default_expr}"): 0,       # carries the already rendered default expression (site 8)
    ("visit/client_visitor.py", "generate_client_mock_class", "Mock{class_name}"): 0,
    ("visit/client_visitor.py", "generate_client_mock_class", "    class My{class_name}Mock({mock_class_name}):"): 0,
    ("visit/client_visitor.py", "generate_client_mock_class", "    client = MockAPIClient({module_name}=My{class_name}Mock())"): 0,
    ("visit/endpoint/endpoint_visitor.py", "generate_endpoint_mock_class", "Mock implementation of {class_name} for testing."): 0,
    ("visit/endpoint/endpoint_visitor.py", "generate_endpoint_mock_class", "    class Test{class_name}({mock_class_name}):"): 0,
    ("helpers/endpoint_utils.py", "format_method_args", "{p['name']}: {p['type']} = {default}"): 0,   # Python-level default of a signature ("None")
    ("generator/client_generator.py", "_write_client_init", "from {resolved_core_package_fqn}.exception_aliases import *  # noqa: F401, F403"): 0,   # dotted package name (validated identifiers)
    ("emit/models_emitter.py", "_generate_init_py", "    '{name}',"): 0,
    ("emitters/core_emitter.py", "emit", '    "{alias_name}",'): 0,
    ("emitters/endpoints_emitter.py", "emit", '"{cls}"'): 0,
    ("emitters/endpoints_emitter.py", "emit", '"{protocol_name}"'): 0,
    ("emitters/exceptions_emitter.py", "_generate_for_codes", '    """Initialise {class_name} with the HTTP response.'): 0,
    ("emitters/exceptions_emitter.py", "emit", '"{name}"'): 0,
    ("emitters/mocks_emitter.py", "_generate_mocks_init", '    "{export}",'): 0,
    ("emitters/mocks_emitter.py", "_generate_mock_endpoints_init", '    "{export}",'): 0,
    ("emitters/models_emitter.py", "_generate_model_file", 'from typing import TypeAlias\n\n__all__ = ["{class_name}"]\n\n{class_name}: TypeAlias = s'): 0,
    ("emitters/models_emitter.py", "_generate_init_py_content", "    '{name_to_export}',"): 0,
    ("helpers/endpoint_utils.py", "get_model_stub_args", '{prop}=""'): 0,   # not used by any emitter (dead helper)
    ("helpers/type_resolution/named_resolver.py", "resolve", '"{name_to_add}"'): 0,   # forward-reference class name
    ("visit/client_visitor.py", "generate_client_protocol", "def {module_name}(self) -> '{protocol_name}':"): 0,
    ("visit/client_visitor.py", "_generate_client_implementation", "Client for '{tag}' endpoints."): 12,
    ("visit/client_visitor.py", "_generate_client_implementation", "{spec.title} (version {spec.version})"): 15,
    ("visit/client_visitor.py", "generate_client_mock_class", '{module_name}: "{protocol_name} | None" = None,'): 0,
    ("visit/client_visitor.py", "generate_client_mock_class", 'def {module_name}(self) -> "{protocol_name}":'): 0,
    ("visit/docs_visitor.py", "visit", "# {tag.capitalize()} Operations\n"): 0,      # markdown, not Python
    ("visit/docs_visitor.py", "visit", "### {op.operation_id}\n"): 0,
    ("visit/docs_visitor.py", "visit", "{desc}\n"): 0,
    ("visit/endpoint/endpoint_visitor.py", "generate_endpoint_protocol", '"""Protocol defining the interface of {class_name} for dependency injection."""'): 0,
    ("visit/endpoint/generators/endpoint_method_generator.py", "_generate_implementation_method", 'url = f"{self.base_url}{formatted_path}"'): 0,   # path template: not a C15 text position (request URL, property C04)
    ("visit/endpoint/generators/endpoint_method_generator.py", "_generate_implementation_method", '"{op.method.value.upper()}", url,'): 0,   # HTTP verb enum
    ("visit/endpoint/generators/endpoint_method_generator.py", "_generate_implementation_method", "{op.summary or op.operation_id}"): 14,
    ("visit/endpoint/generators/endpoint_method_generator.py", "_generate_implementation_method", "- {content_type}"): 14,
    ("visit/endpoint/generators/mock_generator.py", "_transform_to_mock", '"{class_name}.{method_name}() not implemented. Override this method in your test subclass."'): 0,
    ("visit/endpoint/generators/request_generator.py", "generate_request_call", '"{op.method.upper()}", url'): 0,
    (U, "_build_url_with_path_vars", 'f"{self.base_url}{formatted_path}"'): 0,   # path template
    ("visit/exception_visitor.py", "visit", '    """Initialise {class_name} with the HTTP response.'): 0,
    ("visit/model/dataclass_generator.py", "_generate_untyped_wrapper_class", '__all__ = ["{class_name}"]\n\n@dataclass\nclass {class_name}:\n    """\n    {description}\n\n    Thi'): 11,
    ("visit/model/dataclass_generator.py", "_generate_typed_wrapper_class", '__all__ = ["{class_name}"]\n\n@dataclass\nclass {class_name}:\n    """\n    {description}\n\n    Thi'): 11,
    ("visit/model/dataclass_generator.py", "generate", "{field_doc} (maps from '{prop_name}')"): 10,   # feeds the field comment (10) and DocumentationWriter (12)
    ("visit/model/dataclass_generator.py", "generate", "Maps from '{prop_name}'"): 10,
    ("visit/model/dataclass_generator.py", "generate", "Maps from '{api_name}'"): 10,     # renamed field (trailing underscore): same composition
    # range-aware raise helper: {error_class} from a literal tuple, {message} a literal of the two callers - the scan
    # below verifies that every caller passes a plain string constant
    ("visit/endpoint/generators/response_handler_generator.py", "_write_range_aware_raise", 'raise {error_ref}(response=response, message="{message}", status_code=response.status_code)'): 0,   # error_ref: literal class name or exceptions.<literal class name>
    ("visit/endpoint/generators/response_handler_generator.py", "_write_range_aware_raise", 'raise HTTPError(response=response, message="{message}", status_code=response.status_code)'): 0,
    ("visit/model/dataclass_generator.py", "_get_field_default", "'\"' + {escaped_inner_content} + '\"'"): 8,
    # every use of `.default` (any rendering of a default into code needs a model; branch structure of _get_field_default:
    #  array -> default_factory, anonymous object -> default_factory, named enum -> 17, str -> 8 for EVERY declared type,
    #  bool/int/float -> str(value) which is not text)
    ("visit/model/dataclass_generator.py", "_get_field_default", "default-use: return f'{ps.name}({json.dumps(ps.default, ensure_ascii=False)})'"): 17,   # named enum: Name(<value literal>)
    ("visit/model/dataclass_generator.py", "_get_field_default", "escaper: return f'{ps.name}({json.dumps(ps.default, ensure_ascii=False)})'"): 17,
    ("visit/model/dataclass_generator.py", "_get_field_default", "default-use: return f'{ps.name}({ps.default!r})'"): 0,   # non-string default of an enum (int): not text
    ("visit/model/dataclass_generator.py", "_get_field_default", "escaper: return f'{ps.name}({ps.default!r})'"): 0,
    ("visit/model/dataclass_generator.py", "_get_field_default", "{ps.name}({json.dumps(ps.default, ensure_ascii=False)})"): 17,
    ("visit/model/dataclass_generator.py", "_get_field_default", "{ps.name}({ps.default!r})"): 0,
    ("visit/model/dataclass_generator.py", "_get_field_default", "default-use: escaped_inner_content = json.dumps(ps.default, ensure_ascii=False)[1:-1]"): 8,
    ("visit/model/dataclass_generator.py", "_get_field_default", "default-use: return str(ps.default)"): 0,   # under isinstance(bool) / isinstance((int, float)): not text
    ("visit/model/dataclass_generator.py", "generate", "default-use: synthetic_field_schema_for_default = IRSchema("): 0,   # array wrapper: copied, then default_factory=list
    ("visit/model/dataclass_generator.py", "generate", "default-use: IRSchema("): 0,                          # copied into another IRSchema
    ("visit/endpoint/processors/parameter_processor.py", "process_parameters", "default-use: param_info = {"): 0,   # carried in param_info, never rendered (signatures always use `= None`)
    ("visit/endpoint/generators/docstring_generator.py", "generate_docstring", "{resp.status_code}: {resp.description.strip() if resp.description else 'HTTP error.'}"): 12,
    ("visit/endpoint/generators/docstring_generator.py", "generate_docstring", "{body_desc} + ' (multipart/form-data)'"): 12,
    ("visit/endpoint/generators/docstring_generator.py", "generate_docstring", "{body_desc} + ' (x-www-form-urlencoded)'"): 12,
    ("visit/endpoint/generators/docstring_generator.py", "generate_docstring", "{body_desc} + ' (json)'"): 12,
    # ---- escaped value sites (the key contains the escaper call WITH its arguments: changing the escaper needs a new model)
    (R, "render_enum", "escaper: writer.write_line(f'{member_name} = {json.dumps(value, ensure_ascii=False)}')"): 1,
    (R, "render_dataclass", "escaper: writer.write_line(f'{json.dumps(api_field, ensure_ascii=False)}: \"{python_field}\",')"): 2,
    (R, "render_dataclass", "escaper: writer.write_line(f'\"{python_field}\": {json.dumps(api_field, ensure_ascii=False)},')"): 2,
    (R, "render_dataclass", '{json.dumps(api_field, ensure_ascii=False)}: "{python_field}",'): 2,
    (R, "render_dataclass", '"{python_field}": {json.dumps(api_field, ensure_ascii=False)},'): 2,
    (R, "render_alias", "escaper: property_name_literal = json.dumps(discriminator.property_name, ensure_ascii=False)"): 3,
    (R, "render_alias", "escaper: writer.write_line(f'        ({json.dumps(disc_value, ensure_ascii=False)}, \"{schema_name}\"),')"): 4,
    (R, "render_alias", '        ({json.dumps(disc_value, ensure_ascii=False)}, "{schema_name}"),'): 4,
    (R, "render_alias", "escaper: writer.write_line(f'            {json.dumps(disc_value, ensure_ascii=False)}: {schema_name},')"): 4,
    (R, "render_alias", "escaper: writer.write_line(f'__all__ = {exports!r}')"): 0,     # list of sanitised class names
    ("visit/model/dataclass_generator.py", "_get_field_default", "escaper: escaped_inner_content = json.dumps(ps.default, ensure_ascii=False)[1:-1]"): 8,
    (U, "_write_query_params", "escaper: original_param_name = python_string_literal(p['original_name'])"): 5,
    (U, "_write_header_params", "escaper: original_header_name = python_string_literal(p_info['original_name'])"): 6,
    ("visit/endpoint/generators/overload_generator.py", "_generate_single_overload", "escaper: content_type_literal = python_string_literal(content_type)"): 7,
    ("visit/endpoint/generators/response_handler_generator.py", "_write_content_type_conditional_handling", "escaper: content_type_lower = python_string_literal(content_type.lower())"): 7,
    (U, "generate_url_and_args", "escaper: writer.write_line(f'    **({{\"Content-Type\": {raw_content_type!r}}} if bytes_content is not None else {{}}),')"): 20,
    (U, "generate_url_and_args", '    **({"Content-Type": {raw_content_type!r}} if bytes_content is not None else {}),'): 20,
    ("core/writers/code_writer.py", "python_string_literal", "'\"' + {value.encode('unicode_escape').decode('ascii').replace('\"', '\\\\\"')} + '\"'"): 5,   # the escaper of sites 5-7 itself (Escape.ascii_lit)
    # ---- types/: forward-reference quoting of TYPE EXPRESSIONS built from sanitised class names (property C20), log text
    ("types/resolvers/schema_resolver.py", "_resolve_array", '"{item_type_str}"'): 0,
    ("types/resolvers/schema_resolver.py", "_resolve_any_of", '"{sub_type_str}"'): 0,
    ("types/resolvers/schema_resolver.py", "_resolve_one_of", '"{sub_type_str}"'): 0,
    ("types/resolvers/schema_resolver.py", "_resolve_string", "name='{schema.name}'"): 0,                 # part of a log message
    ("types/resolvers/schema_resolver.py", "resolve_schema", "Unknown schema type '{schema_type}' encountered."): 0,   # log message
    ("types/resolvers/schema_resolver.py", "resolve_schema", " Schema name: '{schema_details['name']}'."): 0,
    ("types/resolvers/schema_resolver.py", "resolve_schema", " Reference: '{schema_details['ref']}'."): 0,
    ("types/services/type_service.py", "_format_resolved_type", '"{python_type} | None"'): 0,               # whole annotation quoted (forward reference)
    ("types/services/type_service.py", "_format_resolved_type", '"{python_type}"'): 0,
    # ---- data-flow sites (a local assigned from spec text handed to a code sink without an f-string)
    ("visit/client_visitor.py", "tag_tuples", "flow: tag_candidates[key].append(tag)"): 0,                       # tag de-duplication table; the tag reaches code at site 13
    ("visit/client_visitor.py", "_generate_client_implementation", "flow: docstring_lines.append(escape_docstring_text("): 15,
    ("visit/client_visitor.py", "_generate_client_implementation", "flow: docstring_lines.append(desc_clean)"): 16,
    ("visit/docs_visitor.py", "visit", "flow: tag_writer.write_line(desc)"): 0,                               # markdown
    ("visit/endpoint/generators/docstring_generator.py", "_wrap_docstring", "flow: '\\n'.join(wrapped)"): 12,   # docstring helper (textwrap)
    ("visit/endpoint/generators/docstring_generator.py", "generate_docstring", "flow: args.append("): 12,      # DocumentationBlock arguments
    ("visit/endpoint/generators/docstring_generator.py", "generate_docstring", "flow: raises.append("): 12,
    ("visit/endpoint/generators/docstring_generator.py", "generate_docstring", "flow: writer.write_line(line)"): 12,   # lines of render_docstring
    ("visit/endpoint/generators/endpoint_method_generator.py", "_generate_implementation_method", "flow: writer.write_line(escape_docstring_text("): 14,
    ("visit/endpoint/processors/parameter_processor.py", "process_parameters", "flow: ordered_params.append(param_info)"): 0,   # carries the parameter default, never rendered
    ("visit/model/dataclass_generator.py", "generate", "flow: fields_data.append("): 10,                       # (name, type, default expr [8/17], description [10, 12]) for render_dataclass
    ("visit/model/enum_generator.py", "generate", "flow: values.append((unique_member_name, member_value))"): 1,
    ("core/writers/code_writer.py", "write_wrapped_line", "flow: self.writer.append_wrapped(text)"): 0,      # writer primitive: its callers are the sites (sinks of this scan)
    ("core/writers/code_writer.py", "write_wrapped_docstring_line", "flow: self.writer.append_wrapped(text)"): 0,
    ("core/writers/documentation_writer.py", "wrap", "flow: writer.append_wrapped(text)"): 12,
    ("core/writers/documentation_writer.py", "render_short_prefix_arg", "flow: writer.append_wrapped(desc)"): 12,
    ("core/writers/documentation_writer.py", "render_long_prefix_arg", "flow: writer.append_wrapped(desc)"): 12,
    ("core/writers/documentation_writer.py", "render_docstring", "flow: lines.extend(self.formatter.wrap(doc."): 12,
    ("core/writers/line_writer.py", "wrap_and_append", "flow: self.append(line)"): 0,                         # writer primitive
    ("core/writers/line_writer.py", "append_wrapped_at_column", "flow: "): 0,                                 # writer primitive
    (R, "render_enum", "flow: writer.write_line(line)"): 12,                                                 # lines of render_docstring
    (R, "render_dataclass", "flow: writer.write_line(line)"): 10,                                            # docstring lines (12) and field lines with the comment (10)
    ("emitters/endpoints_emitter.py", "emit", "flow: "): 0,                                                  # tags -> class / module names, file paths (C20, C10)
    ("helpers/endpoint_utils.py", "_infer_type_from_path", "flow: ''.join("): 0,                             # identifier derivation
    # ---- docstring sites escaped with documentation_writer.escape_docstring_text
    ("visit/client_visitor.py", "_generate_client_implementation", "escaper: docstring_lines.append(escape_docstring_text(f'{spec.title} (version {spec.version})'))"): 15,
    ("visit/client_visitor.py", "_generate_client_implementation", "escaper: writer.write_line(f"): 13,
    ("visit/client_visitor.py", "_generate_client_implementation", '"""Client for \'{escape_docstring_text(tag)}\' endpoints."""'): 13,
    ("visit/endpoint/endpoint_visitor.py", "_generate_endpoint_implementation", "escaper: writer.write_line(f"): 13,
    ("visit/endpoint/endpoint_visitor.py", "_generate_endpoint_implementation", '"""Client for {escape_docstring_text(tag)} endpoints. Uses HttpTransport'): 13,
    ("visit/endpoint/generators/endpoint_method_generator.py", "_generate_implementation_method", "escaper: writer.write_line(escape_docstring_text(f'{op.summary or op.operation_id}'))"): 14,
    ("visit/endpoint/generators/endpoint_method_generator.py", "_generate_implementation_method", "escaper: writer.write_line(escape_docstring_text(f'- {content_type}'))"): 14,
    ("visit/model/dataclass_generator.py", "_generate_untyped_wrapper_class", "escaper: description = escape_docstring_text(description)"): 11,
    ("visit/model/dataclass_generator.py", "_generate_typed_wrapper_class", "escaper: description = escape_docstring_text(description)"): 11,
    ("core/writers/documentation_writer.py", "render_docstring", "escaper: lines[1:] = [escape_docstring_text(line) for line in lines[1:]]"): 12,
    (U, "generate_url_and_args", '{param_var_name} = quote(serialize_simple(DataclassSerializer.serialize({param_var_name})), safe="")'): 0,   # sanitised identifier only
}
# every construction of a DocumentationBlock is an instance of site 12; the functions allowed to build one:
DOCBLOCK_FUNCS = {
    (R, "render_enum"), (R, "render_dataclass"), ("visit/client_visitor.py", "_generate_client_implementation"),
    ("visit/endpoint/generators/docstring_generator.py", "generate_docstring"),
}


def _tmpl(node: ast.AST) -> str:
    if isinstance(node, ast.JoinedStr):
        out = []
        for v in node.values:
            if isinstance(v, ast.Constant):
                out.append(str(v.value).replace("{", "{{").replace("}", "}}") if False else str(v.value))
            else:
                out.append("{" + ast.unparse(v.value) + ("!r" if v.conversion == 114 else "!s" if v.conversion == 115 else "") + "}")
        return "".join(out)
    if isinstance(node, ast.BinOp):
        return _tmpl_op(node.left) + " + " + _tmpl_op(node.right)
    return ast.unparse(node)


def _tmpl_op(n: ast.AST) -> str:
    if isinstance(n, ast.Constant) and isinstance(n.value, str):
        return repr(n.value)
    if isinstance(n, ast.BinOp) and isinstance(n.op, ast.Add):
        return _tmpl_op(n.left) + " + " + _tmpl_op(n.right)
    if isinstance(n, ast.JoinedStr):
        return _tmpl(n)
    return "{" + ast.unparse(n) + "}"


def _mentions_text(expr: ast.AST) -> bool:
    for n in ast.walk(expr):
        name = n.attr if isinstance(n, ast.Attribute) else n.id if isinstance(n, ast.Name) else None
        if name and any(w in name.lower() for w in TEXT_WORDS):
            return True
    return False


def _consts(node: ast.JoinedStr) -> str:
    return "".join(str(v.value) for v in node.values if isinstance(v, ast.Constant))


def scan(src_root: Path) -> tuple[list[tuple[str, int, str, str]], list[tuple[str, int, str]]]:
    """-> (candidates [(file, line, function, template)], docblock constructions [(file, line, function)])"""
    cands: list[tuple[str, int, str, str]] = []
    blocks: list[tuple[str, int, str]] = []
    files: list[Path] = []
    for d in DIRS:
        if (src_root / d).is_dir():
            files += sorted((src_root / d).rglob("*.py"))
    for p in files:
        rel = str(p.relative_to(src_root))
        try:
            mod = ast.parse(p.read_text())
        except (OSError, SyntaxError) as e:
            raise TranslatorError(f"C15 inventory: cannot parse {p}: {e}")
        par: dict[ast.AST, ast.AST] = {}
        for a in ast.walk(mod):
            for c in ast.iter_child_nodes(a):
                par[c] = a

        def func_of(n: ast.AST) -> str:
            while n in par:
                n = par[n]
                if isinstance(n, (ast.FunctionDef, ast.AsyncFunctionDef)):
                    return n.name
            return "<module>"

        def excluded(n: ast.AST) -> bool:
            """inside a logging call, a raise / exception constructor, an assert, or a docstring of the generator itself"""
            q = n
            while q in par:
                q = par[q]
                if isinstance(q, (ast.Raise, ast.Assert)):
                    return True
                if isinstance(q, ast.Call):
                    f = q.func
                    if isinstance(f, ast.Attribute) and f.attr in LOG_FUNCS and isinstance(f.value, ast.Name) and \
                            f.value.id in ("logger", "logging", "log", "warnings"):
                        return True
                    nm = f.attr if isinstance(f, ast.Attribute) else f.id if isinstance(f, ast.Name) else ""
                    if nm.endswith(("Error", "Exception", "Warning")) or nm in ("warn", "print"):
                        return True
                if isinstance(q, (ast.FunctionDef, ast.AsyncFunctionDef, ast.ClassDef)):
                    break
            return False

        # docstring-template regions: pairs of write_line('"""') calls inside one function
        regions: dict[str, list[tuple[int, int]]] = {}
        for fn in ast.walk(mod):
            if isinstance(fn, (ast.FunctionDef, ast.AsyncFunctionDef)):
                marks = sorted(c.lineno for c in ast.walk(fn) if isinstance(c, ast.Call) and isinstance(c.func, ast.Attribute)
                               and c.func.attr == "write_line" and len(c.args) == 1 and isinstance(c.args[0], ast.Constant)
                               and c.args[0].value == '"""')
                regions[fn.name] = [(marks[i], marks[i + 1]) for i in range(0, len(marks) - 1, 2)]

        # ---- simple intra-function data flow: a local that was assigned from spec text (an attribute such as
        # .description/.summary/.title/.default/.enum/.example, a parameter named like that, a textwrap result, or another
        # tainted local) and is then handed to a code sink (write_line / write_block / append / extend / join / write_wrapped*)
        # without being interpolated in an f-string (those are covered by the rules below) is a flow site.
        for fn in ast.walk(mod):
            if not isinstance(fn, (ast.FunctionDef, ast.AsyncFunctionDef)):
                continue
            tainted: set[str] = {a.arg for a in fn.args.args + fn.args.kwonlyargs if a.arg.lower() in FLOW_PARAMS}

            def is_text(e: ast.AST) -> bool:
                for n in ast.walk(e):
                    if isinstance(n, ast.Attribute) and n.attr in FLOW_ATTRS:
                        return True
                    if isinstance(n, ast.Name) and n.id in tainted:
                        return True
                    if isinstance(n, ast.Call) and isinstance(n.func, ast.Attribute) and isinstance(n.func.value, ast.Name) \
                            and n.func.value.id == "textwrap":
                        return True
                return False
            for _ in range(4):   # fixpoint over the (few) assignments of one function
                for st in ast.walk(fn):
                    tg: list[ast.AST] = []
                    val = None
                    if isinstance(st, ast.Assign):
                        tg, val = st.targets, st.value
                    elif isinstance(st, (ast.AnnAssign, ast.AugAssign)) and st.value is not None:
                        tg, val = [st.target], st.value
                    elif isinstance(st, ast.For):
                        tg, val = [st.target], st.iter
                    if val is not None and is_text(val):
                        for t_ in tg:
                            for n in ast.walk(t_):
                                if isinstance(n, ast.Name):
                                    tainted.add(n.id)
            for call in ast.walk(fn):
                if not (isinstance(call, ast.Call) and isinstance(call.func, ast.Attribute) and call.func.attr in FLOW_SINKS):
                    continue
                if excluded(call) or func_of(call) != fn.name:
                    continue
                for a in call.args:
                    if isinstance(a, ast.JoinedStr):
                        continue            # f-string argument: handled by the f-string rules (quote / # / docstring region / text words)
                    if is_text(a):
                        cands.append((rel, call.lineno, fn.name, "flow: " + ast.unparse(call)[:110]))
                        break

        # callers of the range-aware raise helper must pass a generator constant as the message (it is put between quotes)
        for node in ast.walk(mod):
            if isinstance(node, ast.Call) and isinstance(node.func, ast.Attribute) and node.func.attr == "_write_range_aware_raise":
                msg = node.args[2] if len(node.args) >= 3 else next((k.value for k in node.keywords if k.arg == "message"), None)
                if not (isinstance(msg, ast.Constant) and isinstance(msg.value, str)
                        and all(ch.isalnum() or ch in " .,-_" for ch in msg.value)):
                    raise TranslatorError(f"C15 site inventory: {rel}:{node.lineno}: _write_range_aware_raise is called with a message "
                                          "that is not a plain string constant (it is interpolated between quotes)")

        # ANY use of a schema's `.default` outside a condition is a candidate: the value may be rendered into code
        for node in ast.walk(mod):
            if isinstance(node, ast.Attribute) and node.attr == "default" and isinstance(node.ctx, ast.Load):
                if excluded(node):
                    continue
                q: ast.AST = node
                in_test = False
                while q in par and not isinstance(par[q], ast.stmt):
                    pq = par[q]
                    if isinstance(pq, ast.IfExp) and pq.test is q:
                        in_test = True
                    if isinstance(pq, ast.Call) and isinstance(pq.func, ast.Name) and pq.func.id in ("isinstance", "type", "len"):
                        in_test = True
                    if isinstance(pq, ast.Compare):
                        in_test = True
                    q = pq
                st = par.get(q)
                if isinstance(st, (ast.If, ast.While)) and st.test is q:
                    in_test = True
                if in_test:
                    continue
                whole = st if isinstance(st, (ast.Assign, ast.AnnAssign, ast.AugAssign, ast.Return, ast.Expr)) else q
                cands.append((rel, node.lineno, func_of(node), "default-use: " + ast.unparse(whole)[:90]))

        # calls of an escaper (json.dumps, python_string_literal, repr) and !r conversions render a VALUE into code:
        # each is a site (with the escaper as its model), keyed by the enclosing simple statement
        for node in ast.walk(mod):
            esc = None
            if isinstance(node, ast.Call):
                f = node.func
                nm = f.attr if isinstance(f, ast.Attribute) else f.id if isinstance(f, ast.Name) else ""
                if (nm == "dumps" and isinstance(f, ast.Attribute) and isinstance(f.value, ast.Name) and f.value.id == "json") \
                        or nm in ("python_string_literal", "repr", "escape_docstring_text"):
                    esc = node
            if isinstance(node, ast.FormattedValue) and node.conversion == 114:
                esc = node
            if esc is None or excluded(esc):
                continue
            q2: ast.AST = esc
            while q2 in par and not isinstance(par[q2], ast.stmt):
                q2 = par[q2]
            st2 = par.get(q2)
            whole2 = st2 if isinstance(st2, (ast.Assign, ast.AnnAssign, ast.AugAssign, ast.Return, ast.Expr)) else q2
            cands.append((rel, esc.lineno, func_of(esc), "escaper: " + ast.unparse(whole2)[:110]))

        seen_nodes: set[int] = set()
        for node in ast.walk(mod):
            if isinstance(node, ast.Call):
                f = node.func
                nm = f.attr if isinstance(f, ast.Attribute) else f.id if isinstance(f, ast.Name) else ""
                if nm == "DocumentationBlock" and rel != "core/writers/documentation_writer.py":
                    blocks.append((rel, node.lineno, func_of(node)))
                if nm == "format" and isinstance(f, ast.Attribute) and isinstance(f.value, ast.Constant) and isinstance(f.value.value, str) \
                        and any(ch in f.value.value for ch in "\"'#") and not excluded(node):
                    cands.append((rel, node.lineno, func_of(node), repr(f.value.value) + ".format"))
            if isinstance(node, ast.JoinedStr) and any(isinstance(v, ast.FormattedValue) for v in node.values):
                if id(node) in seen_nodes or excluded(node):
                    continue
                # nested f-string inside a format spec / another f-string's expression is reported through its parent
                fn = func_of(node)
                consts = _consts(node)
                in_doc = any(a < node.lineno < b for a, b in regions.get(fn, []))
                text = any(_mentions_text(v.value) for v in node.values if isinstance(v, ast.FormattedValue))
                if any(ch in consts for ch in "\"'#") or in_doc or text:
                    cands.append((rel, node.lineno, fn, _tmpl(node)))
            if isinstance(node, ast.BinOp) and isinstance(node.op, (ast.Add, ast.Mod)) and not isinstance(par.get(node), ast.BinOp):
                if excluded(node):
                    continue
                leaves: list[ast.AST] = []

                def flat(n: ast.AST) -> None:
                    if isinstance(n, ast.BinOp) and isinstance(n.op, (ast.Add, ast.Mod)):
                        flat(n.left)
                        flat(n.right)
                    else:
                        leaves.append(n)
                flat(node)
                strs = [l.value for l in leaves if isinstance(l, ast.Constant) and isinstance(l.value, str)]
                dyn = [l for l in leaves if not (isinstance(l, ast.Constant))]
                if strs and dyn and (any(ch in s for s in strs for ch in "\"'#") or any(_mentions_text(l) for l in dyn)):
                    if all(isinstance(l, (ast.Constant, ast.JoinedStr)) for l in leaves):
                        continue   # implicit concatenation of f-string pieces: each piece is reported on its own
                    cands.append((rel, node.lineno, func_of(node), _tmpl_op(node)))
    return cands, blocks


def render() -> str:
    cands, blocks = scan(tables.SRC)
    rows: list[tuple[int, str]] = []
    unknown = []
    used = set()
    for rel, line, fn, tmpl in cands:
        hit = None
        for (kf, kfn, kt), n in KNOWN.items():
            if kf == rel and kfn == fn and tmpl.startswith(kt):
                if hit is None or len(kt) > len(hit[0][2]):
                    hit = ((kf, kfn, kt), n)
        if hit is None:
            unknown.append(f"{rel}:{line} in {fn}: {tmpl[:100]!r}")
        else:
            used.add(hit[0])
            rows.append((hit[1], f"{rel}:{line}"))
    for rel, line, fn in blocks:
        if (rel, fn) not in DOCBLOCK_FUNCS:
            unknown.append(f"{rel}:{line} in {fn}: new DocumentationBlock(...) construction")
        else:
            rows.append((12, f"{rel}:{line}"))
    if unknown:
        raise TranslatorError("C15 site inventory: text-interpolation site(s) without a model (classify in harness/tables_C15.py "
                              "and model in coq/Model/Escape.v): " + "; ".join(unknown[:6]))
    missing = [k for k, n in KNOWN.items() if n > 0 and k not in used]
    if missing:
        raise TranslatorError(f"C15 site inventory: modelled site(s) no longer found in the source (model is stale): {missing[:4]}")
    for n in MODELLED:
        if n not in {r[0] for r in rows} and n != 16:
            raise TranslatorError(f"C15 site inventory: no source location found for modelled site {n} {MODELLED[n]}")
    rows.sort()
    lines = ["(* GENERATED by harness/tables_C15.py from the generator source — do not edit *)",
             "From Coq Require Import List NArith.", "Import ListNotations.", "Open Scope N_scope.", "",
             "(* (site number, source location as code points of file:line); 0 = value is not free spec text *)",
             "Definition site_inventory : list (N * list N) := ["]
    lines.append(";\n".join(f"  ({n}, {tables.cstr(loc)})  (* {loc} *)" if False else f"  ({n}, {tables.cstr(loc)})" for n, loc in rows))
    lines.append("].")
    lines.append("Definition modelled_sites : list N := [" + "; ".join(str(n) for n in sorted(MODELLED)) + "].")
    lines.append("(* locations, readable: " + ", ".join(f"{n}@{loc}" for n, loc in rows if n > 0).replace("*)", "* )").replace('"', "'") + " *)")
    return "\n".join(lines) + "\n"


if __name__ == "__main__":
    c, b = scan(tables.SRC)
    for x in c:
        print(x)
    print(len(c), "candidates;", len(b), "DocumentationBlock constructions", b)
    print(render()[-1500:])
