"""Developer tool: prints the markdown tables of DESIGN.md §9 (what was built) from the tree itself."""
import json, re, glob
from pathlib import Path
V = Path(__file__).resolve().parent.parent

print("### 9.1 Theorems per property (from coq/Properties/*.v; every one prints `Closed under the global context`)\n")
print("| property | obligations | theorem names |")
print("|---|---|---|")
for f in sorted((V / "coq/Properties").glob("C*.v")):
    names = re.findall(r"^\s*(?:Theorem|Lemma|Example|Corollary)\s+(\w+)", f.read_text(), re.M)
    print(f"| {f.stem} | {len(names)} | {', '.join('`'+n+'`' for n in names)} |")

print("\n### 9.2 Known findings (open) and repaired defects, per property (known_findings/*.json)\n")
print("| property | id | status | what |")
print("|---|---|---|---|")
for f in sorted((V / "known_findings").glob("C*.json")):
    k = json.loads(f.read_text())
    for x in k.get("findings", []):
        print(f"| {f.stem} | {x['id']} | {x.get('status','open')} | {x['what'][:220].replace('|','/')} |")
    for x in k.get("fixed", []):
        print(f"| {f.stem} | | fixed | {x[:260].replace('|','/')} |")

print("\n### 9.3 Independently seeded breaking changes and which check catches them (seeded/*/)\n")
print("| seed | property | what the change does | needs to manifest | result of `./check` |")
print("|---|---|---|---|---|")
for d in sorted(p for p in (V / "seeded").iterdir() if not p.name.startswith("_")):
    if not (d / "meta.json").exists():
        continue
    m = json.loads((d / "meta.json").read_text())
    r = json.loads((d / "result.json").read_text()) if (d / "result.json").exists() else {}
    res = ("caught, failing input" if r.get("caught") and r.get("with_failing_input") else
           "caught, no-failing-input-found" if r.get("caught") else "MISSED" if r else "not run")
    print(f"| {d.name} | {m['property']} | {str(m.get('summary',''))[:200].replace('|','/')} | "
          f"{str(m.get('needs_to_manifest',''))[:200].replace('|','/')} | {res} |")
