"""C03 — generated models round-trip every schema-conforming JSON value and wire key.

End to end: spec dict -> real generator (pipeline.generate) -> package imported in a fresh interpreter without the
generator -> the package's own core.cattrs_converter on documents derived from the *spec* (not from the IR) ->
compared with Model/ModelGen.gen_class + Model/Converter.run_ops; extracted dataclass fields / Meta dicts compared
with gen_class.

case = {"schemas": [{"id", "name", "props": [{"name", "required", "nullable", "schema"}]} | {"id", "name", "map": s}],
        "docs": [[schema id, doc]]}      ("map": a named schema with only additionalProperties -> wrapper class)
property schema: ["str", fmt|null] "int" "num" "bool" ["enum",[..]] ["arr", s] ["ref", id] ["self", id] ["map", s]
documents / values: tagged as in prop_C16.
"""
from __future__ import annotations

import base64
import json
from concurrent.futures import ThreadPoolExecutor
from typing import Any

import pipeline
from framework import Check, clist, copt, cpair, cstr, load_corpus
from prop_C16 import (NotModelled, c_cls, c_json, c_outcome, c_ty, c_val, has_null_key, is_json, tables_for, untag)

TRUSTED = [
    "Coq 8.16.1 kernel + vm_compute (finite-table theorems, witnesses, correspondence evaluation)",
    "hand-written Gallina models coq/Model/ModelGen.v (field naming, Meta maps, format table use) and Model/Converter.v, "
    "tied to the generator and to the generated package's own converter by this run's cases",
    "translator harness/tables_C03.py (format_mapping literal of _resolve_string, fail-closed)",
    "NameSanitizer.sanitize_method_name enters the model as a finite table (C20's subject); C03_maps_bijective holds for ANY sanitizer",
    "base64 / ISO codecs, int()/float()/str() as finite tables from CPython; numbers: integral values only",
]

FORMATS = [None, None, "date-time", "date", "uuid", "time", "byte", "binary", "email", "uri", "hostname", "ipv4", "ipv6",
           "password", "date-time", "date"]
PROPS = ["id", "name", "userId", "user_id", "user-id", "UserId", "class", "type", "from", "import", "createdAt", "created_at",
         "X-Rate-Limit", "x", "X", "fooBar", "foo_bar", "FooBar", "foo-bar", "is_ok", "isOK", "HTTPCode", "httpCode", "tags",
         "items", "data", "value", "_private", "a1", "1a", "self", "None", "def", "kebab-case-name", "snake_case_name",
         "camelCaseName", "PascalCaseName", "UPPER", "dotted.name", "with space", "$ref", "@id"]
STRS = ["", "a", "abc", "5", "Zed", "x y", "é", "2020-01-02", "QUJD"]
DTS = ["2020-01-02T03:04:05", "2020-01-02T03:04:05+00:00", "2021-12-31T23:59:59.123456+02:00"]
DTS_Z = ["2020-01-02T03:04:05Z", "1999-01-01T00:00:00.5Z"]
DATES = ["2020-01-02", "1999-12-31"]
UUIDS = ["12345678-1234-5678-1234-567812345678", "abcdef01-2345-6789-abcd-ef0123456789"]
TIMES = ["10:20:30", "23:59:59.123456"]
B64 = [base64.b64encode(b).decode() for b in (b"", b"A", b"hello", b"\xfb\xff", b"\x00\x01\x02")]


# ================================================================== generators
def gen_pschema(rng, sid: int, nsch: int, allow_arr=True) -> Any:
    r = rng.random()
    if r < 0.45:
        return ["str", rng.choice(FORMATS)]
    if r < 0.55:
        return "int"
    if r < 0.62:
        return "num"
    if r < 0.69:
        return "bool"
    if r < 0.76:
        return ["enum", rng.sample(["a", "b", "k-2", "UPPER", "x y", "1"], rng.randint(1, 3))]
    if r < 0.82 and allow_arr and rng.random() < 0.5:
        v = rng.choice(["int", ["str", None], ["str", "date-time"], "bool"])
        if sid + 1 < nsch and rng.random() < 0.5:
            v = ["ref", rng.randrange(sid + 1, nsch)]
        return ["map", v]
    if r < 0.88 and allow_arr:
        if rng.random() < 0.12:
            return ["arr", ["self", sid]]
        return ["arr", gen_pschema(rng, sid, nsch, allow_arr=False)]
    if sid + 1 < nsch:
        return ["ref", rng.randrange(sid + 1, nsch)]
    return "int"


COLLIDE = [["address-line", "address_line", "addressLine", "address-line-2", "address_line_2", "address-line-3", "address_line_3"],
           ["userId", "user_id", "user-id", "UserId", "user_id_2", "user-id-2", "userId2", "user_id_3"],
           ["x", "X", "x_2", "x-2", "X_2", "x_3"]]
RENAMED = ["slotCode", "class", "max-load", "lastChecked", "type", "from", "isOK", "kebab-case-name", "PascalCaseName", "id"]


def gen_map_case(rng) -> dict:
    """a model with renamed fields that is reachable ONLY as the value of an additionalProperties map (inline map
    property and/or a named map schema); documents only for the roots, so nothing else registers its hooks first"""
    value = {"id": 1, "name": "M1", "props": [
        {"name": nm, "required": rng.random() < 0.4, "nullable": False,
         "schema": rng.choice(["int", "num", "bool", ["str", None], ["str", "date-time"], ["str", "date"]])}
        for nm in rng.sample(RENAMED, rng.randint(2, 5))]}
    named = rng.random() < 0.5
    root_props = [{"name": rng.choice(["warehouseName", "name", "x"]), "required": True, "nullable": False, "schema": ["str", None]},
                  {"name": rng.choice(["slots", "by-code", "index"]), "required": rng.random() < 0.5, "nullable": False,
                   "schema": ["ref", 2] if named else ["map", ["ref", 1]]}]
    schemas = [{"id": 0, "name": "M0", "props": root_props}, value]
    roots = [0]
    if named:
        schemas.append({"id": 2, "name": "M2", "map": ["ref", 1]})
        roots.append(2)
    docs = []
    for _ in range(rng.randint(2, 4)):
        sid = rng.choice(roots)
        docs.append([sid, gen_doc_schema(rng, schemas, sid, 3, z_ok=False)])
    return {"schemas": schemas, "docs": docs}


def gen_union_case(rng) -> dict:
    """union-typed properties (oracle only — variant choice is C14's model): an un-discriminated oneOf/anyOf of object
    schemas whose required sets form a chain (V1 > V2 > ..: the declared order decodes every conforming document
    as its own variant on the unchanged tree), as a property and as array items, optionally a discriminated oneOf;
    a SEQUENCE of documents through one converter, later variants first"""
    k = rng.randint(2, 3)
    base = rng.choice(["petName", "name", "item-id"])
    extras = rng.sample(["livesLeft", "indoor-only", "adoptedAt", "class", "max_load"], k - 1)
    opts = rng.sample(["furColor", "goodBoy", "bark-volume", "type", "from", "tagList"], k)
    scal = lambda: rng.choice(["int", "bool", ["str", None], ["str", "date"]])  # noqa: E731
    schemas = [None]
    for i in range(k):                       # variant i requires base + extras[: k-1-i]
        props = [{"name": base, "required": True, "nullable": False, "schema": ["str", None]}]
        props += [{"name": e, "required": True, "nullable": False, "schema": scal()} for e in extras[: k - 1 - i]]
        props += [{"name": opts[i], "required": False, "nullable": False, "schema": scal()}]
        schemas.append({"id": i + 1, "name": f"M{i + 1}", "props": props})
    vids = list(range(1, k + 1))
    root = [{"name": "owner", "required": True, "nullable": False, "schema": ["str", None]},
            {"name": "pet", "required": False, "nullable": False, "schema": ["union", rng.choice(["oneOf", "anyOf"]), vids, None]},
            {"name": "all-pets", "required": False, "nullable": False,
             "schema": ["arr", ["union", rng.choice(["oneOf", "anyOf"]), vids, None]]}]
    if rng.random() < 0.7:
        a, b = k + 1, k + 2
        if rng.random() < 0.6:
            # the variants type the discriminator as an enum; values that differ only in case or '-'/' ' vs '_'
            # (they derive the same enum MEMBER NAME) are all legitimate, distinct discriminator values
            groups = rng.sample([["user-created", "user_created", "User-Created"], ["system", "System", "SYSTEM"],
                                 ["a b", "a_b", "a-b"], ["x", "X"]], 2)
            vals = {a: [], b: []}
            for g in groups:
                for n_, v in enumerate(rng.sample(g, rng.randint(2, len(g)))):
                    vals[a if n_ % 2 == 0 else b].append(v)
            kind = {i: ["enum", vals[i]] for i in (a, b)}
            mapping = [[v, i] for i in (a, b) for v in vals[i]]
        else:
            kind = {a: ["str", None], b: ["str", None]}
            mapping = [["alpha", a], ["beta", b]]
        for i, nm in ((a, "aVal"), (b, "b-val")):
            schemas.append({"id": i, "name": f"M{i}", "props": [
                {"name": "kind", "required": True, "nullable": False, "schema": kind[i]},
                {"name": nm, "required": False, "nullable": False, "schema": "int"}]})
        root.append({"name": "tagged", "required": False, "nullable": False,
                     "schema": ["union", "oneOf", [a, b], {"prop": "kind", "mapping": mapping}]})
    # OpenAPI 3.1 nullable spelling on inline properties, required and optional, documents with explicit null
    for nm in rng.sample(["n-str", "nDate", "n_ref", "nInt"], rng.randint(1, 3)):
        t = {"n-str": ["str", None], "nDate": ["str", "date-time"], "n_ref": ["ref", 1], "nInt": "int"}[nm]
        root.append({"name": nm, "required": rng.random() < 0.6, "nullable": False,
                     "schema": ["null31", rng.choice(["anyOf", "oneOf"]), t]})
    n_fixed = 3 + (1 if any(p["name"] == "tagged" for p in root) else 0)
    schemas[0] = {"id": 0, "name": "M0", "props": root}
    docs = []
    n = rng.randint(4, 7)
    for j in range(n):
        prefer = vids[-1] if j < n // 2 else vids[0]          # later variants first, then the earlier ones
        kvs = [["owner", ["s", rng.choice(STRS)]]]
        pick = lambda: prefer if rng.random() < 0.7 else rng.choice(vids)  # noqa: E731
        if rng.random() < 0.8:
            kvs.append(["pet", gen_doc_obj(rng, schemas, pick(), 2, False)])
        if rng.random() < 0.6:
            kvs.append(["all-pets", ["l", [gen_doc_obj(rng, schemas, pick(), 2, False) for _ in range(rng.randint(0, 3))]]])
        for p in root[3:]:
            if p["name"] == "tagged":
                if rng.random() < 0.6:
                    kvs.append(["tagged", gen_doc_val(rng, schemas, p["schema"], 2, False)])
            elif p["required"] or rng.random() < 0.6:
                kvs.append([p["name"], gen_doc_val(rng, schemas, p["schema"], 2, False)])
        rng.shuffle(kvs)
        docs.append([0, ["m", kvs]])
    return {"schemas": schemas, "docs": docs, "oracle_only": True}


def gen_case(rng, focus: str | None = None) -> dict:
    if focus == "maponly":
        return gen_map_case(rng)
    if focus == "union":
        return gen_union_case(rng)
    nsch = rng.randint(1, 3)
    schemas = []
    for sid in range(nsch):
        names = rng.sample(PROPS, rng.randint(1, 6))
        if rng.random() < 0.35:
            # property names that sanitise to the same identifier, next to names that ARE that identifier + _2 / _3
            grp = rng.choice(COLLIDE)
            names = rng.sample(grp, rng.randint(3, min(5, len(grp)))) + [x for x in names[:2] if x not in grp]
        props = []
        for nm in names:
            ps = gen_pschema(rng, sid, nsch)
            if focus == "nofindings":
                while uses(ps, ("uuid", "time")) or uses_self(ps):
                    ps = gen_pschema(rng, sid, nsch)
            props.append({"name": nm, "required": rng.random() < 0.4, "nullable": rng.random() < 0.15, "schema": ps})
        # Inline enums are promoted to a class named <Schema><SanitizedProp>; two enum properties whose names sanitise
        # to the same class name silently share the FIRST one's Enum class (conforming values of the other are then
        # rejected — a defect of schema promotion, reported as F03d / C02 territory, not modelled here): keep one.
        seen_enum_classes: set[str] = set()
        for p in props:
            promoted = isinstance(p["schema"], list) and (p["schema"][0] in ("enum", "map")
                                                          or (p["schema"][0] == "ref" and p["nullable"]))
            if promoted:          # inline enums, inline maps and nullable $refs are all promoted under that name
                cn = enum_class_name(p["name"])
                if cn in seen_enum_classes:
                    p["schema"], p["nullable"] = "int", False
                seen_enum_classes.add(cn)
        schemas.append({"id": sid, "name": f"M{sid}", "props": props})
    docs = []
    for _ in range(rng.randint(3, 6)):
        sid = rng.randrange(nsch)
        docs.append([sid, gen_doc_obj(rng, schemas, sid, 3, z_ok=(focus != "nofindings"))])
    return {"schemas": schemas, "docs": docs}


def gen_doc_schema(rng, schemas, sid, depth, z_ok) -> Any:
    s = schemas[sid]
    if "map" in s:
        return gen_doc_val(rng, schemas, ["map", s["map"]], depth, z_ok)
    return gen_doc_obj(rng, schemas, sid, depth, z_ok)


def enum_class_name(prop: str) -> str:
    from pyopenapi_gen.core.utils import NameSanitizer
    return NameSanitizer.sanitize_class_name(prop)


def uses(ps, fmts) -> bool:
    if isinstance(ps, list):
        if ps[0] == "str":
            return ps[1] in fmts
        if ps[0] in ("arr", "map"):
            return uses(ps[1], fmts)
    return False


def uses_self(ps) -> bool:
    return isinstance(ps, list) and (ps[0] == "self" or (ps[0] == "arr" and uses_self(ps[1])))


def gen_doc_val(rng, schemas, ps, depth, z_ok) -> Any:
    if ps == "int":
        return ["i", rng.randint(-5, 1000)]
    if ps == "num":
        return ["f", rng.randint(-5, 50)] if rng.random() < 0.7 else ["i", rng.randint(0, 9)]
    if ps == "bool":
        return ["b", rng.random() < 0.5]
    k = ps[0]
    if k == "str":
        f = ps[1]
        if f == "date-time":
            return ["s", rng.choice(DTS_Z if z_ok and rng.random() < 0.25 else DTS)]
        if f == "date":
            return ["s", rng.choice(DATES)]
        if f == "uuid":
            return ["s", rng.choice(UUIDS)]
        if f == "time":
            return ["s", rng.choice(TIMES)]
        if f in ("byte", "binary"):
            return ["s", rng.choice(B64)]
        return ["s", rng.choice(STRS)]
    if k == "enum":
        return ["s", rng.choice(ps[1])]
    if k == "arr":
        n = rng.randint(0, 2) if depth > 0 else 0
        return ["l", [gen_doc_val(rng, schemas, ps[1], depth - 1, z_ok) for _ in range(n)]]
    if k == "null31":
        return ["n"] if rng.random() < 0.5 else gen_doc_val(rng, schemas, ps[2], depth, z_ok)
    if k == "union":
        if ps[3]:
            val, sid = rng.choice(ps[3]["mapping"])
            d = gen_doc_obj(rng, schemas, sid, depth - 1, z_ok)
            return ["m", [[ps[3]["prop"], ["s", val]]] + [kv for kv in d[1] if kv[0] != ps[3]["prop"]]]
        return gen_doc_obj(rng, schemas, rng.choice(ps[2]), depth - 1, z_ok)
    if k == "map":
        ks = rng.sample(["k", "a-1", "slotA", "id", "x y", ""], rng.randint(0, 2) if depth > 0 else 0)
        return ["m", [[kk, gen_doc_val(rng, schemas, ps[1], depth - 1, z_ok)] for kk in ks]]
    return gen_doc_schema(rng, schemas, ps[1], depth - 1, z_ok)


def gen_doc_obj(rng, schemas, sid, depth, z_ok) -> Any:
    kvs = []
    for p in schemas[sid]["props"]:
        if not p["required"] and rng.random() < 0.4:
            continue
        if p["nullable"] and rng.random() < 0.4:
            kvs.append([p["name"], ["n"]])
            continue
        if not required_chain_ok(p, depth):
            if p["required"]:
                kvs.append([p["name"], ["l", []] if p["schema"][0] == "arr" else
                            (["m", []] if p["schema"][0] == "map" else gen_doc_val(rng, schemas, p["schema"], 0, z_ok))])
            continue
        kvs.append([p["name"], gen_doc_val(rng, schemas, p["schema"], depth, z_ok)])
    rng.shuffle(kvs)
    return ["m", kvs]


def required_chain_ok(p, depth) -> bool:
    return depth > 0 or not (isinstance(p["schema"], list) and p["schema"][0] in ("ref", "self", "map"))


def to_openapi(case: dict) -> dict:
    def conv(ps, own):
        if ps == "int":
            return {"type": "integer"}
        if ps == "num":
            return {"type": "number"}
        if ps == "bool":
            return {"type": "boolean"}
        k = ps[0]
        if k == "str":
            return {"type": "string", **({"format": ps[1]} if ps[1] else {})}
        if k == "enum":
            return {"type": "string", "enum": list(ps[1])}
        if k == "arr":
            return {"type": "array", "items": conv(ps[1], own)}
        if k == "map":
            return {"type": "object", "additionalProperties": conv(ps[1], own)}
        if k == "null31":     # OpenAPI 3.1 nullable spelling: anyOf/oneOf: [T, {type: "null"}]
            return {ps[1]: [conv(ps[2], own), {"type": "null"}]}
        if k == "union":      # ["union", "oneOf"|"anyOf", [ids], discriminator | None]
            d = {ps[1]: [{"$ref": f"#/components/schemas/M{i}"} for i in ps[2]]}
            if ps[3]:
                d["discriminator"] = {"propertyName": ps[3]["prop"],
                                      "mapping": {v: f"#/components/schemas/M{i}" for v, i in ps[3]["mapping"]}}
            return d
        return {"$ref": f"#/components/schemas/M{ps[1]}"}
    schemas, paths = {}, {}
    for s in case["schemas"]:
        paths[f"/m{s['id']}"] = {"get": {"operationId": f"getM{s['id']}", "responses": {"200": {
            "description": "ok", "content": {"application/json": {"schema": {"$ref": f"#/components/schemas/{s['name']}"}}}}}}}
        if "map" in s:
            schemas[s["name"]] = {"type": "object", "additionalProperties": conv(s["map"], s["id"])}
            continue
        props = {}
        for p in s["props"]:
            d = conv(p["schema"], s["id"])
            if p["nullable"]:
                d = {"allOf": [d], "nullable": True} if "$ref" in d else {**d, "nullable": True}
            props[p["name"]] = d
        schemas[s["name"]] = {"type": "object", "properties": props,
                              "required": [p["name"] for p in s["props"] if p["required"]]}
        if not schemas[s["name"]]["required"]:
            del schemas[s["name"]]["required"]
        paths[f"/m{s['id']}"] = {"get": {"operationId": f"getM{s['id']}", "responses": {"200": {
            "description": "ok", "content": {"application/json": {"schema": {"$ref": f"#/components/schemas/{s['name']}"}}}}}}}
    return pipeline.base_spec(paths, schemas)


# ================================================================== driver (runs inside the generated package's interpreter)
DRIVER = r'''
import dataclasses, enum, types, typing, importlib
from datetime import date, datetime, time
from uuid import UUID

def main(arg):
    M = importlib.import_module(arg["package"] + ".models")
    cc = importlib.import_module(arg["package"] + ".core.cattrs_converter")
    names = arg["names"]                       # schema id -> class name
    classes = {int(i): getattr(M, n) for i, n in names.items()}
    maps = set(arg["map_ids"])

    def is_wrapper(t):
        return isinstance(t, type) and dataclasses.is_dataclass(t) and [f.name for f in dataclasses.fields(t)] == ["_data"]
    rev = {c: i for i, c in classes.items() if i not in maps}
    byname = {c.__name__: i for i, c in classes.items()}

    def ty(t):
        if t is str: return "str"
        if t is int: return "int"
        if t is float: return "float"
        if t is bool: return "bool"
        if t is bytes: return "bytes"
        if t is datetime: return "datetime"
        if t is date: return "date"
        if t is time: return "time"
        if t is UUID: return "uuid"
        if t is typing.Any: return "any"
        if isinstance(t, typing.ForwardRef):
            return ["fwd", byname[t.__forward_arg__]] if t.__forward_arg__ in byname else ["unknown", repr(t)]
        if isinstance(t, str):
            return ["unknown", "string annotation " + t]
        o = typing.get_origin(t)
        a = typing.get_args(t)
        if o is typing.Union or isinstance(t, types.UnionType):
            rest = [x for x in a if x is not type(None)]
            if len(rest) == 1 and len(a) == 2:
                return ["opt", ty(rest[0])]
            return ["unknown", repr(t)]
        if o is list and len(a) == 1: return ["list", ty(a[0])]
        if o is dict and len(a) == 2 and a[0] is str: return ["dict", ty(a[1])]
        if isinstance(t, type) and t in rev: return ["data", rev[t]]
        if is_wrapper(t):
            dt = dataclasses.fields(t)[0].type
            da = typing.get_args(dt)
            if typing.get_origin(dt) is dict and len(da) == 2 and da[0] is str and da[1] is not typing.Any:
                return ["wrap", ty(da[1])]
            return ["unknown", "untyped wrapper " + repr(dt)]
        if isinstance(t, type) and issubclass(t, enum.Enum): return ["enum", [m.value for m in t]]
        return ["unknown", repr(t)]

    def canon(o):
        if o is None: return ["n"]
        if isinstance(o, enum.Enum): return ["s", o.value]
        if isinstance(o, bool): return ["b", o]
        if isinstance(o, int): return ["i", o]
        if isinstance(o, float):
            return ["f", int(o)] if o == o and o not in (float("inf"), float("-inf")) and o == int(o) else ["unknown", repr(o)]
        if isinstance(o, str): return ["s", o]
        if isinstance(o, (bytes, bytearray)): return ["y", list(o)]
        if isinstance(o, datetime): return ["dt", o.isoformat()]
        if isinstance(o, date): return ["d", o.isoformat()]
        if isinstance(o, UUID): return ["u", str(o)]
        if isinstance(o, time): return ["t", o.isoformat()]
        if isinstance(o, list): return ["l", [canon(x) for x in o]]
        if isinstance(o, dict): return ["m", [[k, canon(x)] for k, x in o.items()]]
        if is_wrapper(type(o)): return ["W", [[k, canon(x)] for k, x in o._data.items()]]
        if dataclasses.is_dataclass(o) and type(o) in rev:
            return ["D", rev[type(o)], [[f.name, canon(getattr(o, f.name))] for f in dataclasses.fields(o)]]
        return ["unknown", repr(o)[:80]]

    def untag(v):
        k = v[0]
        if k == "n": return None
        if k in ("b", "i", "s"): return v[1]
        if k == "f": return float(v[1])
        if k == "l": return [untag(x) for x in v[1]]
        return {a: untag(b) for a, b in v[1]}

    out_classes = []
    for i in sorted(classes):
        if i in maps or arg.get("oracle_only"):
            continue
        c = classes[i]
        fs = []
        try:
            hints = typing.get_type_hints(c)      # what the converter's registration walk resolves
        except Exception:
            hints = {}
        for f in dataclasses.fields(c):
            if f.default is not dataclasses.MISSING:
                d = ["n"] if f.default is None else ["unknown", repr(f.default)]
            elif f.default_factory is not dataclasses.MISSING:
                d = ["l", []] if f.default_factory is list else (["m", []] if f.default_factory is dict else ["unknown", "factory"])
            else:
                d = None
            fs.append({"name": f.name, "ty": ty(hints.get(f.name, f.type)), "default": d})
        meta = getattr(c, "Meta", None)
        load = getattr(meta, "key_transform_with_load", None)
        dump = getattr(meta, "key_transform_with_dump", None)
        out_classes.append({"id": i, "fields": fs,
                            "load": None if load is None else [[k, v] for k, v in load.items()],
                            "dump": None if dump is None else [[k, v] for k, v in dump.items()]})
    ops = []
    for sid, doc in arg["docs"]:
        try:
            inst = cc.structure_from_dict(untag(doc), classes[sid])
            ob = ["ok", canon(inst)]
        except ValueError as e:
            inst, ob = None, ["ValueError", str(e)[:300]]
        except BaseException as e:
            inst, ob = None, ["Other", type(e).__name__ + ": " + str(e)[:200]]
        ops.append({"op": "structure", "ty": ["data", sid] if arg.get("oracle_only") else ty(classes[sid]), "doc": doc, "obs": ob})
        if ob[0] == "ok":
            try:
                ob2 = ["ok", canon(cc.unstructure_to_dict(inst))]
            except BaseException as e:
                ob2 = ["Other", type(e).__name__ + ": " + str(e)[:200]]
            ops.append({"op": "unstructure", "val": ob[1], "obs": ob2})
    return {"classes": out_classes, "ops": ops}
'''


def has_unknown(x) -> bool:
    if isinstance(x, list):
        return (len(x) > 0 and x[0] == "unknown") or any(has_unknown(y) for y in x)
    if isinstance(x, dict):
        return any(has_unknown(y) for y in x.values())
    return False


def find_unknown(x) -> list:
    out = []
    if isinstance(x, list):
        if len(x) > 0 and x[0] == "unknown":
            return [x]
        for y in x:
            out += find_unknown(y)
    elif isinstance(x, dict):
        for y in x.values():
            out += find_unknown(y)
    return out[:3]


# ================================================================== oracle (the property's statement)
def num_eq_mod(a, b) -> bool:
    """JSON equality (numbers by value, key order irrelevant) where a key absent from the input may reappear as null
    or as an empty container"""
    if a[0] in ("i", "f") and b[0] in ("i", "f"):
        return a[1] == b[1]
    if a[0] != b[0]:
        return False
    if a[0] == "l":
        return len(a[1]) == len(b[1]) and all(num_eq_mod(x, y) for x, y in zip(a[1], b[1]))
    if a[0] == "m":
        da, db = dict(map(tuple, a[1])), dict(map(tuple, b[1]))
        if not set(da) <= set(db):
            return False
        for k, v in db.items():
            if k in da:
                if not num_eq_mod(da[k], v):
                    return False
            elif v not in (["n"], ["l", []], ["m", []]):
                return False
        return True
    return a == b


def oracle(case: dict, res: dict) -> list[str]:
    fails = []
    ops = res["ops"]
    i = 0
    while i < len(ops):
        o = ops[i]
        if o["op"] == "structure":
            if o["obs"][0] != "ok":
                fails.append(f"schema-conforming document rejected ({o['obs'][0]}): {o['obs'][1][:200]}")
            else:
                u = ops[i + 1]
                i += 1
                if u["obs"][0] != "ok":
                    fails.append(f"unstructuring the structured document failed: {u['obs'][1][:200]}")
                elif not is_json(u["obs"][1]):
                    fails.append("unstructured data is not JSON (a Python object leaked)")
                elif not num_eq_mod(o["doc"], u["obs"][1]):
                    fails.append(f"round trip changed the document: {json.dumps(untag(o['doc']))[:200]} -> "
                                 f"{json.dumps(untag(u['obs'][1]))[:200]}")
        i += 1
    return fails


# ================================================================== Coq printers
def c_ps(ps, maps=None) -> str:
    if ps == "int":
        return "PInt"
    if ps == "num":
        return "PNum"
    if ps == "bool":
        return "PBool"
    k = ps[0]
    if k == "str":
        return f"(PStr {copt(ps[1], cstr)})"
    if k == "enum":
        return f"(PEnum {clist(cstr(v) for v in ps[1])})"
    if k == "arr":
        return f"(PArr {c_ps(ps[1], maps)})"
    if k == "map":
        return f"(PMap {c_ps(ps[1], maps)})"
    if k == "ref" and ps[1] in (maps or {}):
        return f"(PMap {c_ps(maps[ps[1]], maps)})"        # $ref to a named map schema: the same wrapper shape
    return f"({'PRef' if k == 'ref' else 'PSelf'} {ps[1]})"


def c_schema(s: dict, maps=None) -> str:
    ps = clist(f"{{| p_name := {cstr(p['name'])}; p_required := {'true' if p['required'] else 'false'}; "
               f"p_nullable := {'true' if p['nullable'] else 'false'}; p_schema := {c_ps(p['schema'], maps)} |}}" for p in s["props"])
    return f"{{| s_id := {s['id']}; s_props := {ps} |}}"


def c_ty_ext(t) -> str:
    if isinstance(t, list) and t[0] == "enum":
        return f"(TEnum {clist(cstr(v) for v in t[1])})"
    if isinstance(t, list) and t[0] in ("list", "dict", "opt", "wrap"):
        return f"({ {'list': 'TList', 'dict': 'TDict', 'opt': 'TOpt', 'wrap': 'TWrap'}[t[0]] } {c_ty_ext(t[1])})"
    return c_ty(t)


def c_cls_ext(c: dict) -> str:
    fs = clist(f"{{| f_name := {cstr(f['name'])}; f_ty := {c_ty_ext(f['ty'])}; f_default := {copt(f['default'], c_val)} |}}"
               for f in c["fields"])
    mp = lambda m: clist(cpair(cstr(a), cstr(b)) for a, b in m)  # noqa: E731
    return (f"{{| c_id := {c['id']}; c_fields := {fs}; c_load := {copt(c['load'], mp)}; "
            f"c_dump := {copt(c['dump'], mp)} |}}")


def c_case(case: dict, res: dict, san: dict[str, str]) -> str:
    ops, obs = [], []
    for o in res["ops"]:
        if o["op"] == "unstructure":
            ops.append(f"(OpUnstructure {c_val(o['val'])})")
            ob = o["obs"] if o["obs"][0] != "ok" or is_json(o["obs"][1]) else ["Other", "non-JSON"]
            obs.append(f"(ObsJ {c_outcome(ob, c_json)})")
        else:
            ops.append(f"(OpStructure {c_ty_ext(o['ty'])} {c_json(o['doc'])})")
            obs.append(f"(ObsV {c_outcome(o['obs'], c_val)})")
    santab = clist(cpair(cstr(a), cstr(b)) for a, b in sorted(san.items()))
    maps = {s["id"]: s["map"] for s in case["schemas"] if "map" in s}
    return (f"(({tables_for(res['ops'])}, {santab}, {clist(c_schema(s, maps) for s in case['schemas'] if 'map' not in s)}, {clist(ops)}), "
            f"({clist(c_cls_ext(c) for c in res['classes'])}, {clist(obs)}))")


# ================================================================== running
def run_case(case: dict) -> dict:
    return finish_case(case, start_case(case))


def start_case(case: dict):
    """generation runs in the calling thread (the generator's stdout/log capture is process-global)"""
    return pipeline.generate(to_openapi(case))


def finish_case(case: dict, g) -> dict:
    from pyopenapi_gen.core.utils import NameSanitizer
    try:
        if not g.ok:
            return {"input": case, "skipped": f"generator failed: {g.error}"}
        r = pipeline.drive(g, DRIVER, {"package": g.package, "names": {str(s["id"]): s["name"] for s in case["schemas"]},
                                       "map_ids": [s["id"] for s in case["schemas"] if "map" in s], "docs": case["docs"],
                                       "oracle_only": bool(case.get("oracle_only"))})
    finally:
        g.cleanup()
    if not r["ok"]:
        return {"input": case, "skipped": f"package not importable / driver error: {r['error'][:300]}"}
    res = r["result"]
    if case.get("oracle_only"):
        if has_unknown(res):
            return {"input": case, "skipped": "driver could not canonicalise a value: " + json.dumps(find_unknown(res))[:300]}
        return {"input": case, "obs": res, "oracle_fail": oracle(case, res), "oracle_only": True}
    if has_unknown(res):
        return {"input": case, "skipped": "construct outside the modelled fragment: " + json.dumps(find_unknown(res))[:300]}
    san = {p["name"]: NameSanitizer.sanitize_method_name(p["name"]) for s in case["schemas"] for p in s.get("props", [])}
    try:
        coq = c_case(case, res, san)
    except NotModelled as e:
        return {"input": case, "skipped": str(e)}
    return {"input": case, "obs": res, "oracle_fail": oracle(case, res), "coq": coq}


def main(chk: Check, replay: dict | None = None) -> int:
    if replay is not None:
        r = run_case(replay["input"])
        r.pop("coq", None)
        print(json.dumps(r, indent=1)[:8000])
        if r.get("oracle_fail"):
            print(f"VIOLATION property=C03 replay=(replayed) : {r['oracle_fail']}")
            return 1
        return 0
    chk.prove()
    rng = chk.rng
    inputs = [c["input"] for c in load_corpus("C03")]
    n = 400 if chk.thorough else 70
    for i in range(n):
        inputs.append(gen_case(rng, focus="nofindings" if i % 2 == 0 else None))
    for i in range(n // 4):
        inputs.append(gen_case(rng, focus="maponly"))
    for i in range(n // 3):
        inputs.append(gen_case(rng, focus="union"))
    with ThreadPoolExecutor(max_workers=6) as ex:
        futs = [ex.submit(finish_case, c, start_case(c)) for c in inputs]
        results = [f.result() for f in futs]
    cases = [r for r in results if "skipped" not in r]
    skipped = [r for r in results if "skipped" in r]
    for r in skipped[:3]:
        chk.say(f"[C03] skipped: {r['skipped'][:300]}")
    dead = [r for r in skipped if not r["skipped"].startswith("construct outside")]
    if dead:
        # on the unchanged tree every generated spec of this fragment generates and imports; if that stops being
        # true the property can no longer be evaluated on those inputs — report, do not shrug
        first = min(dead, key=lambda r: len(json.dumps(r["input"])))
        chk.broken.append({"kind": "pipeline", "name": "generate -> import -> drive", "mismatches": len(dead),
                           "first": {"input": first["input"], "obs": first["skipped"]}})
        chk.say(f"[C03] {len(dead)} spec(s) could not be generated/imported/driven: {first['skipped'][:300]}")
    chk.cov["evaluations"] = sum(len(c["obs"]["ops"]) for c in cases)
    chk.cov["distinct_nontrivial"] = len({json.dumps(c["input"], sort_keys=True) for c in cases if c["obs"]["ops"]})
    dist = {"specs_generated": len(cases), "skipped": len(skipped), "documents": sum(len(c["input"]["docs"]) for c in cases),
            "structure_ok": 0, "structure_ValueError": 0, "structure_Other": 0, "oracle_failures": 0,
            "formats": {}, "renamed_fields": 0, "collision_suffixed_fields": 0, "properties": 0}
    for c in cases:
        dist["oracle_failures"] += bool(c["oracle_fail"])
        for o in c["obs"]["ops"]:
            if o["op"] == "structure":
                dist["structure_" + o["obs"][0]] += 1
        for s in c["input"]["schemas"]:
            if "map" in s:
                dist["named_map_schemas"] = dist.get("named_map_schemas", 0) + 1
            for p in s.get("props", []):
                dist["properties"] += 1
                if isinstance(p["schema"], list) and p["schema"][0] == "map":
                    dist["inline_map_properties"] = dist.get("inline_map_properties", 0) + 1
                ps = p["schema"][1] if isinstance(p["schema"], list) and p["schema"][0] == "arr" else p["schema"]
                if isinstance(ps, list) and ps[0] == "str":
                    dist["formats"][str(ps[1])] = dist["formats"].get(str(ps[1]), 0) + 1
        for k in c["obs"]["classes"]:
            for w, p in (k["load"] or []):
                dist["renamed_fields"] += w != p
                dist["collision_suffixed_fields"] += p[-2:] in ("_2", "_3", "_4")
    chk.cov["input_distribution"] = dist
    for c in cases[:2] + cases[-1:]:
        chk.sample({"input": c["input"], "obs": c["obs"]})
    modelled = [c for c in cases if not c.get("oracle_only")]
    oracle_only = [c for c in cases if c.get("oracle_only")]
    dist["union_cases_oracle_only"] = len(oracle_only)
    codes = None
    if chk.model_ok:
        codes = chk.coq_eval("From PG Require Import Lib.Strs Model.Converter Model.ModelGen Corr.C16 Corr.C03.",
                             "c03_in * c03_obs", [c["coq"] for c in modelled], "Corr.C03.run", shard=12)
    for c in cases:
        c.pop("coq", None)
    if codes is not None:
        bad = [c for c, k in zip(modelled, codes) if (k >> 4) & 1]
        if bad:
            chk.broken.append({"kind": "guard", "name": "C03_maps_bijective: generated field names not distinct",
                               "mismatches": len(bad), "first": {"input": bad[0]["input"], "obs": bad[0]["obs"]["classes"]}})
    chk.decide(modelled, codes, {2: "F03b"},
               "Corr.C03.run: gen_class + run_ops (model) = dataclasses of the generated package + its own "
               "structure_from_dict/unstructure_to_dict")
    # union-typed properties: no model comparison here (variant choice is C14's model); the oracle alone decides
    before = chk.cov["traces_validated_against_impl"]
    chk.decide(oracle_only, [0] * len(oracle_only), {}, "oracle only (union-typed properties)")
    chk.cov["traces_validated_against_impl"] = before
    return chk.finish(TRUSTED,
                      rule="corpus + seeded specs (1-3 object schemas, 1-6 properties from a pool of camel/snake/kebab/keyword-like/"
                           "colliding names, every string format, enums, arrays, nested and self references, nullable) x 3-6 "
                           "spec-conforming documents each; generated with the real generator, imported without it; "
                           "non-trivial = at least one document was structured; distinct by JSON of the input")
