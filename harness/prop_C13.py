"""C13 — endpoint clients, their Protocols and their mocks have identical surfaces."""
from __future__ import annotations

import ast
import json
import re
from concurrent.futures import ThreadPoolExecutor
from typing import Any

from framework import Check, clist, copt, cpair, cstr, load_corpus
from pipeline import base_spec, drive, generate
import prop_C07 as t07

TRUSTED = [
    "Coq 8.16.1 kernel + vm_compute (witness theorems and correspondence evaluation)",
    "hand-written Gallina model coq/Model/Surface.v of the two line scanners (generate_endpoint_protocol, "
    "_transform_to_mock), of CodeWriter.write_function_signature and of MocksEmitter's first-tag grouping; "
    "coq/Model/Tags.v for the endpoint grouping (validated on this run's cases only)",
    "str.strip() is modelled for ASCII white space, NEL and NBSP only",
    "NameSanitizer functions / tag_score / str.isidentifier enter the grouping model as finite tables from the real functions",
    "the scanners are exercised by replacing EndpointMethodGenerator.generate with a function returning the given text "
    "(function-level) and by recording the texts it returns during real generations (pipeline-level)",
    "CPython inspect/ast for the observation of generated classes; equality of annotations is equality of "
    "inspect.formatannotation strings",
]

SCHEMAS = {"Item": {"type": "object", "properties": {"id": {"type": "integer"}, "name": {"type": "string"}}, "required": ["id"]},
           "Meta": {"type": "object", "properties": {"k": {"type": "string"}, "n": {"type": "integer"}}},
           "Thumb": {"type": "object", "properties": {"w": {"type": "integer"}}, "required": ["w"]},
           # a schema whose class name contains the text the scanners search for (finding F13c)
           "AsyncIteratorInfo": {"type": "object", "properties": {"a": {"type": "string"}}}}
JSON_OBJ = {"200": {"description": "ok", "content": {"application/json": {"schema": {"$ref": "#/components/schemas/Item"}}}}}
KINDS = ["plain", "params", "manyopt", "sse", "ndjson", "octet", "overload", "overload3", "body",
         "overload_meta", "overload_thumb", "partial_octet", "partial_sse"]
RARE_KINDS = ["ai_ret", "ai_body"]   # return type / JSON body of schema AsyncIteratorInfo (F13c); only in a dedicated stream
# overload / overload_meta / overload_thumb: multi-content-type bodies whose application/json schema differs (Item / Meta / Thumb)
# partial_*: the primary response is a plain 200 JSON object, a SECONDARY response streams (206 octet-stream / 202 SSE)
BODY_KINDS = ("overload", "overload3", "body", "overload_meta", "overload_thumb", "ai_body")


def qp(name: str, req: bool = False, t: str = "string", where: str = "query") -> dict:
    return {"name": name, "in": where, "required": req, "schema": {"type": t}}


def op_node(it: dict, path: str) -> dict:
    n: dict[str, Any] = {}
    if it.get("opid") is not None:
        n["operationId"] = it["opid"]
    if it.get("tags") is not None:
        n["tags"] = list(it["tags"])
    # "undeclared": the URL-template variables are NOT declared under `parameters` (the generator adds them itself)
    params = [] if it.get("undeclared") else [qp(m, True, "string", "path") for m in re.findall(r"{(\w+)}", path)]
    k = it.get("kind", "plain")
    resp: dict[str, Any] = {"204": {"description": "none"}}
    if k == "params":
        params += [qp("limit", False, "integer"), qp("q", True), qp("X-Trace", False, "string", "header")]
        resp = JSON_OBJ
    elif k == "manyopt":
        params += [qp(f"opt{i}", False, ["string", "integer", "boolean", "number"][i % 4]) for i in range(9)]
        params += [qp("tags", False, "array")]
        params[-1]["schema"] = {"type": "array", "items": {"type": "string"}}
        resp = {"200": {"description": "ok", "content": {"application/json": {"schema": {"type": "array", "items": {"$ref": "#/components/schemas/Item"}}}}}}
    elif k == "sse":
        resp = {"200": {"description": "ok", "content": {"text/event-stream": {"schema": {"type": "string"}}}}}
    elif k == "ndjson":
        params += [qp("since")]
        resp = {"200": {"description": "ok", "content": {"application/x-ndjson": {"schema": {"$ref": "#/components/schemas/Item"}}}}}
    elif k == "octet":
        resp = {"200": {"description": "ok", "content": {"application/octet-stream": {"schema": {"type": "string", "format": "binary"}}}}}
    elif k == "partial_octet":
        resp = {"200": JSON_OBJ["200"],
                "206": {"description": "part", "content": {"application/octet-stream": {"schema": {"type": "string", "format": "binary"}}}}}
    elif k == "partial_sse":
        params += [qp("since")]
        resp = {"200": JSON_OBJ["200"], "202": {"description": "later", "content": {"text/event-stream": {"schema": {"type": "string"}}}}}
    elif k in ("overload", "overload3", "overload_meta", "overload_thumb"):
        params += [qp("force", False, "boolean")]
        ref = {"overload_meta": "Meta", "overload_thumb": "Thumb"}.get(k, "Item")
        content = {"application/json": {"schema": {"$ref": "#/components/schemas/" + ref}},
                   "multipart/form-data": {"schema": {"type": "object", "properties": {"f": {"type": "string", "format": "binary"}}}}}
        if k == "overload3":
            content["application/x-www-form-urlencoded"] = {"schema": {"type": "object", "properties": {"a": {"type": "string"}}}}
        n["requestBody"] = {"required": True, "content": content}
        resp = JSON_OBJ
    elif k == "ai_ret":
        resp = {"200": {"description": "ok", "content": {"application/json": {"schema": {"$ref": "#/components/schemas/AsyncIteratorInfo"}}}}}
    elif k == "ai_body":
        n["requestBody"] = {"required": True, "content": {"application/json": {"schema": {"$ref": "#/components/schemas/AsyncIteratorInfo"}}}}
        resp = JSON_OBJ
    elif k in ("named", "typed_sibling"):
        # "named": response (and JSON body when the method allows one) of the component schema it["schema"], plus a
        # primitive query parameter; "typed_sibling": parameters whose annotations are the types date/datetime/bytes
        if k == "named":
            ptype = {"string": "string", "integer": "integer", "number": "number", "boolean": "boolean"}.get(it["schema"], "string")
            params += [qp("q", False, ptype)]
            resp = {"200": {"description": "ok", "content": {"application/json": {"schema": {"$ref": "#/components/schemas/" + it["schema"]}}}}}
            if it["method"] in ("post", "put", "patch"):
                n["requestBody"] = {"required": True, "content": {"application/json": {"schema": {"$ref": "#/components/schemas/" + it["schema"]}}}}
        else:
            params += [{"name": "day", "in": "query", "required": True, "schema": {"type": "string", "format": "date"}},
                       {"name": "at", "in": "query", "required": False, "schema": {"type": "string", "format": "date-time"}}]
    elif k == "body_opt":
        params += [qp("dry_run", False, "boolean"), qp("note")]
        n["requestBody"] = {"required": True, "content": {"application/json": {"schema": {"$ref": "#/components/schemas/Item"}}}}
        resp = JSON_OBJ
    elif k == "body":
        n["requestBody"] = {"required": True, "content": {"application/json": {"schema": {"$ref": "#/components/schemas/Item"}}}}
        resp = JSON_OBJ
    if params:
        n["parameters"] = params
    n["responses"] = resp
    return n


def case_schemas(case: dict) -> dict:
    sch = dict(SCHEMAS)
    for p in case["paths"]:
        for it in p["items"]:
            if it.get("schema"):
                sch.setdefault(it["schema"], {"type": "object", "properties": {"a": {"type": "string"}}})
    return sch


def case_spec(case: dict) -> dict:
    paths: dict[str, Any] = {}
    for p in case["paths"]:
        paths[p["path"]] = {it["method"]: op_node(it, p["path"]) for it in p["items"]}
    return base_spec(paths, case_schemas(case))


# ---------------------------------------------------------------- driver (fresh interpreter, generator blocked)
DRIVER = r"""
import importlib, inspect, asyncio, os
import typing
def ann(a, owner):
    # the annotation as the RESOLVED object, named by module + qualified name
    if isinstance(a, str):
        return 'unresolved-string:' + a
    if inspect.isfunction(a):
        # a method of the same class shadowed a type name in the class body: name it without the class
        return '<method %s used as annotation>' % a.__name__
    if isinstance(a, type):
        return a.__module__ + '.' + a.__qualname__
    return inspect.formatannotation(a)
def surf(cls):
    out = {}
    for n, f in vars(cls).items():
        if n.startswith('__') or not inspect.isfunction(f):
            continue
        sig = inspect.signature(f)
        try:
            hints = typing.get_type_hints(f)      # resolves quoted / forward-reference annotations in the module
        except BaseException as e:
            hints = {'__error__': type(e).__name__ + ': ' + str(e)[:80]}
        def res(name, raw):
            if raw is inspect.Signature.empty:
                return None
            if '__error__' in hints:
                return ann(raw, cls) + ' [' + hints['__error__'] + ']'
            return ann(hints.get(name, raw), cls)
        params = [[p.name, p.kind.name, None if p.default is p.empty else repr(p.default), res(p.name, p.annotation)]
                  for p in sig.parameters.values()]
        ret = res('return', sig.return_annotation)
        if inspect.isasyncgenfunction(f): nature = 'asyncgen'
        elif inspect.iscoroutinefunction(f): nature = 'coroutine'
        elif ret and 'AsyncIterator' in ret: nature = 'def->AsyncIterator'
        else: nature = 'def'
        out[n] = {'params': params, 'ret': ret, 'nature': nature}
    return out
async def call(m, f):
    sig = inspect.signature(f)
    a, kw = [], {}
    for p in list(sig.parameters.values())[1:]:
        if p.default is not p.empty: continue
        if p.kind == p.KEYWORD_ONLY: kw[p.name] = None
        elif p.kind in (p.POSITIONAL_ONLY, p.POSITIONAL_OR_KEYWORD): a.append(None)
    try:
        r = f(m, *a, **kw)
        if inspect.isasyncgen(r):
            await r.__anext__()
        else:
            await r
        return 'returned'
    except NotImplementedError:
        return 'NotImplementedError'
    except BaseException as e:
        return type(e).__name__ + ': ' + str(e)[:100]
def props_of(modname, clsname):
    try:
        m = importlib.import_module(modname)
        return [n for n, v in vars(getattr(m, clsname)).items() if isinstance(v, property)], None
    except BaseException as e:
        return None, type(e).__name__ + ': ' + str(e)[:200]
def main(arg):
    out = {'tags': {}}
    d = os.path.join(arg['root'], 'client', 'endpoints')
    for fn in sorted(os.listdir(d)):
        if not fn.endswith('.py') or fn == '__init__.py':
            continue
        mod = fn[:-3]
        rec = {}
        try:
            m = importlib.import_module('client.endpoints.' + mod)
            C = [v for k, v in vars(m).items() if inspect.isclass(v) and k.endswith('Client') and v.__module__ == m.__name__][0]
            P = getattr(m, C.__name__ + 'Protocol')
            rec['client'] = surf(C); rec['protocol'] = surf(P)
            rec['client_isinstance'] = isinstance(C(None, ''), P)
        except BaseException as e:
            rec['error'] = type(e).__name__ + ': ' + str(e)[:200]
            out['tags'][mod] = rec
            continue
        try:
            mm = importlib.import_module('client.mocks.endpoints.mock_' + mod)
            M = getattr(mm, 'Mock' + C.__name__)
            rec['mock'] = surf(M)
            inst = M()
            rec['mock_isinstance'] = isinstance(inst, P)
            rec['mock_raises'] = {n: asyncio.run(call(inst, f)) for n, f in vars(M).items()
                                  if not n.startswith('__') and inspect.isfunction(f)}
        except BaseException as e:
            rec['mock'] = None
            rec['mock_error'] = type(e).__name__ + ': ' + str(e)[:200]
        out['tags'][mod] = rec
    out['client_props'], out['client_props_error'] = props_of('client.client', 'APIClient')
    out['mock_props'], out['mock_props_error'] = props_of('client.mocks.mock_client', 'MockAPIClient')
    return out
"""


def observe_mock_files(g) -> list:
    out = []
    d = g.pkg_dir / "mocks" / "endpoints"
    if not d.is_dir():
        return out
    for f in sorted(d.glob("mock_*.py")):
        try:
            tree = ast.parse(f.read_text())
        except SyntaxError:
            out.append([f.name[5:-3], "SYNTAXERROR", []])
            continue
        for n in tree.body:
            if isinstance(n, ast.ClassDef):
                seen: list[str] = []
                for b in n.body:   # @overload blocks repeat the name: one entry per operation, in order
                    if isinstance(b, (ast.AsyncFunctionDef, ast.FunctionDef)) and not b.name.startswith("__") \
                            and not any(isinstance(dec, ast.Name) and dec.id == "overload" for dec in b.decorator_list):
                        seen.append(b.name)
                out.append([f.name[5:-3], n.name, seen])
    return out


# ---------------------------------------------------------------- recording the real method texts
class Recorder:
    def __init__(self):
        self.texts: list[str] = []

    def __enter__(self):
        from pyopenapi_gen.visit.endpoint.generators.endpoint_method_generator import EndpointMethodGenerator as G
        self.G, self.orig = G, G.generate
        rec = self

        def generate(self_, op, ctx):
            t = rec.orig(self_, op, ctx)
            rec.texts.append(t)
            return t
        G.generate = generate
        return self

    def __exit__(self, *a):
        self.G.generate = self.orig


class _Ctx:
    core_package_name = "c.core"

    def add_import(self, *a, **k):
        pass

    def __getattr__(self, n):
        return lambda *a, **k: None


def real_scan(text: str, tag: str, opid: str) -> tuple[str, list[str], list[str]]:
    """run the two real scanners on `text` as if it were the generated method of one operation"""
    from pyopenapi_gen import HTTPMethod, IROperation
    from pyopenapi_gen.core.utils import NameSanitizer as NS
    from pyopenapi_gen.visit.endpoint.endpoint_visitor import EndpointVisitor
    from pyopenapi_gen.visit.endpoint.generators.endpoint_method_generator import EndpointMethodGenerator as G
    from pyopenapi_gen.visit.endpoint.generators.mock_generator import MockGenerator
    op = IROperation(operation_id=opid, method=HTTPMethod.GET, path="/x", summary=None, description=None, tags=[tag])
    orig = G.generate
    G.generate = lambda self, o, c: text
    try:
        code = EndpointVisitor({}).generate_endpoint_protocol(tag, [op], _Ctx())
    finally:
        G.generate = orig
    lines = code.split("\n")
    if len(lines) < 3 or not lines[1].startswith("class "):
        raise RuntimeError("Protocol header no longer has the expected shape")
    proto = [l.strip() for l in lines[4:]]
    mock = [l.strip() for l in MockGenerator({})._transform_to_mock(text, op).split("\n")]
    who = f"Mock{NS.sanitize_class_name(tag)}Client.{NS.sanitize_method_name(opid)}"
    return who, drop_trailing(proto), drop_trailing(mock)


def drop_trailing(l: list[str]) -> list[str]:
    while l and l[-1] == "":
        l = l[:-1]
    return l


def real_signature(name: str, args: list[str], ret: str) -> list[str]:
    from pyopenapi_gen.core.writers.code_writer import CodeWriter
    w = CodeWriter()
    w.write_function_signature(name, args, return_type=ret, async_=True)
    return w.get_code().split("\n")


# ---------------------------------------------------------------- scanner inputs
ANNOTS = ["str", "int | None", "List[Item]", "dict[str, Any]", "AsyncIterator[bytes]", 'Literal["a:b"]', "Callable[[int], str]",
          "Optional[str]", "Item", "bool"]
RETS = ["None", "Item", "List[Item]", "AsyncIterator[Item]", "AsyncIterator[dict[str, Any]]", "bytes", "dict[str, Any]",
        "collections.abc.AsyncIterator[bytes]"]
PNAMES = ["id_", "limit", "q", "x_trace", "body", "files", "data", "content_type", "since", "class_", "a", "b2"]
DEFAULTS = [None, "None", "None", '"application/json"', "0", '":"']
SOUP = ["@overload", "async def f(", "async def g(self) -> None:", "def h(", "def k(self):", "self,", "x: int,", "x: int = None,",
        ") -> AsyncIterator[X]:", ") -> X: ...", ") -> X:", "):", "", "   ", "\t@overload  ", "    async def m(", "        self,",
        "    ) -> Item:", 'y: str = ":"', "lambda:", "return {", "}:", '"""doc:"""', "*,", "z: Literal['a'] = 'a'",
        "async def n(self, a: AsyncIterator[int]) -> None:", "pass", "# async def c(", "async defx(", "async def p", ": ...",
        "\x0bdef q(self) -> AsyncIterator[int]:\x1c", "\xa0) -> R:\x85"]


def gen_sig(rng) -> dict:
    n = rng.choice([0, 1, 2, 3, 5, 12])
    names = rng.sample(PNAMES, min(n, len(PNAMES)))
    args = [["", "", None]] + [[nm, rng.choice(ANNOTS), rng.choice(DEFAULTS)] for nm in names]
    return {"name": rng.choice(["get_a", "m", "list_items", "_2fa", "class_"]), "args": args, "ret": rng.choice(RETS)}


def arg_text(a) -> str:
    n, t, d = a
    if n == "":
        return "self"
    if n == "*":
        return "*"
    return f"{n}: {t}" + (f" = {d}" if d is not None else "")


def star_sig_lines(sig: dict, term: str) -> list[str]:
    args = sig["args"][:]
    args.insert(min(len(args), 2), ["*", "", None])
    params_str = ",\n    ".join(arg_text(a) for a in args)
    return [f"async def {sig['name']}("] + ("    " + params_str).split("\n") + [f") -> {sig['ret']}{term}"]


def gen_scan_text(rng) -> str:
    r = rng.random()
    if r < 0.35:     # standard method
        s = gen_sig(rng)
        lines = real_signature(s["name"], [arg_text(a) for a in s["args"]], s["ret"])
        body = ['    """', "    Doc: summary", '    """', "    url = f\"{self.base_url}/a\"", "    async for x in it:", "        yield x"]
        return "\n".join(lines + body[: rng.randint(0, len(body))])
    if r < 0.6:      # overloaded method
        s = gen_sig(rng)
        parts = []
        for _ in range(rng.randint(1, 3)):
            parts.append("\n".join(["@overload"] + star_sig_lines(s, ": ...")))
        impl = "\n".join(star_sig_lines(s, ":") + ['    """', "    x", '    """', "    if body is not None:", "        pass"])
        return "\n\n".join(parts + [impl])
    n = rng.randint(0, 9)
    return "\n".join(rng.choice(SOUP) for _ in range(n))


# ---------------------------------------------------------------- the property's own oracle (pipeline level)
def oracle(case: dict, obs: dict) -> list[str]:
    """C13 from the property text: per tag, client class / Protocol / mock expose the same methods with identical
    signatures and coroutine-vs-async-generator nature; both satisfy the Protocol; every mock method raises
    NotImplementedError; MockAPIClient has the same tag properties as APIClient."""
    if obs["gen"] == "ERR":
        return []
    fails: list[str] = []
    d = obs["drive"]
    if d is None:
        return [f"driver failed: {obs['drive_error']}"]
    for mod, rec in sorted(d["tags"].items()):
        if "error" in rec:
            fails.append(f"tag module {mod!r}: endpoint module not importable: {rec['error']}")
            continue
        if rec.get("mock") is None:
            fails.append(f"tag module {mod!r}: no importable mock class ({rec.get('mock_error')})")
            continue
        c, p, m = rec["client"], rec["protocol"], rec["mock"]
        if not (set(c) == set(p) == set(m)):
            fails.append(f"tag module {mod!r}: method sets differ: client {sorted(c)} protocol {sorted(p)} mock {sorted(m)}")
        for name in sorted(set(c) & set(p) & set(m)):
            if not (c[name]["params"] == p[name]["params"] == m[name]["params"]):
                fails.append(f"{mod}.{name}: parameters differ: client {c[name]['params']} protocol {p[name]['params']} mock {m[name]['params']}")
            if not (c[name]["ret"] == p[name]["ret"] == m[name]["ret"]):
                fails.append(f"{mod}.{name}: return annotations differ")
            want = {"coroutine": ("coroutine", "coroutine"), "asyncgen": ("def->AsyncIterator", "asyncgen")}.get(c[name]["nature"])
            if want is None or (p[name]["nature"], m[name]["nature"]) != want:
                fails.append(f"{mod}.{name}: nature client={c[name]['nature']} protocol={p[name]['nature']} mock={m[name]['nature']}")
        if not rec.get("client_isinstance"):
            fails.append(f"tag module {mod!r}: client instance does not satisfy its Protocol")
        if not rec.get("mock_isinstance"):
            fails.append(f"tag module {mod!r}: mock instance does not satisfy the Protocol")
        for name, r in sorted((rec.get("mock_raises") or {}).items()):
            if r != "NotImplementedError":
                fails.append(f"{mod}.{name}: mock method did not raise NotImplementedError ({r})")
    if d["client_props"] is None:
        fails.append(f"client.py not importable: {d['client_props_error']}")
    if d["mock_props"] is None:
        fails.append(f"MockAPIClient not importable: {d['mock_props_error']}")
    elif d["client_props"] is not None and sorted(d["mock_props"]) != sorted(d["client_props"]):
        fails.append(f"MockAPIClient properties {sorted(d['mock_props'])} != APIClient properties {sorted(d['client_props'])}")
    return fails


# ---------------------------------------------------------------- pipeline runner
def run_pipeline(inputs: list[dict], chk: Check | None, texts: list[tuple[str, str, str]]) -> list[dict]:
    staged = []
    for case in inputs:
        spec = case_spec(case)
        text = json.dumps(spec)
        with Recorder() as rec:
            g = generate({}, raw_text=text, naming_strategy=case["strategy"])
        for t in rec.texts:
            texts.append((t, "T", "m"))
        staged.append((case, g, t07.raw_ops(json.loads(text))))

    def one(x):
        case, g, raws = x
        if not g.ok:
            obs: dict[str, Any] = {"gen": "ERR", "error": g.error}
        else:
            r = drive(g, DRIVER, {"root": str(g.root)}, timeout=180)
            obs = {"gen": "ok", "mock_files": observe_mock_files(g), "drive": r["result"] if r["ok"] else None,
                   "drive_error": None if r["ok"] else r["error"]}
        g.cleanup()
        return obs

    with ThreadPoolExecutor(max_workers=12) as ex:
        observations = list(ex.map(one, staged))
    out = []
    for (case, g, raws), obs in zip(staged, observations):
        out.append({"input": case, "obs": obs, "raws": raws, "tables": t07.build_tables(case, raws, chk),
                    "oracle_fail": oracle(case, obs)})
    return out


KIND_SCHEMAS = {"body_opt": ["Item"], "params": ["Item"], "manyopt": ["Item"], "ndjson": ["Item"], "overload": ["Item"], "overload3": ["Item"],
                "body": ["Item"], "overload_meta": ["Meta", "Item"], "overload_thumb": ["Thumb", "Item"], "partial_octet": ["Item"],
                "partial_sse": ["Item"], "ai_ret": ["AsyncIteratorInfo"], "ai_body": ["AsyncIteratorInfo", "Item"]}


def schema_class_names(case: dict) -> list[str]:
    """raw names of the component schemas the case's operations refer to (guard F13e looks at them)"""
    names: list[str] = []
    for p in case["paths"]:
        for it in p["items"]:
            for sname in KIND_SCHEMAS.get(it.get("kind", "plain"), []) + ([it["schema"]] if it.get("schema") else []):
                if sname not in names:
                    names.append(sname)
    return names


def c_gcase(c: dict) -> str:
    o = c["obs"]
    if o["gen"] == "ERR" or o["drive"] is None:
        ob = "GGenErr"
    else:
        files = clist(cpair(cstr(m), cpair(cstr(cl), clist(cstr(d) for d in defs))) for m, cl, defs in o["mock_files"])
        f = lambda v: "None" if v is None else "(Some " + clist(cstr(x) for x in v) + ")"
        ob = f"(GGen {files} {f(o['drive']['mock_props'])} {f(o['drive']['client_props'])})"
    raws = clist(t07.c_raw(r) for r in c["raws"])
    names = clist(cstr(x) for x in schema_class_names(c["input"]))
    return f"((({t07.c_tables(c['tables'])}, {t07.C_STRAT[c['input']['strategy']]}, {raws}), {names}), {ob})"


def c_lines(ls: list[str]) -> str:
    return clist(cstr(l) for l in ls)


# ---------------------------------------------------------------- generators (pipeline)
TAGSETS = [None, [], ["Users"], ["users"], ["Users", "admin"], ["admin", "Users", "x"], ["data_sources"], ["DataSources"],
           ["Users", "users"], ["x"], ["type"]]


def gen_case(rng) -> dict:
    paths = []
    pool = rng.sample(t07.PATHS[:6], rng.randint(1, 3))
    i = 0
    for p in pool:
        items = []
        for m in rng.sample(["get", "post", "put", "delete", "patch"], rng.randint(1, 2)):
            k = rng.choice(KINDS)
            if k in BODY_KINDS and m in ("get", "delete"):
                m2 = "post" if not any(x["method"] == "post" for x in items) else "put"
                if any(x["method"] == m2 for x in items):
                    k = "params"
                else:
                    m = m2
            if any(x["method"] == m for x in items):
                continue
            items.append({"method": m, "opid": rng.choice([None, f"op{i}", f"doThing{i}", "foo"]), "tags": rng.choice(TAGSETS), "kind": k})
            i += 1
        paths.append({"path": p, "items": items})
    return {"strategy": rng.choice(t07.STRATEGIES), "render": "json", "paths": paths}


def uniform_case(rng) -> dict:
    """single-tag, uniformly spelled: the guarded theorem's domain — the oracle must pass here"""
    c = gen_case(rng)
    for p in c["paths"]:
        for it in p["items"]:
            it["tags"] = rng.choice([None, ["Users"], ["admin"], ["data_sources"]])
    return c


def shared_tag_case(rng) -> dict:
    """ONE tag (single, uniformly spelled) holding >= 2 multi-content-type operations whose JSON bodies use different
    schemas, plus operations whose primary response is plain JSON and a secondary response streams; the mock of a tag is
    produced by one generator instance for all its operations, so state carried between operations shows up here"""
    tag = rng.choice([None, ["docs"], ["Users"]])
    kinds = rng.sample(["overload", "overload_meta", "overload_thumb", "overload3"], rng.randint(2, 3)) \
        + rng.sample(["partial_octet", "partial_sse", "sse", "params", "body"], rng.randint(1, 3))
    rng.shuffle(kinds)
    slots = [(p, m) for p in ["/d", "/d/{id}", "/r"] for m in ["post", "put", "patch"]]
    rng.shuffle(slots)
    by_path: dict[str, list] = {}
    for i, (k, (p, m)) in enumerate(zip(kinds, slots)):
        if k in ("partial_octet", "partial_sse", "sse", "params") and rng.random() < 0.5 and \
                not any(x["method"] == "get" for x in by_path.get(p, [])):
            m = "get"
        by_path.setdefault(p, []).append({"method": m, "opid": f"op{i}{k.title().replace('_', '')}", "tags": tag, "kind": k})
    return {"strategy": rng.choice(t07.STRATEGIES), "render": "json",
            "paths": [{"path": p, "items": its} for p, its in by_path.items()]}


# names that the generated endpoint / mock modules import themselves (core exceptions, typing, helpers), names equal to
# the tag's module, and names of primitive types: a component schema may be called any of these
CLASH_SCHEMAS = ["ClientError", "ServerError", "NotFoundError", "HTTPError", "Any", "List", "Optional", "Callable", "Dict",
                 "NoReturn", "IO", "Literal", "Protocol", "HttpTransport", "DataclassSerializer", "Users", "T", "date", "datetime"]
PRIMITIVE_SCHEMAS = ["string", "integer", "boolean"]          # finding F13e
TYPE_OPIDS = ["date", "datetime"]                             # method names equal to a type used in annotations


def name_clash_case(rng) -> dict:
    """one tag; operations returning / taking component schemas whose names collide with imported names, and operations whose
    METHOD name is a type name (date, datetime) next to a sibling that uses that type in a parameter — both declaration
    orders, and both alphabetical orders of the sibling's name"""
    tag = rng.choice([["Users"], ["t"], None, ["events"]])
    names = rng.sample(CLASH_SCHEMAS, rng.randint(1, 3)) + ([rng.choice(PRIMITIVE_SCHEMAS)] if rng.random() < 0.25 else [])
    items_by_path: dict[str, list] = {}
    slots = [(p, m) for p in ["/c", "/c/{id}", "/e"] for m in ["get", "post", "put", "delete"]]
    rng.shuffle(slots)
    ops = [{"opid": f"op{i}{nm}", "kind": "named", "schema": nm} for i, nm in enumerate(names)]
    if rng.random() < 0.7:
        t = rng.choice(TYPE_OPIDS)
        sib = {"opid": rng.choice(["eventsOn", "aaEvents", "zzEvents"]), "kind": "typed_sibling"}
        typed = {"opid": t, "kind": "plain"}
        ops += [sib, typed] if rng.random() < 0.5 else [typed, sib]
    rng.shuffle(ops) if rng.random() < 0.3 else None
    # keep declaration order = order in `ops`: one path per operation keeps dict order = spec order
    out_paths = []
    for i, o in enumerate(ops):
        m = rng.choice(["get", "post", "put"]) if o["kind"] == "named" else "get"
        out_paths.append({"path": f"/p{i}", "items": [{"method": m, "opid": o["opid"], "tags": tag, "kind": o["kind"],
                                                      **({"schema": o["schema"]} if "schema" in o else {})}]})
    return {"strategy": "operationId", "render": "json", "paths": out_paths}


def undeclared_path_case(rng) -> dict:
    """operations whose URL template uses variables that are NOT declared under `parameters`, combined with request bodies
    (JSON, multi-content-type) and optional parameters: the client method, its Protocol stub and its mock are rendered by
    separate generator calls on the same operation object, so the positional order must not depend on which came first"""
    tag = rng.choice([None, ["items"], ["Users"], ["items", "admin"]])
    pool = [("/items/{item_id}", ["post", "put", "patch"]), ("/a/{id}/b/{sub_id}", ["post", "put"]), ("/things/{thing_id}/run", ["post", "get"])]
    paths = []
    i = 0
    for path, methods in rng.sample(pool, rng.randint(1, 3)):
        items = []
        for m in rng.sample(methods, rng.randint(1, 2)):
            kind = rng.choice(["body_opt", "body", "overload", "body_opt"]) if m != "get" else rng.choice(["params", "plain"])
            items.append({"method": m, "opid": f"op{i}", "tags": tag, "kind": kind, "undeclared": rng.random() < 0.8})
            i += 1
        paths.append({"path": path, "items": items})
    return {"strategy": rng.choice(t07.STRATEGIES), "render": "json", "paths": paths}


# ---------------------------------------------------------------- entry
GUARDS: dict[int, str] = {}   # F13a, F13b, F13c, F13e and F01e are fixed: any oracle failure is a violation


def main(chk: Check, replay: dict | None = None) -> int:
    if replay is not None:
        r = run_pipeline([replay["input"]], None, [])[0]
        print(json.dumps({"obs": r["obs"], "oracle_fail": r["oracle_fail"]}, indent=1)[:6000])
        if r["oracle_fail"]:
            print(f"VIOLATION property=C13 replay=(replayed) : {r['oracle_fail'][:3]}")
            return 1
        return 0
    chk.prove()
    rng = chk.rng
    # ---- relation 2 (pipeline) first: it also records the real method texts for relation 1
    inputs = [c["input"] for c in load_corpus("C13")]
    n = 300 if chk.thorough else 36
    inputs += [gen_case(rng) for _ in range(n)] + [uniform_case(rng) for _ in range(n // 2)]
    inputs += [shared_tag_case(rng) for _ in range(n // 3)]
    inputs += [name_clash_case(rng) for _ in range(max(6, n // 3))]
    inputs += [undeclared_path_case(rng) for _ in range(max(6, n // 4))]
    for _ in range(max(2, n // 9)):      # F13c stream: a uniform single-tag case with one AsyncIteratorInfo operation
        c = uniform_case(rng)
        if not c["paths"][0]["items"]:
            continue
        it = c["paths"][0]["items"][0]
        it["kind"] = rng.choice(RARE_KINDS)
        if it["kind"] == "ai_body" and it["method"] in ("get", "delete"):
            it["method"] = "post" if not any(x["method"] == "post" for x in c["paths"][0]["items"]) else "patch"
        if len({x["method"] for x in c["paths"][0]["items"]}) == len(c["paths"][0]["items"]):
            inputs.append(c)
    texts: list[tuple[str, str, str]] = []
    cases = run_pipeline(inputs, chk, texts)
    gcodes = None
    if chk.model_ok:
        gcodes = chk.coq_eval("From PG Require Import Lib.Strs Model.Tags Model.Surface Corr.C07 Corr.C13.", "ginput * gobs",
                              [c_gcase(c) for c in cases], "run_groups", shard=30, tag="groups")
    slim = [{"input": c["input"], "obs": c["obs"], "oracle_fail": c["oracle_fail"]} for c in cases]
    chk.decide(slim, gcodes, GUARDS, "Corr.C13.run_groups: mock files / MockAPIClient / APIClient properties")
    # ---- relation 1: scanners
    seen = set()
    scan_in: list[tuple[str, str, str]] = []
    for t in texts:
        if t[0] not in seen:
            seen.add(t[0])
            scan_in.append(t)
    real_n = len(scan_in)
    m = 4000 if chk.thorough else 500
    for _ in range(m):
        scan_in.append((gen_scan_text(rng), rng.choice(["T", "users", "Data-Sources"]), rng.choice(["m", "getA", "2fa"])))
    scan_cases = []
    for text, tag, opid in scan_in:
        who, proto, mock = real_scan(text, tag, opid)
        scan_cases.append({"input": {"text": text, "tag": tag, "opid": opid}, "obs": {"proto": proto, "mock": mock}, "who": who,
                           "oracle_fail": []})
    scodes = None
    if chk.model_ok:
        scodes = chk.coq_eval("From PG Require Import Lib.Strs Model.Surface Corr.C13.", "scan_input * scan_obs",
                              [f"(({cstr(c['who'])}, {c_lines(c['input']['text'].split(chr(10)))}), "
                               f"({c_lines(c['obs']['proto'])}, {c_lines(c['obs']['mock'])}))" for c in scan_cases],
                              "run_scan", shard=150, tag="scan")
    chk.decide(scan_cases, scodes, {}, "Corr.C13.run_scan: extract_protocol / to_mock = the real line scanners")
    # ---- relation 1b: render_sig
    sig_cases = []
    for _ in range(200 if not chk.thorough else 1500):
        s = gen_sig(rng)
        sig_cases.append({"input": s, "obs": real_signature(s["name"], [arg_text(a) for a in s["args"]], s["ret"]), "oracle_fail": []})
    rcodes = None
    if chk.model_ok:
        rcodes = chk.coq_eval("From PG Require Import Lib.Strs Model.Surface Corr.C13.", "sig_input * list line",
                              [f"(({cstr(c['input']['name'])}, {clist(cpair(cstr(a[0]), cstr(a[1]), copt(a[2], cstr)) for a in c['input']['args'])}, "
                               f"{cstr(c['input']['ret'])}), {c_lines(c['obs'])})" for c in sig_cases], "run_sig", shard=200, tag="sig")
    chk.decide(sig_cases, rcodes, {}, "Corr.C13.run_sig: render_sig = CodeWriter.write_function_signature")

    chk.cov["evaluations"] = len(cases) + len(scan_cases) + len(sig_cases)
    chk.cov["distinct_nontrivial"] = (len({json.dumps(c["input"], sort_keys=True) for c in cases})
                                      + len({c["input"]["text"] for c in scan_cases if c["obs"]["proto"] or c["obs"]["mock"]}))
    kinds: dict[str, int] = {}
    for c in cases:
        for p in c["input"]["paths"]:
            for it in p["items"]:
                kinds[it.get("kind", "plain")] = kinds.get(it.get("kind", "plain"), 0) + 1
    chk.cov["input_distribution"] = {
        "pipeline_cases": len(cases), "operation_kinds": kinds,
        "pipeline_multi_tag_cases": sum(1 for c in cases if any(len(it.get("tags") or []) > 1 for p in c["input"]["paths"] for it in p["items"])),
        "pipeline_oracle_failures": sum(1 for c in cases if c["oracle_fail"]),
        "pipeline_oracle_passes": sum(1 for c in cases if not c["oracle_fail"]),
        "methods_compared": sum(len(rec.get("client", {})) for c in cases if c["obs"].get("drive") for rec in c["obs"]["drive"]["tags"].values()),
        "scanner_texts_recorded_from_real_generations": real_n, "scanner_texts_synthetic": m, "signature_renderings": len(sig_cases)}
    for c in cases[:1]:
        chk.sample({"input": c["input"], "oracle_fail": c["oracle_fail"][:3]})
    for c in scan_cases[:1] + scan_cases[-2:]:
        chk.sample({"input": c["input"], "obs": c["obs"]})
    return chk.finish(TRUSTED,
                      rule="pipeline: corpus + seeded documents (operation kinds plain/params/many-optional/SSE/NDJSON/octet-stream/"
                           "2- and 3-content-type overloads with different JSON schemas/JSON body/plain-200-plus-secondary-streaming-response x tag sets incl. multi-tag and spelling variants x 3 strategies) "
                           "+ a single-tag uniformly-spelled stream + a one-tag stream with >= 2 overloaded operations of different body schemas; scanners: every distinct method text the real generator produced "
                           "in those runs + synthetic standard/overloaded renderings + adversarial line soups; non-trivial (scanner) = "
                           "some output line; distinct by input JSON / text")
