"""Shared machinery for every ./check Cxx run.

One run = (1) regenerate Gen/*.v from /repo (translator), (2) build the property's proof
obligations with coqc and collect Print Assumptions, (3) run the implementation and the Coq
model (vm_compute inside coqc) on the same cases and compare, (4) evaluate the property's own
oracle on every implementation observation, (5) decide, (6) write evidence.
"""
from __future__ import annotations

import hashlib
import json
import os
import random
import re
import subprocess
import sys
import time
from concurrent.futures import ThreadPoolExecutor
from pathlib import Path
from typing import Any, Callable, Iterable

VERIF = Path(__file__).resolve().parent.parent  # location independent: works from any worktree of /verif
COQ = VERIF / "coq"
BUILD = VERIF / "build"
# The registered commands always run against /repo.  VERIF_REPO_ROOT lets the developer point the whole
# harness at another checkout (a scratch worktree with a seeded change) without touching /repo.
REPO = Path(os.environ.get("VERIF_REPO_ROOT", "/repo"))
PY = "/venv/bin/python"
ALLOWED_AXIOMS: set[str] = set()  # the development is meant to be closed; nothing allow-listed


# ------------------------------------------------------------------ Coq literal printers
def cstr(s: str | bytes) -> str:
    if isinstance(s, bytes):
        cps = list(s)
    else:
        cps = [ord(c) for c in s]
    return "[" + ";".join(str(c) for c in cps) + "]" if cps else "[]"


def cstr_t(s: str | bytes) -> str:
    """typed version, safe where the expected type cannot be inferred"""
    return f"({cstr(s)} : list N)"


def clist(items: Iterable[str]) -> str:
    items = list(items)
    return "[" + "; ".join(items) + "]" if items else "[]"


def cpair(*xs: str) -> str:
    return "(" + ", ".join(xs) + ")"


def copt(x: Any, f: Callable[[Any], str]) -> str:
    return "None" if x is None else f"(Some {f(x)})"


def cbool(b: bool) -> str:
    return "true" if b else "false"


def cN(n: int) -> str:
    assert n >= 0
    return str(n)


def cZ(n: int) -> str:
    return f"({n})%Z"


def cdict(d: dict[str, str] | list) -> str:
    items = d.items() if isinstance(d, dict) else d
    return clist(cpair(cstr(k), cstr(v)) for k, v in items)


# ------------------------------------------------------------------ running things
def sh(cmd: list[str] | str, timeout: int = 600, cwd: str | Path | None = None, env: dict | None = None,
       input: str | None = None) -> tuple[int, str]:
    try:
        p = subprocess.run(cmd, shell=isinstance(cmd, str), cwd=cwd, env=env, input=input,
                           stdout=subprocess.PIPE, stderr=subprocess.STDOUT, text=True, timeout=timeout)
        return p.returncode, p.stdout
    except subprocess.TimeoutExpired as e:
        out = e.stdout.decode() if isinstance(e.stdout, bytes) else (e.stdout or "")
        return 124, out + f"\n[timeout after {timeout}s]"


def repo_env(hashseed: str = "0") -> dict:
    env = dict(os.environ)
    env["PYTHONPATH"] = f"{REPO}/src:{VERIF}/harness"
    env["PYTHONHASHSEED"] = hashseed
    env["PYOPENAPI_GEN_VERIF"] = "1"
    env["PYTHONDONTWRITEBYTECODE"] = "1"
    return env


def parse_nums(out: str) -> list[int] | None:
    """Parse `     = [a; b; c]\n     : list N` (possibly wrapped) -> ints.  None if absent."""
    m = re.search(r"^\s*= (.*?)^\s*: ", out, re.S | re.M)
    if not m:
        return None
    return [int(x) for x in re.findall(r"\d+", m.group(1))]


class Check:
    def __init__(self, pid: str, tier: str, seed: int):
        self.pid, self.tier, self.seed = pid, tier, seed
        self.rng = random.Random(seed * 1000003 + int(pid[1:]))
        self.t0 = time.time()
        self.violations: list[dict] = []
        self.known_hits: dict[str, list] = {}
        self.broken: list[dict] = []  # proof obligations / correspondence relations that no longer check
        self.cov: dict[str, Any] = {"evaluations": 0, "distinct_nontrivial": 0, "samples": [],
                                    "traces_validated_against_impl": 0}
        self.assumptions: list[str] = []
        self.obligations = 0
        self.discharged = 0
        self.axioms: list[str] = []
        self.lines: list[str] = []
        self.known = load_known(pid)
        self.workdir = BUILD / "corr" / pid
        self.workdir.mkdir(parents=True, exist_ok=True)
        for f in self.workdir.glob("*"):
            if f.is_file():
                f.unlink()
        (VERIF / "replays" / pid).mkdir(parents=True, exist_ok=True)

    @property
    def thorough(self) -> bool:
        return self.tier == "thorough"

    def say(self, s: str) -> None:
        print(s, flush=True)

    # -------------------------------------------------------------- step 1+2: translate & prove
    def prove(self, extra_targets: list[str] | None = None) -> bool:
        """Regenerate Gen/*.v, build Properties/<pid>.vo and its dependency chain (full .vo build),
        capture Print Assumptions.  Returns True when every obligation is discharged."""
        import tables
        terrs: dict = {}
        tables.regenerate(terrs)
        ensure_makefile()
        # a translator plug-in that failed closed concerns this property only if its Gen file is among the
        # Coq dependencies of this property's files (otherwise another property's check reports it)
        deps = coq_dependencies([f"Properties/{self.pid}.vo", f"Corr/{self.pid}.vo"])
        for stem, msg in terrs.items():
            if deps is None or f"Gen/{stem}.vo" in deps or stem == f"T_{self.pid}":
                self.broken.append({"kind": "translator", "name": f"Gen/{stem}.v", "detail": msg})
                self.say(f"[{self.pid}] translator failed closed: {msg}")
            else:
                self.say(f"[{self.pid}] note: translator plug-in for Gen/{stem}.v failed closed (not a dependency of {self.pid}): {msg[:200]}")
        prop = f"Properties/{self.pid}.v"
        src = (COQ / prop).read_text()
        names = re.findall(r"^\s*(?:Theorem|Lemma|Example|Corollary)\s+(\w+)", src, re.M)
        self.obligations = len(names)
        targets = [f"Corr/{self.pid}.vo"] + (extra_targets or [])
        # model + correspondence driver first (they must build even if a proof is broken)
        rc, out = sh(["make", "-C", str(COQ), "-j16"] + targets, timeout=1500)
        self.model_ok = rc == 0
        if rc != 0:
            self.broken.append({"kind": "model-build", "name": f"Corr/{self.pid}.v", "detail": tail(out)})
            self.say(f"[{self.pid}] model build FAILED:\n{tail(out)}")
        # proofs: force recompilation of the (tiny) property file so that Print Assumptions is printed
        vo = COQ / f"Properties/{self.pid}.vo"
        if vo.exists():
            vo.unlink()
        rc, out = sh(["make", "-C", str(COQ), "-j16", f"Properties/{self.pid}.vo"], timeout=3000)
        closed = out.count("Closed under the global context")
        axioms = re.findall(r"^Axioms:\n((?:.+\n)+)", out, re.M)
        self.axioms = sorted({a.split(":")[0].strip() for blk in axioms for a in blk.splitlines()
                              if a and not a.startswith(" ")})
        bad_axioms = [a for a in self.axioms if a not in ALLOWED_AXIOMS]
        if rc != 0:
            m = re.search(r'File "\./([^"]+)", line (\d+)', out)
            where = f"{m.group(1)}:{m.group(2)}" if m else "?"
            failing = None
            if m:
                failing = enclosing_lemma(COQ / m.group(1), int(m.group(2)))
            self.broken.append({"kind": "proof", "name": failing or where, "where": where, "detail": tail(out)})
            self.say(f"[{self.pid}] proof obligation FAILED at {where} ({failing}):\n{tail(out)}")
            self.discharged = 0 if not m or m.group(1).startswith("Proofs/") else closed
            return False
        if bad_axioms or closed + len(axioms) < self.obligations:
            self.broken.append({"kind": "axioms", "name": ",".join(bad_axioms) or "Print Assumptions missing",
                                "detail": tail(out)})
            self.discharged = closed
            return False
        bad = forbidden_tokens()
        if bad:
            self.broken.append({"kind": "hygiene", "name": "; ".join(bad[:5]), "detail": "\n".join(bad)})
            self.say(f"[{self.pid}] forbidden declarations in the development: {bad[:5]}")
            self.discharged = 0
            return False
        self.discharged = self.obligations
        self.theorems = names
        if self.thorough and os.environ.get("VERIF_SKIP_COQCHK") != "1":
            # independent re-check of the compiled property file and everything it depends on
            rc, out = sh(f"ulimit -s unlimited; timeout 1500 coqchk -silent -o -Q {COQ} PG PG.Properties.{self.pid}",
                         timeout=1600, cwd=COQ)
            ax = re.search(r"\* Axioms:\s*(.*?)\n\s*\n", out + "\n\n", re.S)
            self.cov["coqchk"] = {"exit": rc, "axioms": (ax.group(1).strip() if ax else "?")[:2000]}
            if rc != 0:
                self.broken.append({"kind": "coqchk", "name": f"Properties/{self.pid}.vo", "detail": tail(out)})
                return False
        return True

    # -------------------------------------------------------------- step 3: model evaluation
    def coq_eval(self, imports: str, case_type: str, cases: list[str], run_fn: str,
                 shard: int = 300, prelude: str = "", tag: str = "cases") -> list[int] | None:
        """Evaluate `run_fn cases` with vm_compute in shards; return the concatenated list of numbers
        (one per case).  None if the model cannot be evaluated."""
        if not cases:
            return []
        files = []
        for i in range(0, len(cases), shard):
            chunk = cases[i:i + shard]
            f = self.workdir / f"{tag}_{i // shard}.v"
            body = ";\n  ".join(chunk)
            f.write_text(
                f"{imports}\nOpen Scope N_scope.\n{prelude}\n"
                f"Definition cases : list ({case_type}) := [\n  {body}\n].\n"
                f"Eval vm_compute in ({run_fn} cases).\n")
            files.append((f, len(chunk)))

        def one(fc):
            f, n = fc
            # generous limits and one retry: on a heavily loaded machine a shard that needs seconds of CPU can
            # take many minutes of wall time; a timeout here must not be mistaken for a property signal
            for attempt in (1, 2):
                rc, out = sh(f"ulimit -s unlimited; timeout 2700 coqc -Q {COQ} PG -w -notation-overridden {f}",
                             timeout=2800, cwd=self.workdir)
                nums = parse_nums(out) if rc == 0 else None
                if nums is not None and len(nums) == n:
                    return (f, nums, out)
                if rc not in (124, 137):
                    break
            return (f, None, out)

        res: list[int] = []
        with ThreadPoolExecutor(max_workers=12) as ex:
            for f, nums, out in ex.map(one, files):
                if nums is None:
                    self.model_eval_failed = True
                    self.broken.append({"kind": "model-eval", "name": str(f), "detail": tail(out)})
                    self.say(f"[{self.pid}] model evaluation failed for {f}:\n{tail(out)}")
                    return None
                res.extend(nums)
        return res

    # -------------------------------------------------------------- step 5: decide
    def decide(self, cases: list[dict], codes: list[int] | None, guard_findings: dict[int, str],
               relation: str) -> None:
        """cases[i] = {"input":…, "obs":…, "oracle_fail":[…]}.  codes[i] bit0 = model≠impl, bit k = guard k false.
        guard_findings maps guard index k -> finding id."""
        mism = []
        for i, c in enumerate(cases):
            code = codes[i] if codes is not None else None
            c["code"] = code
            failed = [k for k in guard_findings if code is not None and (code >> k) & 1]
            if code is not None and code & 1:
                mism.append(c)
            if c.get("oracle_fail"):
                listed = [guard_findings[k] for k in failed if guard_findings[k] in self.known]
                if code is not None and not (code & 1) and listed:
                    for fid in listed:
                        self.known_hits.setdefault(fid, []).append(c)
                elif code is None and self.known and getattr(self, "model_eval_failed", False):
                    # the model could not be evaluated in THIS run (coq_eval failed; reported separately as a broken
                    # obligation): an oracle failure cannot be told from a listed finding, so it is not presented as
                    # a new failing input.  A caller that passes codes=None on purpose (model-less stream) is not
                    # affected: there every oracle failure is a violation.
                    self.unattributed = getattr(self, "unattributed", 0) + 1
                else:
                    self.violation(c, "; ".join(c["oracle_fail"]))
        if mism:
            first = min(mism, key=lambda c: len(json.dumps(c["input"])))
            self.broken.append({"kind": "correspondence", "name": relation, "mismatches": len(mism),
                                "first": {"input": first["input"], "obs": first["obs"]}})
            self.say(f"[{self.pid}] correspondence '{relation}' broken on {len(mism)} case(s); "
                     f"smallest: {json.dumps(first['input'])[:400]} impl={json.dumps(first['obs'])[:300]}")
        self.cov["traces_validated_against_impl"] += len(cases) - len(mism) if codes is not None else 0

    def violation(self, case: dict, what: str) -> None:
        self.violations.append({"what": what, "input": case["input"], "obs": case.get("obs")})

    # -------------------------------------------------------------- step 6+7: report
    def finish(self, trusted_base: list[str], rule: str, explanation: str = "") -> int:
        rc = 0
        for fid, hits in sorted(self.known_hits.items()):
            self.say(f"KNOWN-FINDING: property={self.pid} {fid}: {self.known[fid]['what']} "
                     f"({len(hits)} case(s) this run)")
        seen = set()
        for v in sorted(self.violations, key=lambda v: len(json.dumps(v["input"], default=str))):
            key = v["what"]
            if key in seen:
                continue
            seen.add(key)
            path = self.write_replay({"property": self.pid, "kind": "failing-input", **v})
            self.say(f"VIOLATION property={self.pid} replay={path}")
            self.say(f"  what: {v['what']}\n  input: {json.dumps(v['input'], default=str)[:600]}")
            rc = 1
            if len(seen) >= 5:
                break
        if self.broken and not self.violations:
            path = self.write_replay({"property": self.pid, "kind": "unchecked-obligation",
                                      "no_longer_checks": self.broken})
            names = ", ".join(f"{b['kind']}:{b['name']}" for b in self.broken)
            self.say(f"  no longer checks: {names}")
            self.say(f"VIOLATION property={self.pid} replay={path} no-failing-input-found")
            rc = 1
        self.cov.update({
            "obligations": self.obligations, "discharged": self.discharged,
            "checker_cmd": f"make -C coq Properties/{self.pid}.vo (coqc 8.16.1, full .vo) + Print Assumptions",
            "trusted_base": trusted_base, "rule": rule, "axioms_reported": self.axioms,
            "known_findings_reproduced": sorted(self.known_hits),
            "broken": [f"{b['kind']}:{b['name']}" for b in self.broken],
        })
        if explanation:
            self.cov["explanation"] = explanation
        ev = {"property_id": self.pid, "tier": self.tier, "seed": self.seed, "level": "proof",
              "coverage": self.cov, "assumptions": self.assumptions,
              "wall_s": round(time.time() - self.t0, 2), "violations": len(self.violations)}
        (VERIF / "evidence").mkdir(exist_ok=True)
        (VERIF / "evidence" / f"{self.pid}.json").write_text(json.dumps(ev, indent=1, default=str) + "\n")
        self.say(f"[{self.pid}] tier={self.tier} seed={self.seed} obligations={self.discharged}/{self.obligations} "
                 f"evaluations={self.cov['evaluations']} validated={self.cov['traces_validated_against_impl']} "
                 f"violations={len(self.violations)} wall={ev['wall_s']}s -> exit {rc}")
        return rc

    def write_replay(self, obj: dict) -> str:
        blob = json.dumps(obj, indent=1, sort_keys=True, default=str)
        h = hashlib.sha256(blob.encode()).hexdigest()[:12]
        p = VERIF / "replays" / self.pid / f"{h}.json"
        p.write_text(blob + "\n")
        return str(p.relative_to(VERIF))

    def sample(self, x: Any, limit: int = 4) -> None:
        if len(self.cov["samples"]) < limit:
            self.cov["samples"].append(x)


def load_known(pid: str) -> dict[str, dict]:
    """open findings of one property from known_findings/<pid>.json (committed, never written at run time)"""
    f = VERIF / "known_findings" / f"{pid}.json"
    if not f.exists():
        return {}
    kf = json.loads(f.read_text())
    return {x["id"]: x for x in kf.get("findings", []) if x.get("status") == "open"}


FORBIDDEN = re.compile(r"\b(Admitted|admit|Axiom|Axioms|Parameter|Parameters|Conjecture|Abort All|"
                       r"Unset Guard Checking|Unset Positivity Checking|Unset Universe Checking|bypass_check|"
                       r"Admit Obligations|Program Fixpoint|Program Definition|funelim|give_up)\b")


def strip_comments(src: str) -> str:
    out, depth, i = [], 0, 0
    while i < len(src):
        if src.startswith("(*", i):
            depth += 1
            i += 2
        elif src.startswith("*)", i) and depth:
            depth -= 1
            i += 2
        else:
            if depth == 0:
                out.append(src[i])
            i += 1
    return "".join(out)


def forbidden_tokens() -> list[str]:
    """No axioms, no admits, no switched-off kernel checks anywhere in the development
    (Variable/Hypothesis are only tolerated inside a Section; that is checked per file)."""
    bad = []
    for d in ("Lib", "Gen", "Corr", "Model", "Proofs", "Properties"):
        for f in sorted((COQ / d).glob("*.v")):
            code = strip_comments(f.read_text())
            for m in FORBIDDEN.finditer(code):
                bad.append(f"{f.relative_to(COQ)}: {m.group(1)}")
            depth = 0
            for line in code.splitlines():
                t = line.strip()
                if re.match(r"Section\s+\w+", t):
                    depth += 1
                elif re.match(r"End\s+\w+\s*\.", t) and depth:
                    depth -= 1
                elif depth == 0 and re.match(r"(Variables?|Hypothes[ie]s|Context)\b", t):
                    bad.append(f"{f.relative_to(COQ)}: {t.split()[0]} outside a Section")
    return bad


def tail(s: str, n: int = 25) -> str:
    return "\n".join(s.strip().splitlines()[-n:])


def enclosing_lemma(path: Path, line: int) -> str | None:
    try:
        lines = path.read_text().splitlines()[:line]
    except OSError:
        return None
    for l in reversed(lines):
        m = re.match(r"\s*(?:Theorem|Lemma|Example|Corollary|Definition|Fixpoint)\s+(\w+)", l)
        if m:
            return f"{path.relative_to(COQ)}:{m.group(1)}"
    return None


def coq_dependencies(targets: list[str]) -> set[str] | None:
    """transitive .vo dependencies of the given targets, from coq_makefile's dependency file (None if unavailable)"""
    dep = COQ / ".Makefile.d"
    rc, _ = sh(["make", "-C", str(COQ), ".Makefile.d"], timeout=300)
    if not dep.exists():
        return None
    graph: dict[str, set[str]] = {}
    for line in dep.read_text().splitlines():
        if ":" not in line:
            continue
        lhs, rhs = line.split(":", 1)
        outs = [x for x in lhs.split() if x.endswith(".vo")]
        ins = {x for x in rhs.split() if x.endswith(".vo")}
        for o in outs:
            graph.setdefault(o, set()).update(ins)
    seen: set[str] = set()
    todo = list(targets)
    while todo:
        t = todo.pop()
        if t in seen:
            continue
        seen.add(t)
        todo.extend(graph.get(t, ()))
    return seen


def ensure_makefile() -> None:
    """_CoqProject is generated from the .v files present (so adding a file needs no shared edit)."""
    files = sorted(str(p.relative_to(COQ)) for d in ("Gen", "Lib", "Corr", "Model", "Proofs", "Properties")
                   for p in (COQ / d).glob("*.v"))
    text = ("-Q . PG\n-arg -w -arg -notation-overridden,-deprecated-hint-without-locality,"
            "-deprecated-instance-without-locality\n" + "\n".join(files) + "\n")
    cp = COQ / "_CoqProject"
    mk = COQ / "Makefile"
    if not cp.exists() or cp.read_text() != text or not mk.exists():
        cp.write_text(text)
        rc, out = sh(["coq_makefile", "-f", "_CoqProject", "-o", "Makefile"], cwd=COQ)
        if rc != 0:
            raise RuntimeError(out)


if __name__ == "__main__":
    ensure_makefile()


def load_corpus(pid: str) -> list[dict]:
    d = VERIF / "corpus" / pid
    out = []
    if d.is_dir():
        for f in sorted(d.glob("*.json")):
            out.append(json.loads(f.read_text()))
    return out
