"""C01 — every accepted spec yields a package that compiles and imports.

Oracle (from the property text, independent of the Coq model): for every generation that returns without error
  * compile() of every emitted .py file;
  * every module of the emitted package (and of a separate core package) — enumerated from the emitted files AND by
    pkgutil.walk_packages — imports in a fresh package state of an interpreter in which pyopenapi_gen is blocked and
    PYTHONPATH is empty;
  * every name in a generated `__all__` resolves with getattr.
Model side: an `ast` EXTRACTOR reduces every emitted file to a module skeleton (Model/PyImport.v `pymod`);
`exec_mod` (CPython's import semantics in Gallina) is evaluated on the skeleton for every module and compared with the
real outcome class of importing that module; the conjuncts of `pkg_ok` are evaluated on the same skeleton.
A failure is attributed to a listed finding only through (root cause signature) x (failing pkg_ok conjunct) x
(the finding's executable guard on the document / layout); anything else is a VIOLATION.
"""
from __future__ import annotations

import ast
import importlib.util
import json
import re
import sys
from concurrent.futures import ThreadPoolExecutor
from pathlib import Path
from typing import Any

import pipeline
from framework import Check, cN, clist, cstr, load_corpus

TRUSTED = [
    "Coq 8.16.1 kernel + vm_compute (witness theorems, correspondence evaluation)",
    "hand-written Gallina model coq/Model/PyImport.v of CPython's import-time behaviour (sys.modules with partially "
    "initialised modules, parents first, from-import of unbound names, value-before-annotation binding, `|` on str/None, "
    "__all__), validated on every run against real imports of every module of every generated package",
    "the ast extractor in harness/prop_C01.py (emitted file -> skeleton); an extraction error shows up as a correspondence "
    "mismatch",
    "Python SYNTAX validity is not modelled: it is decided only by compile() in the oracle (the model sees a file that does "
    "not compile as the statement `Broken`)",
    "external modules (stdlib, httpx, cattrs) are assumed importable and to export the names imported from them",
    "translator harness/tables_C01.py: dir(builtins) of the interpreter",
]

ERR_CODE = {"ImportError": 1, "ModuleNotFoundError": 2, "NameError": 3, "TypeError": 4, "SyntaxError": 5,
            "IndentationError": 5, "AttributeError": 6, "ExportError": 6, "ValueError": 8}


# ---------------------------------------------------------------- structured document generator
def J(schema: dict) -> dict:
    return {"application/json": {"schema": schema}}


def R(n: str) -> dict:
    return {"$ref": "#/components/schemas/" + n}


NAMES = ["User", "Pet", "Order", "Item", "Tag", "Group", "Event", "Shape", "Circle", "Square", "Address", "Account",
         "Invoice", "Line", "Owner", "Team"]
PROPS = ["date", "id", "name", "title", "count", "price", "active", "created_at", "updated", "kind", "note", "score", "email",
         "items", "labels", "meta", "owner", "parent", "children", "tags", "amount"]
FORMATS = [("string", None), ("string", "date-time"), ("string", "date"), ("string", "uuid"), ("string", "byte"),
           ("integer", None), ("integer", "int64"), ("number", None), ("number", "double"), ("boolean", None),
           ("string", "binary"), ("string", "email")]


class Gen:
    """cycles=False keeps the reference graph a DAG with self-loops only inside arrays (the shapes that import today);
    cycles=True also draws back edges / optional self references (findings F01a/F01b)."""

    def __init__(self, rng, cycles: bool = False, hazards: bool = False, extra=None):
        self.rng, self.cycles, self.hazards = rng, cycles, hazards
        # separate stream for the name-collision families and the multi-spelling tags, so that adding such shapes
        # does not shift the documents drawn from the main stream
        self.extra = extra
        self.inline_names: set[str] = set()   # property names already used for an inline object (F01i hazard)

    def prim(self) -> dict:
        t, f = self.rng.choice(FORMATS if self.hazards else [x for x in FORMATS if x[1] != "binary"])
        d: dict[str, Any] = {"type": t}
        if f:
            d["format"] = f
        if self.rng.random() < 0.15:
            d["nullable"] = True
        return d

    def schema_ref_or_inline(self, names: list[str], i: int, depth: int = 0) -> dict:
        """a property schema for declared schema number i (may reference only LATER schemas unless cycles)"""
        rng = self.rng
        r = rng.random()
        later = names[i + 1:]
        pool = names if self.cycles else later
        if r < 0.30 and pool:
            return R(rng.choice(pool))
        if r < 0.42 and pool:
            return {"type": "array", "items": R(rng.choice(pool))}
        if r < 0.47 and not self.cycles and (depth == 0 or self.hazards):
            # self reference inside an array: imports fine at the top level of a declared schema; inside a nested
            # inline object (promoted to its own module) it is a two-module import cycle (F01a)
            return {"type": "array", "items": R(names[i])}
        if r < 0.52:
            return {"type": "array", "items": self.prim()}
        if r < 0.58:
            return {"type": "object", "additionalProperties": self.prim() if rng.random() < 0.6 else True}
        if r < 0.62 and pool:
            return {"type": "object", "additionalProperties": R(rng.choice(pool))}
        if r < 0.68 and depth < 2:
            inner = {}
            for _ in range(rng.randint(1, 3)):
                pn = rng.choice(PROPS)
                ps = self.schema_ref_or_inline(names, i, depth + 1)
                if not self.hazards and promotable(ps):
                    if pn in self.inline_names or norm(pn) in {norm(x) for x in names}:
                        ps = self.prim()
                    else:
                        self.inline_names.add(pn)
                inner[pn] = ps
            return {"type": "object", "properties": inner}
        if r < 0.73:
            return {"type": "string", "enum": rng.sample(["a", "b", "c", "d-e", "f g", "H"], rng.randint(1, 4))}
        if r < 0.77 and len(pool) >= 2:
            return {rng.choice(["oneOf", "anyOf"]): [R(x) for x in rng.sample(pool, 2)]}
        if r < 0.80:
            return {"oneOf": [{"type": "string"}, {"type": "integer"}]}
        return self.prim()

    def object_schema(self, names: list[str], i: int) -> dict:
        rng = self.rng
        props = {}
        # a property called like its own schema (Owner.owner) makes the generator quote it as a self reference (F01b)
        pool = list(PROPS)      # includes Owner.owner-like names (F01b shape, fixed) and `date` (F01c shape, fixed)
        for p in rng.sample(pool, rng.randint(1, 6)):
            ps = self.schema_ref_or_inline(names, i)
            if not self.hazards and promotable(ps):
                if p in self.inline_names or norm(p) in {norm(x) for x in names}:
                    ps = self.prim()
                else:
                    self.inline_names.add(p)
            props[p] = ps
        d: dict[str, Any] = {"type": "object", "properties": props}
        req = [p for p in props if rng.random() < 0.4]
        if req:
            d["required"] = req
        if rng.random() < 0.2:
            d["description"] = "A thing."
        return d

    def schemas(self) -> dict:
        rng = self.rng
        names = rng.sample(NAMES, rng.randint(1, 7))
        out: dict[str, Any] = {}
        for i, n in enumerate(names):
            r = rng.random()
            later = names[i + 1:]
            if r < 0.62:
                out[n] = self.object_schema(names, i)
            elif r < 0.70:
                out[n] = {"type": "string", "enum": rng.sample(["x", "y", "z", "w-1", "v v"], rng.randint(1, 4))}
            elif r < 0.74:
                out[n] = {"type": "integer", "enum": rng.sample([0, 1, 2, 5, 10], rng.randint(1, 3))}
            elif r < 0.80 and later:
                out[n] = {"allOf": [R(rng.choice(later)), self.object_schema(names, i)]}
            elif r < 0.86 and len(later) >= 2:
                two = rng.sample(later, 2)
                d: dict[str, Any] = {"oneOf": [R(x) for x in two]}
                if rng.random() < 0.5:
                    d["discriminator"] = {"propertyName": "disc", "mapping": {x.lower(): "#/components/schemas/" + x for x in two}}
                out[n] = d
            elif r < 0.90 and later:
                out[n] = {"type": "array", "items": R(rng.choice(later))}
            elif r < 0.94:
                out[n] = {"type": "object", "additionalProperties": R(rng.choice(later)) if later and rng.random() < 0.5 else True}
            elif r < 0.97:
                out[n] = self.prim()
            else:
                out[n] = self.object_schema(names, i)
        # name-collision families: two names that sanitise to the same module stem plus names whose NATURAL stem is
        # the suffixed one (Item / item / Item2 / Item_2): the de-collision must probe the stems already handed out
        if self.extra is not None and self.extra.random() < 0.3:
            rng = self.extra
            base = rng.choice(["Item", "Foo-Bar", "User", "Thing", "Data_Set"])
            variants = {"Item": ["item", "Item2", "Item_2", "ITEM"], "Foo-Bar": ["FooBar", "FooBar2", "foo_bar", "Foo_Bar_2"],
                        "User": ["user", "user_2", "User2"], "Thing": ["thing", "Thing2", "thing_2", "Thing_2_2"],
                        "Data_Set": ["DataSet", "dataSet", "DataSet2", "data_set_2"]}[base]
            fam = [base] + rng.sample(variants, rng.randint(2, len(variants)))
            fam = [f for f in fam if f not in out]
            for k, f in enumerate(fam):
                out[f] = {"type": "object", "properties": {f"p{k}": {"type": "string"}}}
            out["Holder" if "Holder" not in out else "Holder9"] = {"type": "object", "properties": {f"f{k}": R(f) for k, f in enumerate(fam)}}
        return out

    def body_or_resp_schema(self, names: list[str]) -> dict:
        rng = self.rng
        r = rng.random()
        if names and r < 0.55:
            return R(rng.choice(names))
        if names and r < 0.70:
            return {"type": "array", "items": R(rng.choice(names))}
        if r < 0.80:
            return {"type": "object", "properties": {"data": {"type": "array", "items": R(rng.choice(names)) if names else {"type": "string"}},
                                                     "total": {"type": "integer"}}}
        if r < 0.88:
            return {"type": "object", "additionalProperties": True}
        return self.prim()

    def operation(self, names: list[str], opid: str, path_params: list[str]) -> dict:
        rng = self.rng
        params = [{"name": p, "in": "path", "required": True, "schema": {"type": rng.choice(["string", "integer"])}} for p in path_params]
        used = set(path_params)
        for _ in range(rng.randint(0, 3)):
            loc = rng.choice(["query", "query", "header", "cookie"])
            nm = rng.choice(["limit", "offset", "q", "sort", "X-Trace", "X-Req-Id", "since", "flag", "ids", "session"])
            if nm in used:
                continue
            used.add(nm)
            sch = {"type": "array", "items": {"type": "string"}} if nm == "ids" else self.prim()
            params.append({"name": nm, "in": loc, "required": rng.random() < 0.3, "schema": sch})
        op: dict[str, Any] = {"operationId": opid, "parameters": params}
        if rng.random() < 0.7:
            op["tags"] = [rng.choice(["Users", "Pets", "Orders", "Admin", "Files"])]
        r = rng.random()
        if r < 0.35:
            op["requestBody"] = {"required": rng.random() < 0.7, "content": J(self.body_or_resp_schema(names))}
        elif r < 0.42:
            op["requestBody"] = {"content": {"multipart/form-data": {"schema": {"type": "object", "properties": {
                "file": {"type": "string", "format": "binary"}, "note": {"type": "string"}}}}}}
        elif r < 0.46:
            op["requestBody"] = {"content": {"application/x-www-form-urlencoded": {"schema": {"type": "object", "properties": {"a": {"type": "string"}}}}}}
        resp: dict[str, Any] = {}
        r = rng.random()
        if r < 0.15:
            resp["204"] = {"description": "none"}
        elif r < 0.22:
            resp["200"] = {"description": "text", "content": {"text/plain": {"schema": {"type": "string"}}}}
        elif r < 0.27:
            resp["200"] = {"description": "bytes", "content": {"application/octet-stream": {"schema": {"type": "string", "format": "binary"}}}}
        elif r < 0.32:
            resp["200"] = {"description": "sse", "content": {"text/event-stream": {"schema": self.body_or_resp_schema(names)}}}
        else:
            resp[rng.choice(["200", "200", "201"])] = {"description": "ok", "content": J(self.body_or_resp_schema(names))}
        streaming = any(is_streaming(ct, mt) for v in resp.values() for ct, mt in v.get("content", {}).items())
        if rng.random() < 0.3:   # also for streaming operations (F01g shape, fixed)
            resp["201" if "201" not in resp else "202"] = {"description": "alt", "content": J(self.body_or_resp_schema(names))}
        for code in rng.sample(["400", "401", "403", "404", "409", "422", "429", "500", "503"], rng.randint(0, 3)):
            resp[code] = {"description": "err"} if rng.random() < 0.6 or (streaming and not self.hazards) else {"description": "err", "content": J(self.body_or_resp_schema(names))}
        if rng.random() < 0.15:
            resp["default"] = {"description": "other"}
        op["responses"] = resp
        return op

    def document(self) -> dict:
        rng = self.rng
        schemas = self.schemas()
        names = list(schemas)
        paths: dict[str, Any] = {}
        n_ops = rng.randint(1, 5)
        k = 0
        segs = ["users", "pets", "orders", "items", "files", "admin"]
        while k < n_ops:
            seg = rng.choice(segs)
            with_id = rng.random() < 0.5
            path = f"/{seg}" + ("/{" + seg[:-1] + "_id}" if with_id else "") + (f"/{rng.choice(segs)}" if rng.random() < 0.2 else "")
            item = paths.setdefault(path, {})
            m = rng.choice(["get", "post", "put", "delete", "patch"])
            if m in item:
                continue
            item[m] = self.operation(names, f"{m}{seg.capitalize()}{'ById' if with_id else ''}{k}", [seg[:-1] + "_id"] if with_id else [])
            k += 1
        # a path-template variable that is NOT declared under `parameters` (the generator adds the argument itself)
        # next to an optional parameter: the added required argument must not land behind defaulted ones
        if self.extra is not None and self.extra.random() < 0.4:
            cands = [(pth, op) for pth, item in paths.items() if "{" in pth for op in item.values()]
            if cands:
                pth, op = self.extra.choice(cands)
                op["parameters"] = [q for q in op["parameters"] if q.get("in") != "path"]
                if not any(not q.get("required") for q in op["parameters"]):
                    op["parameters"].append({"name": "page_size", "in": "query", "required": False, "schema": {"type": "integer"}})
        # one tag spelled in two ways that normalise to the same key but give different module / argument names
        # (datasources vs DataSources), used by unequal numbers of operations: every emitter must pick the same spelling
        all_ops = [op for item in paths.values() for op in item.values()]
        if self.extra is not None and len(all_ops) >= 3 and self.extra.random() < 0.5:
            rng = self.extra
            low, camel = rng.choice(SPELLINGS)
            major, minor = (low, camel) if rng.random() < 0.5 else (camel, low)
            chosen = rng.sample(all_ops, 3 if len(all_ops) < 4 or rng.random() < 0.6 else 4)
            for k, op in enumerate(chosen):
                op["tags"] = [minor if k == 0 else major]
        return pipeline.base_spec(paths=paths, schemas=schemas)


SPELLINGS = [("datasources", "DataSources"), ("useritems", "UserItems"), ("petstore", "PetStore"), ("apikeys", "ApiKeys")]

LAYOUTS = [("client", None), ("a.client", None), ("a.b.client", None), ("client", "core"), ("a.client", "shared.core"),
           ("a.b.client", "a.b.core"), ("a.b.client", "a.rt.core")]
NAMING = [None, "operationId", "clean", "path"]


# ---------------------------------------------------------------- known findings: witnesses and executable guards
def _w(paths: dict, schemas: dict | None = None) -> dict:
    return pipeline.base_spec(paths=paths, schemas=schemas)


def _op(resp_schema: dict | None = None, **kw: Any) -> dict:
    d: dict[str, Any] = {"operationId": "getIt", "responses": {"200": {"description": "ok", **({"content": J(resp_schema)} if resp_schema else {})}}}
    d.update(kw)
    return d


def ops_of(doc: dict):
    for p, item in (doc.get("paths") or {}).items():
        if isinstance(item, dict):
            for m, op in item.items():
                if m in ("get", "put", "post", "delete", "options", "head", "patch", "trace") and isinstance(op, dict):
                    yield p, item, m, op


def refs_in(x: Any):
    if isinstance(x, dict):
        if isinstance(x.get("$ref"), str):
            yield x["$ref"].rsplit("/", 1)[-1]
        for v in x.values():
            yield from refs_in(v)
    elif isinstance(x, list):
        for v in x:
            yield from refs_in(v)


def guard_no_ops(doc: dict, layout: tuple) -> bool:          # F01e
    return not any(True for _ in ops_of(doc))


def nested_self_refs(name: str, s: Any, depth: int = 0):
    """$refs to `name` that sit inside a promotable inline property schema of `name` (an inline object / map / union
    below a property becomes a module of its own, so the self reference is a two-module cycle)"""
    if isinstance(s, dict):
        for k, v in s.items():
            if k == "properties" and isinstance(v, dict):
                for ps in v.values():
                    if promotable(ps) and any(r == name for r in refs_in(ps)):
                        yield True
                    yield from nested_self_refs(name, ps, depth + 1)
            elif isinstance(v, (dict, list)):
                yield from nested_self_refs(name, v, depth)
    elif isinstance(s, list):
        for v in s:
            yield from nested_self_refs(name, v, depth)


def guard_ref_cycle(doc: dict, layout: tuple, plain_self_loops: bool = False) -> bool:
    """F01a: a reference cycle through >= 2 modules: >= 2 declared schemas, or a schema and one of its own promoted
    inline objects"""
    sch = (doc.get("components") or {}).get("schemas") or {}
    g = {n: {r for r in refs_in(s) if r in sch and (r != n or plain_self_loops or any(nested_self_refs(n, s)))}
         for n, s in sch.items()}
    if any(n in g[n] for n in g):
        return True
    color: dict[str, int] = {}

    def dfs(u: str) -> bool:
        color[u] = 1
        for v in g[u]:
            if color.get(v) == 1 or (v not in color and dfs(v)):
                return True
        color[u] = 2
        return False
    return any(n not in color and dfs(n) for n in g)


def guard_any_cycle(doc: dict, layout: tuple) -> bool:        # F01h: any reference cycle, plain self references included
    return guard_ref_cycle(doc, layout, plain_self_loops=True)


def guard_direct_self_ref(doc: dict, layout: tuple) -> bool:
    """F01b: a schema reachable from itself (the resolver then emits a quoted forward reference), or a property
    called like its own schema (Owner.owner), which the generator also takes for a self reference"""
    if guard_any_cycle(doc, layout):
        return True
    sch = (doc.get("components") or {}).get("schemas") or {}
    for n, s in sch.items():
        for sub in ([s] + [x for x in (s.get("allOf") or []) if isinstance(x, dict)]) if isinstance(s, dict) else []:
            for p in (sub.get("properties") or {}):
                if re.sub(r"[^a-z0-9]", "", str(p).lower()) == re.sub(r"[^a-z0-9]", "", str(n).lower()):
                    return True
    return False


def promotable(ps: Any) -> bool:
    """an inline property schema that the generator turns into a named module of its own"""
    if not isinstance(ps, dict) or "$ref" in ps:
        return False
    if ps.get("type") == "object" or "enum" in ps or "oneOf" in ps or "anyOf" in ps or "allOf" in ps:
        return True
    return ps.get("type") == "array" and promotable(ps.get("items"))


def inline_object_props(s: Any):
    """names of properties whose schema is an inline object (these are promoted to modules of their own)"""
    if isinstance(s, dict):
        for k, v in s.items():
            if k == "properties" and isinstance(v, dict):
                for pn, ps in v.items():
                    if promotable(ps):
                        yield pn
                    yield from inline_object_props(ps)
            elif isinstance(v, (dict, list)):
                yield from inline_object_props(v)
    elif isinstance(s, list):
        for v in s:
            yield from inline_object_props(v)


def norm(n: str) -> str:
    return re.sub(r"[^a-z0-9]", "", str(n).lower())


def guard_inline_name_collision(doc: dict, layout: tuple) -> bool:
    """F01i: two promoted inline property schemas with the same property name, or one named like a declared schema
    (Square.name.owner next to a declared Owner)"""
    sch = (doc.get("components") or {}).get("schemas") or {}
    names = list(inline_object_props(sch))
    declared = {norm(n) for n in sch}
    return len(names) != len(set(names)) or any(norm(p) in declared for p in names)


def guard_discriminator_ref_property(doc: dict, layout: tuple) -> bool:
    """F01j: a discriminated union one of whose variants declares the discriminator property as a $ref"""
    sch = (doc.get("components") or {}).get("schemas") or {}
    for s in sch.values():
        disc = s.get("discriminator") if isinstance(s, dict) else None
        if not isinstance(disc, dict):
            continue
        for v in (s.get("oneOf") or []) + (s.get("anyOf") or []):
            tgt = sch.get(v.get("$ref", "").rsplit("/", 1)[-1]) if isinstance(v, dict) else None
            ps = ((tgt or {}).get("properties") or {}).get(disc.get("propertyName"))
            if isinstance(ps, dict) and "$ref" in ps:
                return True
    return False


def guard_sunder_enum_value(doc: dict, layout: tuple) -> bool:
    """F20e: an enum value that starts and ends with a single underscore (member name _X_)"""
    def vals(x: Any):
        if isinstance(x, dict):
            if isinstance(x.get("enum"), list):
                yield from x["enum"]
            for v in x.values():
                yield from vals(v)
        elif isinstance(x, list):
            for v in x:
                yield from vals(v)
    return any(isinstance(v, str) and re.fullmatch(r"_[^_](.*[^_])?_", v) for v in vals(doc))


STREAMING = ("application/octet-stream", "text/event-stream", "application/x-ndjson")


def is_streaming(ct: str, media: Any, doc: dict | None = None) -> bool:
    sch = media.get("schema") if isinstance(media, dict) else None
    declared = ((doc or {}).get("components") or {}).get("schemas") or {}
    for _ in range(5):     # follow $ref / array items to a declared binary string
        if isinstance(sch, dict) and isinstance(sch.get("$ref"), str):
            sch = declared.get(sch["$ref"].rsplit("/", 1)[-1])
        elif isinstance(sch, dict) and sch.get("type") == "array":
            sch = sch.get("items")
        else:
            break
    return ct in STREAMING or (isinstance(sch, dict) and sch.get("format") == "binary")


def guard_stream_plus_body(doc: dict, layout: tuple) -> bool:   # F01g
    """an operation with a streaming response and, besides it, a response with a non-streaming body or another 2xx
    response (even one without a body: `return None` in an async generator is a SyntaxError too)"""
    for _, _, _, op in ops_of(doc):
        resp = {str(c): r for c, r in (op.get("responses") or {}).items() if isinstance(r, dict)}
        kinds = [is_streaming(ct, mt, doc) for r in resp.values() for ct, mt in (r.get("content") or {}).items()]
        if any(kinds) and (not all(kinds) or sum(1 for c in resp if c.startswith("2")) >= 2):
            return True
    return False


SHADOW_NAMES = {"date", "datetime", "time", "timedelta", "UUID", "field", "dataclass", "Any", "List", "Dict", "Union",
                "Optional", "Literal", "ClassVar", "IPv4Address", "IPv6Address"}


def guard_shadowing_property(doc: dict, layout: tuple) -> bool:   # F01c
    def props(s: Any):
        if isinstance(s, dict):
            for p in (s.get("properties") or {}):
                yield p
            for v in s.values():
                if isinstance(v, (dict, list)):
                    yield from props(v)
        elif isinstance(s, list):
            for v in s:
                yield from props(v)
    return any(p in SHADOW_NAMES for p in props(doc))


def guard_non_error_status(doc: dict, layout: tuple) -> bool:   # F06d: a declared 1xx/3xx response
    for _, _, _, op in ops_of(doc):
        for code in (op.get("responses") or {}):
            if re.fullmatch(r"[13]\d\d", str(code)):
                return True
    return False


def snake(t: str) -> str:
    """the argument / module name a tag turns into: camel humps and separators become underscores"""
    t = re.sub(r"(?<=[a-z0-9])(?=[A-Z])", "_", t)
    return re.sub(r"_+", "_", re.sub(r"[^A-Za-z0-9]", "_", t)).strip("_").lower()


def guard_case_variant_tags(doc: dict, layout: tuple) -> bool:
    """F13b: two different spellings of a tag that collapse to ONE mock argument name (Users/users,
    data-sources/DataSources).  Spellings that stay distinct (datasources/DataSources) are NOT covered."""
    tags = {t for _, _, _, op in ops_of(doc) for t in (op.get("tags") or []) if isinstance(t, str)}
    seen: dict[str, set] = {}
    for t in tags:
        seen.setdefault(snake(t), set()).add(t)
    return any(len(v) > 1 for v in seen.values())


def guard_keyword_schema_name(doc: dict, layout: tuple) -> bool:   # F20a
    sch = (doc.get("components") or {}).get("schemas") or {}
    return any(re.sub(r"[^a-z]", "", str(n).lower()) in ("none", "true", "false") for n in sch)


def guard_duplicate_param(doc: dict, layout: tuple) -> bool:   # F04c
    for _, item, _, op in ops_of(doc):
        names = [p.get("name") for p in (item.get("parameters") or []) + (op.get("parameters") or []) if isinstance(p, dict)]
        if len(names) != len(set(names)):
            return True
    return False


COMMON_STDLIB = {"typing", "os", "sys", "re", "json", "collections", "datetime", "enum", "pathlib", "abc", "contextlib",
                 "functools", "itertools", "logging", "math", "decimal", "dataclasses", "asyncio", "tempfile", "subprocess",
                 "textwrap", "uuid", "ipaddress", "httpx"}


def guard_repair_layout(doc: dict, layout: tuple) -> bool:   # F01f: add_import's prefix repair fires on a real module
    pkg, core = layout
    parts = pkg.split(".")
    if len(parts) < 2:
        return False
    tail = parts[1:]
    coreparts = (core or pkg + ".core").split(".")
    if coreparts[:len(tail)] == tail:                     # core imports get the package's first component prepended
        return True
    if len(tail) == 1 and tail[0] in COMMON_STDLIB:        # "x.collections": stdlib `collections.abc` is rewritten
        return True
    return parts[:len(tail)] == tail                      # "dup.dup": the package's own modules are rewritten


# finding id -> (root-cause predicate on (error class, message, file), index of the pkg_ok conjunct that must be false,
#                executable guard on (document, layout))
# conjunct indices (Coq bit = index+1): 0 c_parses, 1 c_closed, 2 c_acyclic, 3 c_no_str_or, 4 c_no_shadow,
#                                       5 c_no_ancestor_names, 6 c_paths, 7 c_static
# fixed in /repo (their corpus witnesses stay and must now import cleanly): F01e 0981866, F20a 4164990;
# fix wave: F01b 270aa99, F01c a43f53c, F01g 7041aaa, F01f f12b1ce, F06d 133c12b, F13b aad1e7d, F04c bd888c2
FINDINGS: dict[str, tuple] = {
    "F01a": (lambda c, m, f: c == "ImportError" and "partially initialized module" in m and "/models/" in m, 2, guard_ref_cycle),
    "F01i": (lambda c, m, f: c == "ImportError" and "partially initialized module" in m and "/models/" in m, 2, guard_inline_name_collision),
    "F01j": (lambda c, m, f: c == "ModuleNotFoundError" and re.search(r"No module named '[\w.]*\.models\.\w+'", m) is not None and "/models/" in f, 1, guard_discriminator_ref_property),
    "F20e": (lambda c, m, f: c == "ValueError" and "_sunder_ names" in m, 7, guard_sunder_enum_value),
    "F01h": (lambda c, m, f: c == "ModuleNotFoundError" and re.search(r"No module named '[\w.]*\.models\.\w+'", m) is not None and "/models/" in f, 1, guard_any_cycle),
}
FID_BIT = {fid: i + 1 for i, fid in enumerate(FINDINGS)}   # bit in the code handed to chk.decide

F01I_DOC = json.loads('{"openapi": "3.0.3", "info": {"title": "T", "version": "1.0"}, "paths": {"/a": {"get": {"operationId": "getIt", "responses": {"200": {"description": "ok", "content": {"application/json": {"schema": {"$ref": "#/components/schemas/Pet"}}}}}}}}, "components": {"schemas": {"Item": {"allOf": [{"$ref": "#/components/schemas/Invoice"}, {"type": "object", "properties": {"title": {"type": "object", "additionalProperties": true}, "created_at": {"anyOf": [{"$ref": "#/components/schemas/Owner"}, {"$ref": "#/components/schemas/Invoice"}]}, "score": {"type": "string", "format": "date-time", "nullable": true}, "amount": {"type": "string", "format": "date"}, "parent": {"type": "object", "additionalProperties": {"$ref": "#/components/schemas/Owner"}}, "id": {"type": "number", "format": "double", "nullable": true}}, "required": ["created_at", "score", "amount"]}]}, "Owner": {"type": "object", "properties": {"parent": {"type": "object", "properties": {"updated": {"type": "number"}}}}, "description": "A thing."}, "Invoice": {"type": "string", "enum": ["v"]}}}}')

WITNESSES: dict[str, tuple[dict, tuple]] = {
    "F20e": (_w({"/a": {"get": _op(R("E"))}}, {"E": {"type": "string", "enum": ["_a_", "b"]}}), ("client", None)),
    "F01i": (F01I_DOC, ("client", None)),
    "F01a": (_w({"/a": {"get": _op(R("A"))}}, {"A": {"type": "object", "properties": {"b": R("B")}},
                                              "B": {"type": "object", "properties": {"a": R("A")}}}), ("client", None)),
    "F01b": (_w({"/a": {"get": _op(R("Node"))}}, {"Node": {"type": "object", "properties": {"next": R("Node"), "v": {"type": "integer"}}}}), ("client", None)),
    "F01c": (_w({"/a": {"get": _op(R("Ev"))}}, {"Ev": {"type": "object", "properties": {"date": {"type": "string", "format": "date"}}}}), ("client", None)),
    "F01e": (_w({}, {"A": {"type": "object", "properties": {"x": {"type": "integer"}}}}), ("client", None)),
    "F06d": (_w({"/a": {"get": {"operationId": "getIt", "responses": {"200": {"description": "ok"}, "302": {"description": "moved"}}}}}), ("client", None)),
    "F13b": (_w({"/a": {"get": _op(tags=["Users"])}, "/b": {"get": dict(_op(tags=["users"]), operationId="getB")}}), ("client", None)),
    "F20a": (_w({"/a": {"get": _op(R("none"))}}, {"none": {"type": "object", "properties": {"x": {"type": "integer"}}}}), ("client", None)),
    "F04c": (_w({"/a/{id}": {"parameters": [{"name": "id", "in": "path", "required": True, "schema": {"type": "string"}}],
                             "get": dict(_op(), parameters=[{"name": "id", "in": "path", "required": True, "schema": {"type": "string"}}])}}), ("client", None)),
    "F01f": (_w({"/a": {"get": _op()}}), ("dup.dup", None)),
    "F01g": (_w({"/f": {"get": {"operationId": "getF", "responses": {
        "200": {"description": "bytes", "content": {"application/octet-stream": {"schema": {"type": "string", "format": "binary"}}}},
        "201": {"description": "alt", "content": J({"type": "object", "additionalProperties": True})}}}}}), ("client", None)),
}


# ---------------------------------------------------------------- the real import run (one subprocess per package)
IMPORT_EACH = r"""
import importlib, pkgutil, sys, traceback
def main(arg):
    tops = set(arg['tops'])
    def purge():
        for k in [k for k in sys.modules if k.split('.')[0] in tops]:
            del sys.modules[k]
    out = {}
    for name in arg['modules']:
        purge()
        try:
            m = importlib.import_module(name)
        except BaseException as e:
            tb = traceback.extract_tb(e.__traceback__)
            where = e.filename if isinstance(e, SyntaxError) and e.filename else (tb[-1].filename if tb else '')
            out[name] = {'cls': type(e).__name__, 'msg': str(e)[:400], 'file': where}
            continue
        missing = [n for n in getattr(m, '__all__', []) if not hasattr(m, n)] if isinstance(getattr(m, '__all__', []), (list, tuple)) else []
        out[name] = {'cls': 'ExportError', 'msg': 'names in __all__ that do not resolve: ' + ', '.join(missing), 'file': getattr(m, '__file__', '')} if missing else 'ok'
    # independent enumeration of the modules: pkgutil.walk_packages
    purge()
    walked = []
    for top in arg['packages']:
        try:
            m = importlib.import_module(top)
        except BaseException:
            continue
        walked.append(top)
        if hasattr(m, '__path__'):
            for mi in pkgutil.walk_packages(m.__path__, top + '.', onerror=lambda n: None):
                walked.append(mi.name)
    return {'each': out, 'walked': sorted(set(walked))}
"""


def module_name(rel: Path) -> tuple[list[str], bool]:
    parts = list(rel.with_suffix("").parts)
    if parts[-1] == "__init__":
        return parts[:-1], True
    return parts, False


# ---------------------------------------------------------------- the extractor: emitted file -> skeleton
class ExtractError(Exception):
    pass


def E(n: ast.AST | None) -> Any:
    """expression -> ("name", id) | ("str", s) | ("none",) | ("const",) | ("sub", g, [args]) | ("or", a, b) | ("other", [children])"""
    if n is None:
        return ("const",)
    if isinstance(n, ast.Name):
        return ("name", n.id)
    if isinstance(n, ast.Constant):
        if isinstance(n.value, str):
            return ("str",)
        if n.value is None:
            return ("none",)
        return ("const",)
    if isinstance(n, ast.Subscript):
        sl = n.slice
        args = list(sl.elts) if isinstance(sl, ast.Tuple) else [sl]
        return ("sub", E(n.value), [E(a) for a in args])
    if isinstance(n, ast.BinOp) and isinstance(n.op, ast.BitOr):
        return ("or", E(n.left), E(n.right))
    if isinstance(n, (ast.Lambda, ast.ListComp, ast.SetComp, ast.DictComp, ast.GeneratorExp)):
        return ("const",)      # bodies are evaluated lazily / in their own scope; not produced at import level by the generator
    if isinstance(n, ast.Starred):
        return E(n.value)
    if isinstance(n, ast.keyword):
        return E(n.value)
    if isinstance(n, ast.expr):
        kids = [E(c) for c in ast.iter_child_nodes(n) if isinstance(c, (ast.expr, ast.keyword))]
        return ("other", kids)
    raise ExtractError(f"unexpected expression node {type(n).__name__}")


def sig_of(fn: ast.FunctionDef | ast.AsyncFunctionDef, annotations: bool) -> list:
    a = fn.args
    out = [E(d) for d in fn.decorator_list]
    out += [E(d) for d in a.defaults] + [E(d) for d in a.kw_defaults if d is not None]
    if annotations:
        for arg in a.posonlyargs + a.args + a.kwonlyargs + ([a.vararg] if a.vararg else []) + ([a.kwarg] if a.kwarg else []):
            if arg.annotation is not None:
                out.append(E(arg.annotation))
        if fn.returns is not None:
            out.append(E(fn.returns))
    return out


def class_heads(c: ast.ClassDef) -> list:
    return [E(d) for d in c.decorator_list] + [E(b) for b in c.bases] + [E(k.value) for k in c.keywords]


def all_names(v: ast.expr) -> list[str] | None:
    if isinstance(v, (ast.List, ast.Tuple)) and all(isinstance(e, ast.Constant) and isinstance(e.value, str) for e in v.elts):
        return [e.value for e in v.elts]  # type: ignore[union-attr]
    return None


def class_items(c: ast.ClassDef, annotations: bool) -> list:
    items: list = []
    for s in c.body:
        if isinstance(s, ast.Expr):
            if not (isinstance(s.value, ast.Constant) and isinstance(s.value.value, str)):
                items.append(("eval", E(s.value)))
        elif isinstance(s, ast.Pass):
            pass
        elif isinstance(s, ast.AnnAssign) and isinstance(s.target, ast.Name):
            ann = E(s.annotation) if annotations else ("const",)
            items.append(("field", s.target.id, ann, E(s.value) if s.value is not None else None))
        elif isinstance(s, ast.Assign) and len(s.targets) == 1 and isinstance(s.targets[0], ast.Name):
            items.append(("assign", s.targets[0].id, E(s.value)))
        elif isinstance(s, (ast.FunctionDef, ast.AsyncFunctionDef)):
            items.append(("def", s.name, sig_of(s, annotations)))
        elif isinstance(s, ast.ClassDef):
            inner = class_heads(s)
            for it in class_items(s, annotations):     # nested class body: evaluated when the outer body runs
                if it[0] == "field":
                    inner += [it[2]] + ([it[3]] if it[3] is not None else [])
                elif it[0] == "assign":
                    inner.append(it[2])
                elif it[0] == "def":
                    inner += it[2]
                elif it[0] == "eval":
                    inner.append(it[1])
            items.append(("def", s.name, inner))
        else:
            raise ExtractError(f"class body statement {type(s).__name__} at line {s.lineno}")
    return items


def extract_module(src: str, cur: list[str], is_pkg: bool) -> list:
    try:
        tree = ast.parse(src)
        compile(src, "<emitted>", "exec")
    except SyntaxError:
        return [("broken",)]
    annotations = not any(isinstance(s, ast.ImportFrom) and s.module == "__future__" and any(a.name == "annotations" for a in s.names)
                          for s in tree.body)
    package = cur if is_pkg else cur[:-1]
    out: list = []

    def stmts(body: list[ast.stmt]) -> None:
        for s in body:
            if isinstance(s, ast.ImportFrom):
                if s.module == "__future__":
                    continue
                name = "." * s.level + (s.module or "")
                try:
                    target = importlib.util.resolve_name(name, ".".join(package)).split(".") if s.level else name.split(".")
                except ImportError:
                    # relative import that climbs above the top-level package: CPython raises ImportError; in the
                    # model it is an import of a module below the own top-level name that does not exist
                    target = [cur[0], "<beyond-top-level>"]
                if target and target[0] == "pyopenapi_gen":
                    # the generator is not installed where a client runs (the import driver blocks it): in the model,
                    # a module below the own top-level name that does not exist (ModuleNotFoundError)
                    target = [cur[0], "<pyopenapi_gen>"] + target[1:]
                if any(a.name == "*" for a in s.names):
                    out.append(("star", target))
                else:
                    out.append(("from", target, [(a.name, a.asname or a.name) for a in s.names]))
            elif isinstance(s, ast.Import):
                for a in s.names:
                    out.append(("import", a.name.split("."), a.asname or a.name.split(".")[0]))
            elif isinstance(s, (ast.FunctionDef, ast.AsyncFunctionDef)):
                out.append(("def", s.name, sig_of(s, annotations)))
            elif isinstance(s, ast.ClassDef):
                out.append(("class", s.name, class_heads(s), class_items(s, annotations)))
            elif isinstance(s, ast.Assign):
                names = all_names(s.value)
                if len(s.targets) == 1 and isinstance(s.targets[0], ast.Name):
                    if s.targets[0].id == "__all__" and names is not None:
                        out.append(("all", names))
                    else:
                        out.append(("alias", s.targets[0].id, E(s.value), None))
                else:
                    out.append(("eval", E(s.value)))
                    for t in s.targets:
                        for nm in ast.walk(t):
                            if isinstance(nm, ast.Name):
                                out.append(("alias", nm.id, ("const",), None))
            elif isinstance(s, ast.AnnAssign) and isinstance(s.target, ast.Name):
                ann = E(s.annotation)
                if s.value is None:
                    out.append(("eval", ann))
                elif s.target.id == "__all__" and all_names(s.value) is not None:
                    out.append(("eval", ann))
                    out.append(("all", all_names(s.value)))
                else:
                    out.append(("alias", s.target.id, E(s.value), ann))
            elif isinstance(s, ast.Expr):
                if not (isinstance(s.value, ast.Constant) and isinstance(s.value.value, str)):
                    out.append(("eval", E(s.value)))
            elif isinstance(s, ast.If) and isinstance(s.test, ast.Name) and s.test.id == "TYPE_CHECKING":
                out.append(("eval", ("name", "TYPE_CHECKING")))
                stmts(s.orelse)
            elif isinstance(s, ast.Pass):
                pass
            else:
                raise ExtractError(f"module-level statement {type(s).__name__} at line {s.lineno}")
    stmts(tree.body)
    return out


# ---------------------------------------------------------------- Coq printers
SYM: dict[str, str] = {}   # every distinct name is defined once in the shard prelude (parsing numerals is the slow part)


def cs(x: str) -> str:
    if x not in SYM:
        SYM[x] = f"s{len(SYM)}_"
    return SYM[x]


def sym_prelude() -> str:
    return "\n".join(f"Definition {v} : str := {cstr(k)}." for k, v in SYM.items())


def cpath(parts: list[str]) -> str:
    return clist(cs(x) for x in parts)


def c_expr(e: Any) -> str:
    k = e[0]
    if k == "name":
        return f"(AName {cs(e[1])})"
    if k == "str":
        return "(AStr [])"
    if k == "none":
        return "ANone"
    if k == "const":
        return "AConst"
    if k == "sub":
        return f"(ASub {c_expr(e[1])} {clist(c_expr(a) for a in e[2])})"
    if k == "or":
        return f"(AOr {c_expr(e[1])} {c_expr(e[2])})"
    if k == "other":
        return f"(AOther {clist(c_expr(a) for a in e[1])})"
    raise ValueError(k)


def c_item(it: Any) -> str:
    k = it[0]
    if k == "field":
        return f"(CField {cs(it[1])} {c_expr(it[2])} {'None' if it[3] is None else '(Some ' + c_expr(it[3]) + ')'})"
    if k == "def":
        return f"(CDef {cs(it[1])} {clist(c_expr(a) for a in it[2])})"
    if k == "assign":
        return f"(CAssign {cs(it[1])} {c_expr(it[2])})"
    return f"(CEval {c_expr(it[1])})"


def c_stmt(s: Any) -> str:
    k = s[0]
    if k == "from":
        return f"(FromImport {cpath(s[1])} {clist('(' + cs(a) + ', ' + cs(b) + ')' for a, b in s[2])})"
    if k == "star":
        return f"(ImportStar {cpath(s[1])})"
    if k == "import":
        return f"(ImportMod {cpath(s[1])} {cs(s[2])})"
    if k == "def":
        return f"(Def {cs(s[1])} {clist(c_expr(a) for a in s[2])})"
    if k == "class":
        return f"(ClassDef {cs(s[1])} {clist(c_expr(a) for a in s[2])} {clist(c_item(i) for i in s[3])})"
    if k == "alias":
        return f"(Alias {cs(s[1])} {c_expr(s[2])} {'None' if s[3] is None else '(Some ' + c_expr(s[3]) + ')'})"
    if k == "eval":
        return f"(Eval {c_expr(s[1])})"
    if k == "all":
        return f"(AllDecl {clist(cs(n) for n in s[1])})"
    if k == "broken":
        return "Broken"
    raise ValueError(k)


def c_mod(path: list[str], body: list) -> str:
    return f"(mkMod {cpath(path)} {clist(c_stmt(s) for s in body)})"


# ---------------------------------------------------------------- one package
def observe(doc: dict, layout: tuple, naming: str | None, g: pipeline.Generated) -> dict:
    """everything we need from one generated package; removes it afterwards"""
    pkg, core = layout
    res: dict[str, Any] = {"ok": g.ok, "error": g.error}
    try:
        if not g.ok:
            return res
        res["compile"] = pipeline.compile_all(g)
        mods = []
        for p in g.py_files():
            rel = p.relative_to(g.root)
            cur, is_pkg = module_name(rel)
            try:
                body = extract_module(p.read_text(), cur, is_pkg)
            except ExtractError as e:
                res["extract_error"] = f"{rel}: {e}"
                body = [("broken",)]
            mods.append({"path": cur, "file": str(rel), "body": body})
        res["mods"] = mods
        names = sorted(".".join(m["path"]) for m in mods)
        tops = sorted({m["path"][0] for m in mods})
        packages = tops     # walk from the top-level names so that parent packages (a, a.b) are enumerated too
        r = pipeline.drive(g, IMPORT_EACH, {"modules": names, "tops": tops, "packages": packages}, timeout=300)
        if r["ok"]:
            res["imports"] = r["result"]["each"]
            res["walked"] = r["result"]["walked"]
        else:
            res["imports"] = {n: {"cls": "DriverError", "msg": r["error"], "file": ""} for n in names}
            res["walked"] = []
        res["root"] = str(g.root)
        return res
    finally:
        g.cleanup()


def root_causes(res: dict) -> list[dict]:
    """distinct failure causes of one package: compile errors and import errors grouped by (class, message, file)"""
    seen: dict[tuple, dict] = {}
    root = res.get("root", "")
    for f, e in res.get("compile", {}).items():
        cls, _, msg = e.partition(": ")
        seen.setdefault((cls, re.sub(r"\(.*?, line \d+\)", "", msg).strip(), f), {"cls": cls, "msg": msg, "file": f, "modules": [f]})
    for m, o in res.get("imports", {}).items():
        if o == "ok":
            continue
        f = o["file"].replace(root + "/", "") if root else o["file"]
        msg = o["msg"].replace(root + "/", "")
        key = (o["cls"], re.sub(r"\(.*?, line \d+\)", "", msg).strip(), f)
        if key in seen:
            seen[key]["modules"].append(m)
        else:
            seen[key] = {"cls": o["cls"], "msg": msg, "file": f, "modules": [m]}
    return list(seen.values())


def c_case(res: dict) -> str:
    mods = res["mods"]
    paths = [m["path"] for m in mods]
    obs = []
    for m in mods:
        o = res["imports"][".".join(m["path"])]
        if o != "ok" and o["cls"] == "ImportError" and "beyond top-level package" in o["msg"]:
            obs.append(2)       # see extract_module: modelled as a missing internal module
        else:
            obs.append(0 if o == "ok" else ERR_CODE.get(o["cls"], 9))
    return (f"(({clist(c_mod(m['path'], m['body']) for m in mods)}, {clist(cpath(p) for p in paths)}), "
            f"{clist(cN(x) for x in obs)})")


# ---------------------------------------------------------------- the generator skeleton of models/ (Model/GenModels.v)
MNAMES = ["Alpha", "Beta", "Gamma", "Delta", "Epsilon", "Zeta", "Eta", "Theta"]


def models_fragment_document(rng) -> dict:
    """documents of the modelled fragment: objects whose fields are primitives, (optional) references to other
    schemas, arrays / maps of references, optional self references and arrays of self; string enums; array and
    primitive aliases; maps of references.  Reference edges between different schemas only point to LATER names
    (a DAG); a second stream (cyc=True in the caller) adds back edges."""
    names = rng.sample(MNAMES, rng.randint(2, 6))
    sch: dict[str, Any] = {}
    for i, n in enumerate(names):
        later = names[i + 1:]
        r = rng.random()
        if r < 0.6 or not later:
            props, req = {}, []
            for k in range(rng.randint(1, 4)):
                fn = f"{rng.choice(['first', 'second', 'third', 'other', 'main'])}_{'abcdefgh'[k]}"
                q = rng.random()
                if q < 0.25 or not later:
                    props[fn] = {"type": rng.choice(["string", "integer", "boolean"])} if q < 0.2 else (
                        {"type": "string", "format": "date-time"})
                elif q < 0.50:
                    props[fn] = R(rng.choice(later))
                elif q < 0.65:
                    props[fn] = {"type": "array", "items": R(rng.choice(later))}
                elif q < 0.72:
                    props[fn] = {"type": "array", "items": {"type": "string"}}
                elif q < 0.86:
                    props[fn] = R(n)                                   # optional self reference
                    continue
                else:
                    props[fn] = {"type": "array", "items": R(n)}
                if rng.random() < 0.4:
                    req.append(fn)
            sch[n] = {"type": "object", "properties": props, **({"required": req} if req else {})}
        elif r < 0.75:
            sch[n] = {"type": "string", "enum": rng.sample(["a", "b", "c", "d"], rng.randint(1, 3))}
        elif r < 0.87:
            sch[n] = {"type": "array", "items": R(rng.choice(later))}
        elif r < 0.94:
            sch[n] = {"type": "string", "format": rng.choice(["uuid", "date"])}
        else:
            sch[n] = {"type": "object", "additionalProperties": R(rng.choice(later))}
    return _w({"/m": {"get": _op(R(names[0]))}}, sch)


CAPTURED_IR: dict[str, Any] = {}


def install_ir_capture() -> None:
    """keep the schemas ModelsEmitter worked on (with their final class / module names) of the last generation"""
    from pyopenapi_gen.emitters import models_emitter as me
    if getattr(me.ModelsEmitter.emit, "_verif_wrapped", False):
        return
    orig = me.ModelsEmitter.emit

    def emit(self, spec, output_root):
        out = orig(self, spec, output_root)
        CAPTURED_IR.clear()
        CAPTURED_IR.update(self.parsed_schemas)
        return out
    emit._verif_wrapped = True  # type: ignore[attr-defined]
    me.ModelsEmitter.emit = emit  # type: ignore[method-assign]


def spec_from_ir(ir: dict, stems_on_disk: set[str]) -> list[dict] | None:
    """IRSchema objects -> Model/GenModels.v `spec` (schemas sorted topologically when the reference graph allows it).
    None = a schema outside the modelled fragment."""
    emitted = [s for s in ir.values() if s.name and s.generation_name and s.final_module_stem in stems_on_disk]
    by_name = {s.name: s for s in emitted}
    idx: dict[str, int] = {}

    def ty_of(p) -> Any:
        if p is None:
            return ("prim",)
        if p.name and p.name in by_name:
            return ("ref", p.name)
        if p.type == "array":
            return ("list", ty_of(p.items))
        if p.type == "object" and not p.properties and hasattr(p.additional_properties, "type"):
            return ("dict", ty_of(p.additional_properties))
        if p.any_of or p.one_of or p.all_of:
            raise KeyError("composition outside the fragment")
        return ("prim",)

    out = []
    try:
        for s in emitted:
            if s.any_of or s.one_of or s.all_of or s.discriminator:
                return None
            if s.enum:
                kind: Any = ("enum",)
            elif s.type == "object" and s.properties:
                fields = []
                for pn, ps in sorted(s.properties.items(), key=lambda kv: (kv[0] not in s.required, kv[0])):
                    req = pn in s.required
                    fields.append({"name": pn, "ty": ty_of(ps), "opt": (not req) or bool(ps.is_nullable), "default": not req})
                kind = ("obj", fields)
            elif s.type == "object" and hasattr(s.additional_properties, "type"):
                kind = ("wrapper", ty_of(s.additional_properties))
            elif s.type == "object":
                kind = ("wrapper", ("prim",))
            elif s.type == "array":
                kind = ("alias", ("list", ty_of(s.items)))
            else:
                kind = ("alias", ("prim",))
            out.append({"name": s.name, "stem": s.final_module_stem, "cls": s.generation_name, "kind": kind})
    except KeyError:
        return None

    def refs(t) -> list[str]:
        return [t[1]] if t[0] == "ref" else refs(t[1]) if t[0] in ("list", "dict") else []

    def krefs(k) -> list[str]:
        return [r for f in k[1] for r in refs(f["ty"])] if k[0] == "obj" else refs(k[1]) if k[0] in ("alias", "wrapper") else []
    # Kahn: dependencies first; self loops ignored; on a cycle the remaining schemas keep their order
    todo = list(out)
    done: list[dict] = []
    while todo:
        ready = [s for s in todo if all(r == s["name"] or r in {d["name"] for d in done} for r in krefs(s["kind"]))]
        if not ready:
            done += todo
            break
        done.append(ready[0])
        todo.remove(ready[0])
    for i, s in enumerate(done):
        idx[s["name"]] = i
    for s in done:
        s["idx"] = idx
    return done


def c_ty(t, idx) -> str:
    if t[0] == "prim":
        return "TyPrim"
    if t[0] == "ref":
        return f"(TyRef ({idx[t[1]]})%nat)"
    if t[0] == "list":
        return f"(TyList {c_ty(t[1], idx)})"
    return f"(TyDict {c_ty(t[1], idx)})"


def c_spec(sp: list[dict]) -> str:
    rows = []
    for s in sp:
        idx, k = s["idx"], s["kind"]
        if k[0] == "obj":
            kk = "(KObj " + clist(f"(mkFld {cs(f['name'])} {c_ty(f['ty'], idx)} {'true' if f['opt'] else 'false'} "
                                    f"{'true' if f['default'] else 'false'})" for f in k[1]) + ")"
        elif k[0] == "enum":
            kk = "KEnum"
        elif k[0] == "alias":
            kk = f"(KAliasOf {c_ty(k[1], idx)})"
        else:
            kk = f"(KWrapper {c_ty(k[1], idx)})"
        rows.append(f"(mkSch {cs(s['stem'])} {cs(s['cls'])} {kk})")
    return clist(rows)


def project_models(mods: list[dict], root: list[str], classes: set[str]) -> list[dict]:
    """the reference structure of the extracted models/ modules (see the header of Model/GenModels.v)"""
    mroot = root + ["models"]

    def P(e: Any) -> Any:
        k = e[0]
        if k == "name":
            return e if e[1] in classes else ("const",)
        if k == "sub":
            return ("sub", P(e[1]), [P(a) for a in e[2]])
        if k == "or":
            return ("or", P(e[1]), P(e[2]))
        if k == "other":
            return ("other", [P(a) for a in e[1]])
        return e

    def mentions(e: Any) -> bool:
        k = e[0]
        if k == "name":
            return e[1] in classes
        if k == "str":
            return True
        if k == "sub":
            return mentions(e[1]) or any(mentions(a) for a in e[2])
        if k == "or":
            return mentions(e[1]) or mentions(e[2])
        if k == "other":
            return any(mentions(a) for a in e[1])
        return False

    out = []
    chain = [root[:k] for k in range(1, len(root) + 1)]
    for q in chain:
        out.append({"path": q, "body": []})
    for m in mods:
        if m["path"][:len(mroot)] != mroot:
            continue
        body: list = []
        for st in m["body"]:
            k = st[0]
            if k == "from":
                if st[1][:len(mroot)] == mroot and len(st[1]) == len(mroot) + 1 and st not in body:
                    body.append(st)
            elif k == "all":
                body.append(st)
            elif k == "class":
                items = [("field", it[1], P(it[2]), None if it[3] is None else ("const",))
                         for it in st[3] if it[0] == "field" and mentions(it[2])]
                body.append(("class", st[1], [P(h) for h in st[2]], items))
            elif k == "alias":
                body.append(("alias", st[1], P(st[2]), None if st[3] is None else ("const",)))
            elif k == "broken":
                body.append(st)
        out.append({"path": m["path"], "body": body})
    return out


def models_case(doc: dict, lay: tuple) -> dict | None:
    """generate, capture the IR, extract and project models/, build the spec; None when outside the fragment"""
    install_ir_capture()
    g = pipeline.generate(doc, package=lay[0], core_package=lay[1])
    try:
        if not g.ok:
            return None
        root = lay[0].split(".")
        mdir = g.pkg_dir / "models"
        stems = {p.stem for p in mdir.glob("*.py") if p.stem != "__init__"}
        sp = spec_from_ir(dict(CAPTURED_IR), stems)
        if sp is None or {s["stem"] for s in sp} != stems:
            return None
        mods = []
        for pth in sorted(mdir.glob("*.py")):
            cur, is_pkg = module_name(pth.relative_to(g.root))
            mods.append({"path": cur, "body": extract_module(pth.read_text(), cur, is_pkg)})
        proj = project_models(mods, root, {s["cls"] for s in sp})
        coq = (f"(({cpath(root)}, {c_spec(sp)}), {clist(c_mod(m['path'], m['body']) for m in proj)})")
        return {"input": {"doc": doc, "layout": list(lay)}, "obs": {"schemas": [[s["stem"], s["cls"], s["kind"][0]] for s in sp]},
                "oracle_fail": [], "_coq": coq}
    finally:
        g.cleanup()


# ---------------------------------------------------------------- histories: several clients around one shared core
def _err_doc(title: str, code: str) -> dict:
    return pipeline.base_spec(title=title, paths={"/things/{thing_id}": {"get": {
        "operationId": "getThing", "tags": ["things"],
        "parameters": [{"name": "thing_id", "in": "path", "required": True, "schema": {"type": "string"}}],
        "responses": {"200": {"description": "ok", "content": J({"type": "object", "additionalProperties": True})},
                      code: {"description": "error"}}}}})


HISTORIES = [
    # (core package, [(client package, error code, force)])
    ("suite.core", [("suite.alpha", "404", True), ("suite.beta", "409", True), ("suite.alpha", "404", True)]),
    ("suite.core", [("suite.alpha", "404", True), ("suite.beta", "409", True), ("suite.gamma", "422", True),
                    ("suite.beta", "409", True), ("suite.alpha", "404", False)]),
    ("core", [("alpha", "404", True), ("beta", "503", True), ("alpha", "404", True), ("beta", "503", False)]),
]


def run_history(core: str, steps: list[tuple[str, str, bool]]) -> list[dict]:
    """generate the clients one after another into ONE project; after every step every module of every client
    generated so far (and of the shared core) must import"""
    import shutil
    import tempfile
    pipeline.SCRATCH.mkdir(parents=True, exist_ok=True)
    root = Path(tempfile.mkdtemp(prefix="hist_", dir=pipeline.SCRATCH))
    out, log = [], []
    try:
        for pkg, code, force in steps:
            g = pipeline.generate(_err_doc(pkg, code), package=pkg, core_package=core, force=force, root=root)
            log.append(f"generate {pkg} ({code}) core={core} force={force} -> {'ok' if g.ok else 'error: ' + str(g.error)[:60]}")
            mods = []
            for p in sorted(root.rglob("*.py")):
                cur, _ = module_name(p.relative_to(root))
                mods.append(".".join(cur))
            tops = sorted({m.split(".")[0] for m in mods})
            r = pipeline.drive(g, IMPORT_EACH, {"modules": mods, "tops": tops, "packages": tops}, timeout=300)
            bad = ({m: f"{o['cls']}: {o['msg'][:160]}" for m, o in r["result"]["each"].items() if o != "ok"}
                   if r["ok"] else {"<driver>": r["error"]})
            bad = {m: v.replace(str(root) + "/", "") for m, v in bad.items()}
            out.append({"input": {"k": "history", "core": core, "steps": list(log)}, "obs": bad,
                        "oracle_fail": [f"after [{'; '.join(log)}]: {m}: {v}" for m, v in sorted(bad.items())][:3]})
    finally:
        shutil.rmtree(root, ignore_errors=True)
    return out


def main(chk: Check, replay: dict | None = None) -> int:
    if replay is not None:
        i = replay["input"]
        lay = tuple(i["layout"])
        g = pipeline.generate(i["doc"], package=lay[0], core_package=lay[1], naming_strategy=i.get("naming"))
        res = observe(i["doc"], lay, i.get("naming"), g)
        rc = root_causes(res) if res["ok"] else []
        print(json.dumps({"generated": res["ok"], "error": res["error"], "root_causes": rc}, indent=1)[:4000])
        bad = [c for c in rc if not any(sig(c["cls"], c["msg"], c["file"]) and guard(i["doc"], lay) for sig, _, guard in FINDINGS.values())]
        if bad:
            print(f"VIOLATION property=C01 replay=(replayed) : {bad[0]['cls']}: {bad[0]['msg'][:200]}")
            return 1
        return 0

    chk.prove()
    rng = chk.rng
    jobs: list[tuple[dict, tuple, str | None, str]] = []   # (doc, layout, naming, label)
    for c in load_corpus("C01"):
        i = c["input"]
        jobs.append((i["doc"], tuple(i["layout"]), i.get("naming"), "corpus"))
    n_clean = 150 if chk.thorough else 24
    n_cyc = 60 if chk.thorough else 10
    for k in range(n_clean):
        import random as _random
        jobs.append((Gen(rng, extra=_random.Random(f"{chk.seed}:{k}")).document(), LAYOUTS[k % len(LAYOUTS)],
                     NAMING[(k // len(LAYOUTS)) % len(NAMING)], "dag"))
    for k in range(n_cyc):
        jobs.append((Gen(rng, cycles=(k % 2 == 0), hazards=True).document(), LAYOUTS[k % 3], None, "hazard"))
    import prop_C12
    jobs.append((prop_C12.kitchen_sink(), ("a.client", "shared.core"), None, "kitchen_sink"))

    import time
    t0 = time.time()
    gens = [pipeline.generate(d, package=l[0], core_package=l[1], naming_strategy=n) for d, l, n, _ in jobs]
    t1 = time.time()
    with ThreadPoolExecutor(max_workers=12) as ex:
        results = list(ex.map(lambda jg: observe(jg[0][0], jg[0][1], jg[0][2], jg[1]), zip(jobs, gens)))
    t2 = time.time()
    chk.say(f"[C01] {len(jobs)} generations {t1 - t0:.1f}s, extraction + real imports {t2 - t1:.1f}s")

    pkg_cases: list[dict] = []      # one per package: model vs real outcomes
    cause_cases: list[tuple[int, dict]] = []   # (index of package case, case for decide)
    dist = {"packages": 0, "generation_errors": 0, "modules": 0, "modules_failing": 0, "labels": {}, "layouts": {},
            "naming": {}, "root_causes": {}, "packages_failing": 0, "statements": 0}
    for (doc, lay, naming, label), res in zip(jobs, results):
        inp = {"doc": doc, "layout": list(lay), "naming": naming}
        dist["labels"][label] = dist["labels"].get(label, 0) + 1
        if not res["ok"]:
            dist["generation_errors"] += 1     # the property only speaks about generations that return without error
            continue
        if "extract_error" in res:
            chk.broken.append({"kind": "harness-error", "name": "extractor", "detail": res["extract_error"]})
        dist["packages"] += 1
        dist["layouts"][f"{lay[0]}|{lay[1]}"] = dist["layouts"].get(f"{lay[0]}|{lay[1]}", 0) + 1
        dist["naming"][str(naming)] = dist["naming"].get(str(naming), 0) + 1
        dist["modules"] += len(res["mods"])
        dist["statements"] += sum(len(m["body"]) for m in res["mods"])
        dist["modules_failing"] += sum(1 for o in res["imports"].values() if o != "ok")
        # independent module enumeration must agree with the file listing whenever the package imports at all
        listed = sorted(".".join(m["path"]) for m in res["mods"])
        causes = root_causes(res)
        if not causes and sorted(res["walked"]) != listed:
            chk.violation({"input": inp, "obs": {"walked": res["walked"], "files": listed}},
                          "pkgutil.walk_packages and the emitted files disagree about the modules of the package")
        idx = len(pkg_cases)
        pkg_cases.append({"input": inp, "obs": {m: (o if o == "ok" else o["cls"]) for m, o in res["imports"].items()},
                          "oracle_fail": [], "_coq": c_case(res)})
        if causes:
            dist["packages_failing"] += 1
        for c in causes:
            dist["root_causes"][c["cls"]] = dist["root_causes"].get(c["cls"], 0) + 1
            cause_cases.append((idx, {"input": dict(inp, root_cause={k: c[k] for k in ("cls", "msg", "file")}),
                                      "obs": c, "oracle_fail": [f"{c['cls']}: {c['msg'][:300]} [{c['file']}] (modules: {', '.join(c['modules'][:4])})"],
                                      "_doc": doc, "_lay": lay}))

    chk.cov["evaluations"] = dist["modules"]
    chk.cov["distinct_nontrivial"] = len({json.dumps(c["input"], sort_keys=True) for c in pkg_cases
                                          if len((c["input"]["doc"].get("components") or {}).get("schemas") or {}) >= 2})
    chk.cov["input_distribution"] = dist
    for c in pkg_cases[:1] + pkg_cases[-1:]:
        chk.sample({"layout": c["input"]["layout"], "schemas": list(((c["input"]["doc"].get("components") or {}).get("schemas") or {})),
                    "outcomes": {k: v for k, v in list(c["obs"].items())[:6]}})

    codes = None
    if chk.model_ok and pkg_cases:
        codes = chk.coq_eval("From PG Require Import Lib.Strs Model.CoreImports Model.PyImport Corr.C01.",
                             "(package * list modpath) * list N", [c["_coq"] for c in pkg_cases], "run", shard=4, prelude=sym_prelude())
    chk.say(f"[C01] model evaluation {time.time() - t2:.1f}s")
    for c in pkg_cases:
        c.pop("_coq", None)
    # (1) the import-semantics model vs the real imports; soundness of pkg_ok as observed
    chk.decide(pkg_cases, [(c & 1) for c in codes] if codes is not None else None, {},
               "Corr.C01.run: exec_mod(extracted skeleton) = real import outcome class of every module")
    if codes is not None:
        for c, code in zip(pkg_cases, codes):
            if code >> 1 == 0 and any(v != "ok" for v in c["obs"].values()):
                chk.violation(c, "pkg_ok holds on the extracted skeleton but a module does not import (soundness of pkg_ok refuted by observation)")
        chk.cov["input_distribution"]["pkg_ok_true"] = sum(1 for code in codes if code >> 1 == 0)
    # (2) every root cause must be a listed finding: signature x failing conjunct x guard
    dec_cases, dec_codes = [], []
    for idx, c in cause_cases:
        code = codes[idx] if codes is not None else None
        out = 0 if code is None else (code & 1)
        rc = c["obs"]
        for fid, (sig, conj, guard) in FINDINGS.items():
            conj_false = code is not None and (code >> (conj + 1)) & 1
            if sig(rc["cls"], rc["msg"], rc["file"]) and conj_false and guard(c["_doc"], c["_lay"]):
                out |= 1 << FID_BIT[fid]
        c.pop("_doc"), c.pop("_lay")
        dec_cases.append(c)
        dec_codes.append(out)
    chk.decide(dec_cases, dec_codes if codes is not None else None, {b: f for f, b in FID_BIT.items()},
               "root cause attribution (signature x pkg_ok conjunct x guard)")
    # (3) the generator skeleton of models/ (Model/GenModels.v) vs the projected extracted skeleton, and the instance
    #     of C01_models_partial on every acyclic spec: pkg_ok_with (models_order) (gen_models_skeleton spec) = true
    import random as _random
    mrng = _random.Random(f"models:{chk.seed}")
    mcases = []
    n_models = 120 if chk.thorough else 18
    outside = 0
    for c0 in load_corpus("C01"):      # corpus documents of the models fragment run first
        if c0["input"].get("models_fragment"):
            mc = models_case(c0["input"]["doc"], tuple(c0["input"]["layout"]))
            if mc is not None:
                mcases.append(mc)
    for k in range(n_models):
        d = models_fragment_document(mrng)
        if k % 6 == 5:      # a back edge: the reference graph is no longer acyclic (the guard of F01a fails)
            names = list(d["components"]["schemas"])
            objs = [n for n in names if d["components"]["schemas"][n].get("properties") is not None]
            if len(objs) >= 2:
                d["components"]["schemas"][objs[-1]]["properties"]["back_z"] = R(objs[0])
        c = models_case(d, LAYOUTS[k % 3])
        if c is None:
            outside += 1
        else:
            mcases.append(c)
    mcodes = None
    if chk.model_ok and mcases:
        mcodes = chk.coq_eval("From PG Require Import Lib.Strs Model.CoreImports Model.PyImport Model.GenModels Corr.C01.",
                              "(modpath * spec) * package", [c["_coq"] for c in mcases], "run_models", shard=8,
                              prelude=sym_prelude(), tag="models")
    for c in mcases:
        c.pop("_coq", None)
    chk.decide(mcases, [(c & 1) for c in mcodes] if mcodes is not None else None, {},
               "Corr.C01.run_models: gen_models_skeleton(spec from the emitter's IR) = projected skeleton of the emitted models/")
    if mcodes is not None:
        acyc = 0
        for c, code in zip(mcases, mcodes):
            if not (code >> 2) & 1:
                acyc += 1
                if (code >> 1) & 1:
                    chk.violation(c, "acyclic_refs and names_ok hold but pkg_ok_with (models_order) (gen_models_skeleton spec) is false "
                                     "(instance of C01_models_partial fails)")
        chk.cov["input_distribution"]["models_skeleton"] = {"cases": len(mcases), "outside_fragment": outside, "acyclic": acyc,
                                                            "cyclic": len(mcases) - acyc}
    chk.cov["evaluations"] += len(mcases)
    # (4) histories: clients generated one after another around one shared core (incl. regenerating an unchanged
    #     client, with and without force); every client generated so far must still import after every step
    hsteps = 0
    for core, steps in (HISTORIES if chk.thorough else HISTORIES[:2]):
        for h in run_history(core, steps):
            hsteps += 1
            if h["oracle_fail"]:
                chk.violation(h, h["oracle_fail"][0])
    chk.cov["input_distribution"]["history_steps_checked"] = hsteps
    chk.cov["evaluations"] += hsteps
    return chk.finish(
        TRUSTED,
        rule="corpus (finding witnesses) + seeded structured documents (schema DAGs with refs/arrays/maps/enums/allOf/oneOf/"
             "anyOf/nullable/formats; operations with parameters in every location, JSON/multipart/form bodies, several "
             "responses) x 7 layouts (depth 1..3, embedded/shared core) x naming strategies, plus a cyclic stream; one "
             "evaluation = one module imported for real and in the model; non-trivial = document with >= 2 schemas",
        explanation="PARTIAL: Python syntax validity is decided only by compile() in the oracle; the theorem covers the "
                    "import-semantics model and its sufficient condition pkg_ok.")
