"""Developer tool (not a registered check): run a property's check against every seeded breaking change.

For each seeded/<name>/ (patch.diff, demo, meta.json) the patch is applied to a scratch worktree of /repo
(/tmp/seedrun/repo, created on demand, removed afterwards with --cleanup), the property's quick check is run with
VERIF_REPO_ROOT pointing there, and the outcome (exit code, VIOLATION lines) is written to seeded/<name>/result.json.
/repo itself is never modified by this tool.  Usage: seeded.py [name ...] [--tier quick|thorough] [--cleanup]
"""
import json, os, subprocess, sys, time
from pathlib import Path

VERIF = Path(__file__).resolve().parent.parent
SCR = Path("/tmp/seedrun/repo")


def sh(cmd, **kw):
    return subprocess.run(cmd, shell=True, text=True, stdout=subprocess.PIPE, stderr=subprocess.STDOUT, **kw)


def main():
    args = [a for a in sys.argv[1:] if not a.startswith("--")]
    tier = "thorough" if "--tier=thorough" in sys.argv else "quick"
    if not SCR.exists():
        SCR.parent.mkdir(parents=True, exist_ok=True)
        print(sh(f"git -C /repo worktree add --detach {SCR} HEAD").stdout)
    sh(f"git -C {SCR} checkout -q --detach $(git -C /repo rev-parse HEAD) && git -C {SCR} reset -q --hard && git -C {SCR} clean -fdq")
    names = args or sorted(p.name for p in (VERIF / "seeded").iterdir() if not p.name.startswith("_") and (p / "patch.diff").exists())
    summary = {}
    for name in names:
        d = VERIF / "seeded" / name
        meta = json.loads((d / "meta.json").read_text())
        pid = meta["property"]
        r = sh(f"git -C {SCR} apply {d / 'patch.diff'}")
        if r.returncode != 0:
            # /repo moved on (fix: commits): try a 3-way merge and, if clean, keep the rebased patch
            sh(f"git -C {SCR} reset -q --hard")
            r3 = sh(f"git -C {SCR} apply --3way {d / 'patch.diff'}")
            conflict = sh(f"git -C {SCR} diff --name-only --diff-filter=U").stdout.strip()
            if r3.returncode != 0 or conflict:
                print(f"{name}: patch no longer applies to /repo HEAD (needs rebase): {r3.stdout[-300:]}")
                summary[name] = "needs-rebase"
                sh(f"git -C {SCR} reset -q --hard && git -C {SCR} clean -fdq")
                continue
            if not (d / "patch.orig.diff").exists():
                (d / "patch.orig.diff").write_text((d / "patch.diff").read_text())
            (d / "patch.diff").write_text(sh(f"git -C {SCR} diff HEAD").stdout)
            sh(f"git -C {SCR} reset -q")
            print(f"{name}: patch rebased onto /repo HEAD by 3-way merge")
        t0 = time.time()
        env = dict(os.environ, VERIF_REPO_ROOT=str(SCR))
        r = sh(f"./check {pid} --tier {tier}", cwd=VERIF, env=env)
        viol = [l for l in r.stdout.splitlines() if l.startswith("VIOLATION")]
        res = {"property": pid, "tier": tier, "exit": r.returncode, "violation_lines": viol[:5],
               "caught": r.returncode == 1 and bool(viol), "with_failing_input": any("no-failing-input-found" not in l for l in viol),
               "wall_s": round(time.time() - t0, 1), "tail": r.stdout.splitlines()[-12:]}
        (d / "result.json").write_text(json.dumps(res, indent=1) + "\n")
        summary[name] = "CAUGHT" + ("" if res["with_failing_input"] else " (no-failing-input-found)") if res["caught"] else f"MISSED (exit {r.returncode})"
        print(f"{name}: {summary[name]}  [{res['wall_s']}s]")
        sh(f"git -C {SCR} reset -q --hard && git -C {SCR} clean -fdq")
    if "--cleanup" in sys.argv:
        sh(f"git -C /repo worktree remove --force {SCR}")
    print(json.dumps(summary, indent=1))


if __name__ == "__main__":
    main()
