#!/bin/bash
# Integrator tool: land one prepared fix.  usage: apply_fix.sh <Fid> <property ids to re-run...>
# Expects fixes/<Fid>.diff and fixes/<Fid>.msg in /verif (merge the builder's branch first).
set -u
cd /verif
F=$1; shift
[ -f fixes/$F.diff ] || { echo "no fixes/$F.diff"; exit 2; }
git -C /repo diff --quiet || { echo "/repo has uncommitted changes"; exit 2; }
git -C /repo apply --3way /verif/fixes/$F.diff || { echo "patch does not apply"; git -C /repo reset -q --hard; exit 2; }
git -C /repo reset -q   # 3way stages; unstage
R=$(/venv/bin/python harness/baseline_check.py -n 8 | head -40)
echo "$R" | head -3
if ! echo "$R" | grep -q "missing=0"; then echo "SUITE REGRESSION - reverting"; git -C /repo checkout -q -- . ; git -C /repo clean -fdq; exit 1; fi
git -C /repo add -A && git -C /repo commit -q -F /verif/fixes/$F.msg
H=$(git -C /repo rev-parse --short HEAD)
git -C /repo show --format= HEAD > fixes/$F.diff
sed -i "s/<COMMIT> $F\b/$H $F/; s/&lt;COMMIT&gt; $F\b/$H $F/" known_findings/*.json
grep -l "<COMMIT>" known_findings/*.json | head
echo "landed $F as $H"
./setup.sh | tail -1
for c in "$@"; do ./check $c 2>&1 | grep -E "^\[C..\] tier|^VIOLATION|^KNOWN" | cut -c1-160; done
