"""C10 — without force, existing output is never touched; writes stay contained.

The implementation is always run in worker subprocesses of this file (`--worker`): the generator is
called in-process there, with
  * stage delimiters / fault injection installed by wrapping the loader, parser, the emitters' emit
    methods, PostprocessManager.run and ClientGenerator._show_diffs (no source hooks),
  * a sys.addaudithook recorder (open-for-write, os.mkdir, os.remove, os.rename, os.rmdir, shutil.rmtree),
  * recursive (path, kind, size, sha256) snapshots of the sandbox project root before and after.
The source tree is framework.REPO/src (VERIF_REPO_ROOT, default /repo); seeded changes are tested on a scratch checkout.
Every path that is ever written or deleted lies under build/pipeline/<sandbox>/ or the system temp dir.
"""
from __future__ import annotations

import hashlib
import json
import os
import shutil
import subprocess
import sys
import tempfile
from concurrent.futures import ThreadPoolExecutor
from pathlib import Path

HERE = Path(__file__).resolve().parent
sys.path.insert(0, str(HERE))
from framework import REPO  # noqa: E402  (follows VERIF_REPO_ROOT; default /repo)

IMPL_SRC = os.environ.get("VERIF_IMPL_SRC") or str(REPO / "src")

STAGES = ["Load", "Parse", "Exceptions", "Core", "Core2", "Models", "Endpoints", "Endpoints2", "Client", "Mocks",
          "Post", "Diff"]

TRUSTED = [
    "Coq 8.16.1 kernel + vm_compute (witness theorems and correspondence evaluation)",
    "hand-written Gallina effect model coq/Model/GenFS.v of ClientGenerator.generate (diff path in a temporary root vs "
    "direct path, rmtree, mkdir -p, __init__.py creation, per-emitter file layout, second emit of core/endpoints), "
    "tied to the code by audit-hook traces and before/after snapshots of this run's cases",
    "translator harness/tables_C10.py for CoreEmitter.RUNTIME_FILES",
    "CPython audit events (open/os.mkdir/os.remove/os.rename/os.rmdir/shutil.rmtree) see every file-system "
    "mutation made by the generator process; ruff (post-processing) runs as a child process and is observed only "
    "through the snapshots (opaque: rewrites the listed files in place; run with --no-cache)",
    "package names are ASCII (the model's identifier test is ASCII, str.isidentifier is not); the temporary "
    "directory and the emitters' error logs in the system temp directory are outside the project root",
]


# ---------------------------------------------------------------- spec used by every case
def make_spec(variant: int) -> dict:
    """variant 0: one tag 'pets', schema Pet; variant 1: two tags, two schemas (a changed spec)"""
    ok = {"description": "ok", "content": {"application/json": {"schema": {"$ref": "#/components/schemas/Pet"}}}}
    paths = {"/pets": {"get": {"operationId": "list_pets", "tags": ["pets"],
                               "responses": {"200": ok, "404": {"description": "nf"}}}}}
    schemas = {"Pet": {"type": "object", "properties": {"id": {"type": "integer"}, "name": {"type": "string"}}}}
    if variant == 1:
        paths["/owners"] = {"get": {"operationId": "list_owners", "tags": ["owners"],
                                    "responses": {"200": {"description": "ok", "content": {"application/json": {
                                        "schema": {"$ref": "#/components/schemas/Owner"}}}},
                                        "409": {"description": "c"}}}}
        schemas["Owner"] = {"type": "object", "properties": {"id": {"type": "integer"}}}
    return {"openapi": "3.0.3", "info": {"title": "T", "version": "1"}, "paths": paths,
            "components": {"schemas": schemas}}


def spec_names(variant: int) -> tuple[list[str], list[str]]:
    """(tag module stems, model module stems) — what the Coq model is told about the spec"""
    return (["pets", "owners"], ["pet", "owner"]) if variant == 1 else (["pets"], ["pet"])


# ---------------------------------------------------------------- worker
class Injected(Exception):
    pass


_REC = {"on": False, "events": [], "stage": "Pre", "io_name": None, "io_fired": False, "zones": ()}


def _io_target(p: str) -> bool:
    """inner fault injection: the first creation of a file / directory with the chosen base name, below the sandbox
    or the system temp dir (never the generator's own log files)"""
    if _REC["io_name"] is None or _REC["io_fired"]:
        return False
    if os.path.basename(p.rstrip("/")) != _REC["io_name"]:
        return False
    ap = os.path.realpath(p)
    return any(ap.startswith(z + os.sep) for z in _REC["zones"]) and not os.path.basename(ap).startswith("pyopenapi_gen")


def _audit(event: str, args: tuple) -> None:
    if not _REC["on"]:
        return
    fire = False
    try:
        stage = _REC["stage"]
        if event == "open":
            path, mode, flags = args
            if not isinstance(path, (str, bytes, os.PathLike)):
                return
            writing = (isinstance(mode, str) and any(ch in mode for ch in "wax+")) or \
                      (mode is None and isinstance(flags, int) and flags & (os.O_WRONLY | os.O_RDWR | os.O_CREAT))
            if writing:
                p = os.fsdecode(os.fspath(path))
                if _io_target(p):
                    fire = True
                else:
                    _REC["events"].append((stage, "write", p, None))
        elif event == "os.mkdir":
            p = os.fsdecode(os.fspath(args[0]))
            if args[2] in (-1, None) and not os.path.isdir(p):
                if _io_target(p):
                    fire = True
                else:
                    _REC["events"].append((stage, "mkdir", p, None))
        elif event in ("os.remove", "os.rmdir"):
            if args[1] in (-1, None):
                _REC["events"].append(("Final" if _REC["io_fired"] else stage, "remove", os.fspath(args[0]), None))
        elif event == "os.rename":
            _REC["events"].append((stage, "remove", os.fspath(args[0]), None))
            _REC["events"].append((stage, "write", os.fspath(args[1]), None))
        elif event == "shutil.rmtree":
            _REC["events"].append(("Final" if _REC["io_fired"] else stage, "rmtree", os.fspath(args[0]), None))
    except Exception as e:  # never let the recorder change behaviour
        _REC["events"].append((_REC["stage"], "recorder-error", repr(e), None))
    if fire:
        # what FileManager.write_file / ensure_dir (or a direct open / mkdir) sees: the OS refuses the operation
        _REC["io_fired"] = True
        _REC["io_stage"] = _REC["stage"]
        raise OSError(28, "injected I/O failure")


def snapshot(root: Path) -> dict[str, list]:
    out: dict[str, list] = {}
    if not root.exists():
        return out
    for p in sorted(root.rglob("*")):
        rel = str(p.relative_to(root))
        if p.is_dir():
            out[rel] = ["d", 0, ""]
        else:
            b = p.read_bytes()
            out[rel] = ["f", len(b), hashlib.sha256(b).hexdigest()]
    return out


def _install(fail_at: str | None):
    """wrap the stage entry points; returns an undo function"""
    from pyopenapi_gen.core import postprocess_manager as ppm
    from pyopenapi_gen.emitters import (client_emitter, core_emitter, endpoints_emitter, exceptions_emitter,
                                        mocks_emitter, models_emitter)
    from pyopenapi_gen.generator import client_generator as cg
    undo = []
    counts: dict[str, int] = {}

    def wrap(obj, attr, name, after, second=None):
        orig = getattr(obj, attr)

        def w(*a, **k):
            counts[name] = counts.get(name, 0) + 1
            st = name if counts[name] == 1 or second is None else second
            if name == "Diff" and counts[name] > 1:
                st = "Diff"
            _REC["stage"] = st
            if fail_at == st and not (name == "Diff" and counts[name] > 1):
                _REC["stage"] = "Final"  # whatever happens from here on is unwinding / cleanup
                raise Injected(f"injected failure at {st}")
            try:
                return orig(*a, **k)
            finally:
                _REC["stage"] = after
        setattr(obj, attr, w)
        undo.append((obj, attr, orig))

    if fail_at is not None and fail_at.startswith("Write#"):
        # failure in the middle of whatever stage performs the N-th FileManager.write_file
        from pyopenapi_gen.context import file_manager as fmm
        nth = int(fail_at[6:])
        orig_wf = fmm.FileManager.write_file
        seen = {"n": 0}

        def wf(self, path, content):
            seen["n"] += 1
            if seen["n"] == nth:
                _REC["stage"] = "Final"
                raise Injected(f"injected failure at {fail_at}")
            return orig_wf(self, path, content)
        fmm.FileManager.write_file = wf
        undo.append((fmm.FileManager, "write_file", orig_wf))
    wrap(cg.ClientGenerator, "_load_spec", "Load", "Pre")
    wrap(cg, "load_ir_from_spec", "Parse", "Setup")
    wrap(exceptions_emitter.ExceptionsEmitter, "emit", "Exceptions", "Between")
    wrap(core_emitter.CoreEmitter, "emit", "Core", "Between", second="Core2")
    wrap(models_emitter.ModelsEmitter, "emit", "Models", "Between")
    wrap(endpoints_emitter.EndpointsEmitter, "emit", "Endpoints", "Between", second="Endpoints2")
    wrap(client_emitter.ClientEmitter, "emit", "Client", "Between")
    wrap(mocks_emitter.MocksEmitter, "emit", "Mocks", "RichInit")
    wrap(ppm.PostprocessManager, "run", "Post", "Final")
    wrap(cg.ClientGenerator, "_show_diffs", "Diff", "Final")
    # client_generator imported the names, patch its module globals too
    for nm, mod, cls in [("ExceptionsEmitter", exceptions_emitter, "ExceptionsEmitter"),
                         ("CoreEmitter", core_emitter, "CoreEmitter"), ("ModelsEmitter", models_emitter, "ModelsEmitter"),
                         ("EndpointsEmitter", endpoints_emitter, "EndpointsEmitter"),
                         ("ClientEmitter", client_emitter, "ClientEmitter"), ("MocksEmitter", mocks_emitter, "MocksEmitter"),
                         ("PostprocessManager", ppm, "PostprocessManager")]:
        assert getattr(cg, nm) is getattr(mod, cls), f"client_generator.{nm} is not {cls}"

    def undo_all():
        for obj, attr, orig in reversed(undo):
            setattr(obj, attr, orig)
    return undo_all


def _gen_cli(spec_path: Path, root: Path, out_pkg: str, core_pkg: str | None, force: bool, post: bool) -> str:
    """the same call through the command line entry point (typer app), so that its defaults and argument mapping
    are exercised: no --force / --no-postprocess / --core-package unless asked for"""
    import logging
    from typer.testing import CliRunner
    from pyopenapi_gen.cli import app
    args = [str(spec_path), "--project-root", str(root), "--output-package", out_pkg]
    if force:
        args.append("--force")
    if not post:
        args.append("--no-postprocess")
    if core_pkg is not None:
        args += ["--core-package", core_pkg]
    logging.disable(logging.CRITICAL)
    try:
        res = CliRunner().invoke(app, args, catch_exceptions=True)
    finally:
        logging.disable(logging.NOTSET)
    text = res.output or ""
    try:
        text += res.stderr or ""
    except Exception:
        pass
    e = res.exception
    if isinstance(e, Injected):
        return f"fail:{str(e).rsplit(' ', 1)[-1]}"
    if e is not None and "injected I/O failure" in str(e):
        return "fail:IO"
    if isinstance(e, ValueError) and str(e).startswith("Invalid package name"):
        return "invalid"
    if res.exit_code == 0 and e is None:
        return "ok"
    if res.exit_code == 1 and "Differences found" in text:
        return "diff"
    return f"error:{type(e).__name__}: {str(e)[:200]} exit={res.exit_code}"


def _gen(spec_path: Path, root: Path, out_pkg: str, core_pkg: str | None, force: bool, post: bool,
         via_cli: bool = False) -> str:
    if via_cli:
        return _gen_cli(spec_path, root, out_pkg, core_pkg, force, post)
    import contextlib
    import io
    import logging
    import warnings
    from pyopenapi_gen.generator.client_generator import ClientGenerator
    buf = io.StringIO()
    logging.disable(logging.CRITICAL)
    try:
        with contextlib.redirect_stdout(buf), contextlib.redirect_stderr(buf), warnings.catch_warnings():
            warnings.simplefilter("ignore")
            ClientGenerator(verbose=False).generate(str(spec_path), root, out_pkg, force=force,
                                                    no_postprocess=not post, core_package=core_pkg)
        return "ok"
    except Injected as e:
        return f"fail:{str(e).rsplit(' ', 1)[-1]}"
    except BaseException as e:  # noqa: BLE001
        if isinstance(e, KeyboardInterrupt):
            raise
        msg = str(e)
        if "injected I/O failure" in msg:
            return "fail:IO"
        if isinstance(e, ValueError) and msg.startswith("Invalid package name"):
            return "invalid"
        if type(e).__name__ == "GenerationError" and "Differences found" in msg:
            return "diff"
        return f"error:{type(e).__name__}: {msg[:200]}"
    finally:
        logging.disable(logging.NOTSET)


# hand-written code that is NOT ruff-clean (unused / unsorted imports, formatting): a post-processing run that
# reaches it rewrites it, which the byte snapshot shows
UNCLEAN = "import sys, os\nimport json\nfrom typing import *\nx = {  'a':1 }\ndef  f( a,b ):\n  return a\n"


def prepare_existing(root: Path, case: dict, spec_path: Path, other_spec: Path) -> None:
    """build the tree that exists before the observed call"""
    ex = case["existing"]
    out_dir = root.joinpath(*[c for c in case["out"].split(".") if c])
    core_pkg = case["core"] if case["core"] is not None else case["out"] + ".core"
    core_dir = root.joinpath(*[c for c in core_pkg.split(".") if c])
    root.mkdir(parents=True, exist_ok=True)
    # sentinels: at the root, in an unrelated package, beside the ancestors
    (root / "SENTINEL.txt").write_text("do not touch\n")
    (root / "other_pkg").mkdir(exist_ok=True)
    (root / "other_pkg" / "keep.py").write_text(UNCLEAN)
    (root / "other_pkg" / "__init__.py").write_text("")
    (root / "legacy_root.py").write_text(UNCLEAN)
    if case.get("user_pkg"):
        # the user's own packages above the generated ones already exist and hold hand-written modules
        for d in (out_dir, core_dir):
            cur = d.parent
            while cur != root and root in cur.parents:
                (cur / "billing").mkdir(parents=True, exist_ok=True)
                for p, text in ((cur / "__init__.py", ""), (cur / "legacy.py", UNCLEAN),
                                (cur / "billing" / "__init__.py", ""), (cur / "billing" / "settings.py", UNCLEAN)):
                    if not p.exists():
                        p.write_text(text)
                cur = cur.parent
    if ex == "none":
        return
    if ex == "empty":
        out_dir.mkdir(parents=True, exist_ok=True)
        return
    src = other_spec if ex == "otherspec" else spec_path
    r = _gen(src, root, case["out"], case["core"], True, False)
    assert r == "ok", f"preparation failed: {r}"
    if ex == "equal" or ex == "otherspec":
        pass
    elif ex == "different":
        p = out_dir / "client.py"
        p.write_text(p.read_text() + "\n# local edit\n")
    elif ex == "coredifferent":
        p = core_dir / "exceptions.py"
        p.write_text(p.read_text() + "\n# local edit\n")
    elif ex == "corealiases":     # the ONLY difference is inside the core directory: edited exception_aliases.py
        p = core_dir / "exception_aliases.py"
        p.write_text(p.read_text() + "\n# local edit\n")
    elif ex == "coredeleted":     # ... a runtime file of the core is missing
        (core_dir / "pagination.py").unlink()
    elif ex == "coreextra":       # ... a stale extra module in the core
        (core_dir / "leftover.py").write_text("# stale\n")
    elif ex == "partial":
        shutil.rmtree(out_dir / "models")
        (out_dir / "client.py").unlink()
        (out_dir / "stale.py").write_text("# stale\n")
    else:
        raise ValueError(ex)
    # a sentinel beside the generated package, inside every ancestor package
    cur = out_dir.parent
    while cur != root and root in cur.parents:
        (cur / "sibling_keep.py").write_text(UNCLEAN)
        cur = cur.parent


_REF: dict[tuple, dict[str, str]] = {}


def reference_tree(out: str, core: str | None, spec: int) -> dict[str, str]:
    """sha256 per relative path of what the direct path leaves for this configuration (fresh root, force,
    no post-processing) — used only to give the existing files their abstract content token"""
    key = (out, core, spec)
    if key not in _REF:
        import pipeline
        box = Path(tempfile.mkdtemp(prefix="c10ref_", dir=pipeline.SCRATCH)).resolve()
        try:
            sp = box / "spec.json"
            sp.write_text(json.dumps(make_spec(spec)))
            (box / "proj").mkdir()
            r = _gen(sp, box / "proj", out, core, True, False)
            _REF[key] = {k: v[2] for k, v in snapshot(box / "proj").items() if v[0] == "f"} if r == "ok" else {}
        finally:
            shutil.rmtree(box, ignore_errors=True)
    return _REF[key]


def run_killed_child(case: dict, box: Path, spec_path: Path, root: Path, n: int) -> str:
    """generation in a child process that dies (os._exit, no finally / atexit / TemporaryDirectory clean-up) at its
    n-th file-system mutation below the sandbox; the child's temp dir is box/tmp, so leftovers stay in the sandbox"""
    (box / "tmp").mkdir(exist_ok=True)
    env = dict(os.environ)
    env["TMPDIR"] = str(box / "tmp")
    arg = {"spec": str(spec_path), "root": str(root), "out": case["out"], "core": case["core"], "force": case["force"],
           "post": case["post"], "n": n, "box": str(box), "cwd": os.getcwd()}
    p = subprocess.run([sys.executable, str(Path(__file__).resolve()), "--kill-child"], input=json.dumps(arg), env=env,
                       capture_output=True, text=True, timeout=600, cwd=os.getcwd())
    if p.returncode == 137:
        return "killed"
    for line in reversed(p.stdout.splitlines()):
        if line.startswith("@@OUT "):
            return line[6:]
    return f"error:child rc={p.returncode}: {(p.stdout + p.stderr)[-300:]}"


def kill_child() -> None:
    arg = json.loads(sys.stdin.read())
    box = arg["box"]
    state = {"n": 0}

    def hook(event: str, args: tuple) -> None:
        p = None
        if event == "open":
            path, mode, flags = args
            if isinstance(path, (str, bytes, os.PathLike)) and (
                    (isinstance(mode, str) and any(ch in mode for ch in "wax+")) or
                    (mode is None and isinstance(flags, int) and flags & (os.O_WRONLY | os.O_RDWR | os.O_CREAT))):
                p = os.fsdecode(os.fspath(path))
        elif event in ("os.mkdir", "os.remove", "os.rmdir", "os.rename", "shutil.rmtree"):
            p = os.fsdecode(os.fspath(args[0]))
        if p is not None and os.path.realpath(p).startswith(box + os.sep):
            state["n"] += 1
            if state["n"] == arg["n"]:
                os._exit(137)

    sys.addaudithook(hook)
    os.chdir(arg["cwd"])
    out = _gen(Path(arg["spec"]), Path(arg["root"]), arg["out"], arg["core"], arg["force"], arg["post"])
    sys.stdout.write("\n@@OUT " + out + "\n")
    sys.stdout.flush()


def check_env_facts(root: Path) -> list[str]:
    """the primitive facts the model's environment assumptions (wf_tmp, wf_log) are derived from (Proofs/GenFS.v
    env_wf), checked on the machine that runs the case"""
    bad = []
    td = os.path.realpath(tempfile.gettempdir())
    rs = os.path.realpath(str(root))
    if td == rs or td.startswith(rs + os.sep):
        bad.append("tempfile.gettempdir() is the project root or inside it")
    if not os.path.isdir(rs):
        bad.append("project root is not an existing directory")
    for name in ("pyopenapi_gen_error.log", "pyopenapi_gen_mocks_error.log"):
        if os.path.isdir(os.path.join(td, name)):
            bad.append(f"{name} is a directory")
    return bad


def run_case(case: dict) -> dict:
    import pipeline
    pipeline.SCRATCH.mkdir(parents=True, exist_ok=True)
    box = Path(tempfile.mkdtemp(prefix="c10_", dir=pipeline.SCRATCH)).resolve()
    root = box / "proj"
    cwd0 = os.getcwd()
    try:
        spec_path = box / "spec.json"
        spec_path.write_text(json.dumps(make_spec(case["spec"])))
        other = box / "other.json"
        other.write_text(json.dumps(make_spec(1 - case["spec"])))
        prepare_existing(root, case, spec_path, other)
        (box / "cwd").mkdir()
        os.chdir(root if case.get("cwd_root") else box / "cwd")
        env_bad = check_env_facts(root)
        if env_bad:
            raise RuntimeError("environment assumption violated on this machine: " + "; ".join(env_bad))
        before = snapshot(root)
        ref = reference_tree(case["out"], case["core"], case["spec"])
        toks = {}
        for rel, (kd, size, sha) in before.items():
            if kd == "f":
                toks[rel] = 0 if ref.get(rel) == sha else (2 if size == 0 else 1)
        undo = _install(case["fail_at"])
        _REC["events"] = []
        _REC["stage"] = "Pre"
        fa = case["fail_at"]
        _REC["io_name"] = fa[3:] if isinstance(fa, str) and fa.startswith("IO:") else None
        _REC["io_fired"] = False
        _REC["io_stage"] = None
        _REC["zones"] = (str(box), os.path.realpath(tempfile.gettempdir()))
        _REC["on"] = True
        try:
            if isinstance(fa, str) and fa.startswith("KILL:"):
                _REC["on"] = False
                outcome = run_killed_child(case, box, spec_path, root, int(fa[5:]))
            else:
                cli_core = None if case.get("cli_core_omitted") else case["core"]
                outcome = _gen(spec_path, root, case["out"], cli_core if case.get("via_cli") else case["core"],
                               case["force"], case["post"], via_cli=bool(case.get("via_cli")))
        finally:
            _REC["on"] = False
            undo()
            os.chdir(cwd0)
        after = snapshot(root)
        # canonicalise events: paths under root -> "R/<rel>", under the TemporaryDirectory -> "T/<rel>"
        rs = str(root)
        tmpdir = os.path.realpath(tempfile.gettempdir())
        tmp_root = None
        evs = []
        for st, kind, p, _ in _REC["events"]:
            if kind == "recorder-error":
                evs.append([st, kind, p])
                continue
            ap = os.path.normpath(os.path.join(cwd0, p)) if not os.path.isabs(p) else os.path.normpath(p)
            rp = os.path.realpath(ap)
            if rp == rs or rp.startswith(rs + os.sep):
                evs.append([st, kind, "R/" + os.path.relpath(rp, rs) if rp != rs else "R"])
            elif rp.startswith(tmpdir + os.sep):
                rel = os.path.relpath(rp, tmpdir)
                first = rel.split(os.sep)[0]
                if first == "pyopenapi_gen_file_write_debug.log":
                    continue
                if first.startswith("pyopenapi_gen") and os.sep not in rel:
                    evs.append([st, kind, "S/" + first])  # the emitters' error logs (informational: outside the root)
                    continue
                if tmp_root is None and kind == "mkdir" and os.sep not in rel:
                    tmp_root = first
                if tmp_root is not None and first == tmp_root:
                    sub = rel[len(first) + 1:]
                    evs.append([st, kind, "T/" + sub if sub else "T"])
                else:
                    evs.append([st, kind, "X/" + rel])
            elif rp.startswith(str(box) + os.sep):
                evs.append([st, kind, "B/" + os.path.relpath(rp, str(box))])
            else:
                evs.append([st, kind, "X/" + rp])
        created = sorted(k for k in after if k not in before)
        deleted = sorted(k for k in before if k not in after)
        modified = sorted(k for k in after if k in before and after[k] != before[k])
        return {"input": case, "obs": {"outcome": outcome, "io_stage": _REC.get("io_stage"), "events": evs, "created": created, "deleted": deleted,
                                       "modified": modified,
                                       "before": [[k, v[0], toks.get(k, 0)] for k, v in sorted(before.items())]}}
    finally:
        os.chdir(cwd0)
        shutil.rmtree(box, ignore_errors=True)


def worker() -> None:
    sys.addaudithook(_audit)
    cases = json.loads(sys.stdin.read())
    out = []
    for c in cases:
        try:
            out.append(run_case(c))
        except BaseException as e:  # noqa: BLE001
            import traceback
            out.append({"input": c, "obs": {"outcome": "harness-error: " + repr(e), "trace": traceback.format_exc()[-1500:],
                                            "events": [], "created": [], "deleted": [], "modified": [], "before": []}})
    sys.stdout.write("\n@@C10 " + json.dumps(out) + "\n")


def run_parallel(cases: list[dict], nproc: int = 12) -> list[dict]:
    if not cases:
        return []
    nproc = max(1, min(nproc, len(cases)))
    chunks = [cases[i::nproc] for i in range(nproc)]
    env = dict(os.environ)
    env["PYTHONPATH"] = f"{IMPL_SRC}:{HERE}"
    env["PYTHONHASHSEED"] = "0"
    env["PYTHONDONTWRITEBYTECODE"] = "1"

    def one(chunk):
        p = subprocess.run([sys.executable, str(Path(__file__).resolve()), "--worker"], input=json.dumps(chunk), env=env,
                           capture_output=True, text=True, timeout=3000)
        for line in reversed(p.stdout.splitlines()):
            if line.startswith("@@C10 "):
                return json.loads(line[6:])
        raise RuntimeError(f"C10 worker died rc={p.returncode}: {(p.stdout + p.stderr)[-1500:]}")

    with ThreadPoolExecutor(max_workers=nproc) as ex:
        res = list(ex.map(one, chunks))
    out: list = [None] * len(cases)
    for k, r in enumerate(res):
        for j, x in enumerate(r):
            out[k + j * nproc] = x
    return out


# ---------------------------------------------------------------- the property's own oracle
def _pkg_dir(pkg: str) -> str | None:
    """relative directory of a dotted package, or None when the text names no package (empty component)"""
    comps = pkg.split(".")
    if not pkg or any(c == "" for c in comps):
        return None
    return "/".join(comps)


def allowed_rel(case: dict, rel: str) -> bool:
    """property text: inside the output package directory, the core package directory, or an ancestor package
    (the directory itself or its __init__.py)"""
    out = _pkg_dir(case["out"])
    core = _pkg_dir(case["core"] if case["core"] is not None else case["out"] + ".core")
    for d in (out, core):
        if d is None:
            continue
        if rel == d or rel.startswith(d + "/"):
            return True
        parts = d.split("/")
        for k in range(1, len(parts)):
            anc = "/".join(parts[:k])
            if rel == anc or rel == anc + "/__init__.py":
                return True
    return False


DIFFERING = ("different", "coredifferent", "corealiases", "coredeleted", "coreextra", "partial", "otherspec", "empty")


def oracle(case_obs: dict) -> list[str]:
    case, o = case_obs["input"], case_obs["obs"]
    fails: list[str] = []
    if o["outcome"].startswith(("harness-error", "error:")):
        return [f"generation ended with an unexpected exception: {o['outcome'][:80]}"]
    before = {b[0] for b in o["before"]}
    out_rel = "/".join(c for c in case["out"].split(".") if c)
    existed = (out_rel == "" or out_rel in before)
    under_root = [(st, k, p) for st, k, p in o["events"] if p == "R" or p.startswith("R/")]
    if not case["force"] and existed:
        if o["created"] or o["deleted"] or o["modified"]:
            fails.append("non-force generation over an existing output package changed the tree under the project root")
        elif under_root:
            fails.append("non-force generation over an existing output package wrote or removed something under the "
                         "project root (restored afterwards)")
        # result: match -> success, difference or failure -> raises
        injected = case["fail_at"] is not None and (o["outcome"] == "fail:" + case["fail_at"] or (
            case["fail_at"].startswith("IO:") and o["outcome"] == "fail:IO"))
        if str(case["fail_at"]).startswith("Write#") and o["outcome"] == "ok" and case["existing"] in DIFFERING:
            fails.append("existing output differs from what would be generated but generation did not raise")
        if case["fail_at"] is None or (case["fail_at"].startswith("IO:") and o["outcome"] != "fail:IO"):
            if case["existing"] in DIFFERING and o["outcome"] not in ("diff", "invalid"):
                fails.append("existing output differs from what would be generated but generation did not raise")
            if case["existing"] == "equal" and not case["post"] and o["outcome"] != "ok":
                fails.append("existing output matches what would be generated but generation raised")
        if o.get("io_stage") is not None and o["outcome"] == "ok":
            fails.append("an I/O failure part-way through a non-force generation was swallowed: the call reported success")
        elif case["fail_at"] is not None and not injected and o["outcome"].startswith("fail:"):
            fails.append("failure reported for a stage that was not the injected one")
    # containment, every mode
    bad = sorted({p[2:] for _, _, p in under_root if p != "R" and not allowed_rel(case, p[2:])}
                 | {p for p in o["created"] + o["deleted"] + o["modified"] if not allowed_rel(case, p)})
    if any(p == "R" and k in ("remove", "rmtree") for _, k, p in under_root):
        bad.append("<project root itself removed>")
    if bad:
        fails.append("a path outside the output package, the core package and their ancestors' __init__.py was "
                     "written or removed under the project root")
        o["not_contained"] = bad[:8]
    return fails


# ---------------------------------------------------------------- Coq printers
def c_path(comps: list[str]) -> str:
    from framework import clist, cstr
    return clist(cstr(c) for c in comps)


def _abs(p: str) -> list[str]:
    """'R/a/b' -> ['R','a','b'] ; the TemporaryDirectory 'T/x' -> ['S','T','x'] below the system temp dir 'S'"""
    parts = p.split("/")
    return ["S"] + parts if parts[0] == "T" else parts


def c_case(case_obs: dict) -> str:
    from framework import cbool, clist, copt, cpair, cstr
    case, o = case_obs["input"], case_obs["obs"]
    tags, models = spec_names(case["spec"])
    cwd = ["R"] if case.get("cwd_root") else ["B", "cwd"]
    core = copt(case["core"], lambda c: clist(cstr(x) for x in c.split(".")))
    cfg = (f"{{| root := {c_path(['R'])}; tmp := {c_path(['S', 'T'])}; cwd := {c_path(cwd)}; "
           f"out_pkg := {clist(cstr(x) for x in case['out'].split('.'))}; core_pkg := {core}; "
           f"force := {cbool(case['force'])}; post := {cbool(case['post'])}; "
           f"tags := {clist(cstr(t) for t in tags)}; models := {clist(cstr(m) for m in models)} |}}")
    io = isinstance(case["fail_at"], str) and case["fail_at"].startswith("IO:")
    fail = cstr(case["fail_at"][3:]) if io else copt(case["fail_at"], lambda x: x)
    fs = [cpair(c_path(["R"]), "Dir")]
    for rel, kd, tok in o["before"]:
        fs.append(cpair(c_path(["R"] + rel.split("/")), "Dir" if kd == "d" else f"(File {tok})"))
    oc = o["outcome"]
    if oc == "ok":
        n, st = "0", "None"
    elif oc == "diff":
        n, st = "1", "None"
    elif oc == "invalid":
        n, st = "4", "None"
    elif oc == "fail:IO":
        n, st = "3", f"(Some {o['io_stage'] if o.get('io_stage') in COQ_STAGES else 'Other'})"
    elif oc.startswith("fail:"):
        n, st = "2", f"(Some {oc[5:]})"
    else:
        n, st = "9", "None"
    evs = []
    for stg, kind, p in o["events"]:
        if not (p == "R" or p == "T" or p.startswith(("R/", "T/", "S/"))):
            continue  # outside the project root, the temporary directory and the emitters' logs (black cache ...)
        if kind == "mkdir":
            continue  # directory creation is compared through created/deleted
        k = "W" if kind == "write" else "D"
        stg_c = stg if stg in COQ_STAGES else "Other"
        evs.append(f"({stg_c}, {k}, {c_path(_abs(p))})")
    evs = sorted(set(evs))
    canon = lambda ps: sorted({p for p in ps if "/.ruff_cache/" not in "/" + p + "/" or p.endswith(".ruff_cache")})  # noqa: E731
    created = clist(c_path(["R"] + p.split("/")) for p in canon(o["created"]))
    deleted = clist(c_path(["R"] + p.split("/")) for p in canon(o["deleted"]))
    return f"(({cfg}, {fail}, {clist(fs)}), ({n}, {st}, {clist(evs)}, {created}, {deleted}))"


COQ_STAGES = {"Load", "Parse", "Setup", "Exceptions", "Core", "Core2", "Models", "Endpoints", "Endpoints2", "Client",
              "Mocks", "RichInit", "Post", "Diff", "Final"}

# ---------------------------------------------------------------- case generators
LAYOUTS = [  # (output package, core package) — embedded / sibling / nested / name-prefix / deep
    ("client", None), ("a.client", None),
    ("c1", "core"), ("c1", "shared.core"),
    ("a.b.client", "a.core"), ("a.client", "a.client.rt"), ("a.client", "a.b.core"),
    ("c1", "c1x.core"), ("pkg.api", "x.y.z.core"),
    # sibling cores whose DOTTED NAME merely begins with the output package name
    ("c1", "c1_core"), ("pkg.api", "pkg.api_core"),
]
PREFIX_SHARING = [("c1", "c1x.core"), ("c1", "c1_core"), ("pkg.api", "pkg.api_core")]
CORE_ONLY = ["coredifferent", "corealiases", "coredeleted", "coreextra"]
# base names for the inner fault injection (model modules are written as <m>.tmp and renamed, hence pet.tmp)
IO_NAMES = ["client.py", "mock_pets.py", "mock_client.py", "pets.py", "pet.tmp", "exception_aliases.py",
            ".exception_registry.json", "http_transport.py", "plugins.py", "__init__.py", "py.typed", "config.py",
            "README.md", "mocks", "endpoints", "models", "auth", "core"]
EXISTING = ["none", "empty", "equal", "different", "coredifferent", "partial", "otherspec", "corealiases", "coredeleted",
            "coreextra"]
FAILS = [None] + STAGES


def mk(out, core, force, existing, fail_at, spec=0, post=False, cwd_root=False) -> dict:
    return {"out": out, "core": core, "force": force, "post": post, "existing": existing, "fail_at": fail_at,
            "spec": spec, "cwd_root": cwd_root, "user_pkg": post}


NESTED = [lay for lay in LAYOUTS if "." in lay[0]]


def gen_cases(rng, thorough: bool) -> list[dict]:
    cases = []
    if thorough:
        for (out, core) in LAYOUTS:
            for force in (False, True):
                for ex in EXISTING:
                    for fa in FAILS:
                        cases.append(mk(out, core, force, ex, fa, spec=rng.randint(0, 1)))
    else:
        for force in (False, True):
            for ex in EXISTING[:7]:   # the core-only variants have their own block below
                for fa in FAILS:
                    out, core = rng.choice(LAYOUTS)
                    cases.append(mk(out, core, force, ex, fa, spec=rng.randint(0, 1)))
        for (out, core) in LAYOUTS:  # every layout without failure, both modes, equal/different
            for force in (False, True):
                for ex in ("none", "equal", "different"):
                    cases.append(mk(out, core, force, ex, None))
    # the ONLY difference lies inside the core directory: sibling cores, in particular those whose name shares a
    # prefix with the output package; non-force must raise (and touch nothing), force must stay contained
    for (out, core) in PREFIX_SHARING + [("c1", "shared.core"), ("a.b.client", "a.core")]:
        for ex in CORE_ONLY:
            cases.append(mk(out, core, False, ex, None, spec=rng.randint(0, 1)))
            if thorough:
                cases.append(mk(out, core, True, ex, None, spec=rng.randint(0, 1)))
    # failures in the middle of a stage (N-th FileManager.write_file raises): judged by the oracle only
    for _ in range(120 if thorough else 30):
        out, core = rng.choice(LAYOUTS)
        cases.append(mk(out, core, rng.random() < 0.4, rng.choice(EXISTING), f"Write#{rng.randint(1, 45)}",
                        spec=rng.randint(0, 1)))
    # failures INSIDE a stage: the OS refuses the first creation of a file / directory with this base name
    # (what FileManager.write_file / ensure_dir, Path.write_text, open, mkdir see) — replayed on the model
    combos = [(n, force, ex) for n in IO_NAMES for force in (False, True) for ex in ("none", "equal", "different")]
    for (n, force, ex) in combos:
        for (out, core) in (LAYOUTS if thorough else [rng.choice(LAYOUTS)]):
            if thorough and rng.random() < 0.6:
                continue
            cases.append(mk(out, core, force, ex, "IO:" + n, spec=rng.randint(0, 1)))
    # the process is killed at its n-th file-system mutation (no clean-up at all): judged by the oracle only
    for _ in range(90 if thorough else 24):
        out, core = rng.choice(LAYOUTS)
        cases.append(mk(out, core, rng.random() < 0.35, rng.choice(EXISTING), f"KILL:{rng.randint(1, 110)}",
                        spec=rng.randint(0, 1)))
    # through the command line entry point (typer defaults: no --force, post-processing on, core = <out>.core)
    for _ in range(40 if thorough else 10):
        out, core = rng.choice(LAYOUTS)
        c = mk(out, core if core is not None else out + ".core", rng.random() < 0.4,
               rng.choice(["none", "different", "empty"]), rng.choice([None, None, "Models", "Diff"]),
               spec=rng.randint(0, 1), post=rng.random() < 0.6, cwd_root=rng.random() < 0.4)
        c["via_cli"] = True
        c["cli_core_omitted"] = core is None
        cases.append(c)
    # post-processing (real ruff): only existing trees whose diff decision does not depend on ruff's output
    for _ in range(60 if thorough else 16):
        out, core = rng.choice(NESTED if rng.random() < 0.7 else LAYOUTS)
        cases.append(mk(out, core, rng.random() < 0.5, rng.choice(["none", "different", "empty"]),
                        rng.choice([None, None, "Post", "Mocks", "Diff"]), spec=rng.randint(0, 1), post=True,
                        cwd_root=rng.random() < 0.4))
    return cases


# ---------------------------------------------------------------- entry
def main(chk, replay: dict | None = None) -> int:
    from framework import load_corpus
    if replay is not None:
        r = run_parallel([replay["input"]], 1)[0]
        r["oracle_fail"] = oracle(r)
        r["obs"].pop("before", None)
        print(json.dumps(r, indent=1))
        if r["oracle_fail"]:
            print(f"VIOLATION property=C10 replay=(replayed) : {r['oracle_fail']}")
            return 1
        return 0
    chk.prove()
    inputs = [c["input"] for c in load_corpus("C10")] + gen_cases(chk.rng, chk.thorough)
    cases = run_parallel(inputs)
    for c in cases:
        c["oracle_fail"] = oracle(c)
    chk.cov["evaluations"] = len(cases)
    chk.cov["distinct_nontrivial"] = len({json.dumps(c["input"], sort_keys=True) for c in cases
                                          if c["input"]["existing"] != "none" or c["input"]["fail_at"]})
    dist: dict = {"by_mode": {}, "by_existing": {}, "by_fail_at": {}, "by_outcome": {}, "layouts": {}, "post": 0,
                  "cwd_is_root": 0, "audit_events": 0, "oracle_failures": 0, "impl_source": IMPL_SRC}
    for c in cases:
        i, o = c["input"], c["obs"]
        for key, val in (("by_mode", "force" if i["force"] else "noforce"), ("by_existing", i["existing"]),
                         ("by_fail_at", str(i["fail_at"]).split("#")[0].split(":")[0]), ("by_outcome", o["outcome"].split(":")[0]),
                         ("layouts", f"{i['out']}|{i['core']}")):
            dist[key][val] = dist[key].get(val, 0) + 1
        dist["post"] += int(i["post"])
        dist["cwd_is_root"] += int(bool(i.get("cwd_root")))
        dist["audit_events"] += len(o["events"])
        dist["oracle_failures"] += int(bool(c["oracle_fail"]))
    chk.cov["input_distribution"] = dist
    for c in cases[:2] + cases[-2:]:
        chk.sample({"input": c["input"], "outcome": c["obs"]["outcome"], "created": len(c["obs"]["created"]),
                    "deleted": len(c["obs"]["deleted"]), "modified": len(c["obs"]["modified"]),
                    "events": len(c["obs"]["events"])})
    midway = [c for c in cases if str(c["input"]["fail_at"]).startswith(("Write#", "KILL:"))]
    inner = [c for c in cases if str(c["input"]["fail_at"]).startswith("IO:")]
    cases = [c for c in cases if not str(c["input"]["fail_at"]).startswith(("Write#", "IO:", "KILL:"))]
    dist["killed_runs"] = sum(1 for c in midway if c["obs"]["outcome"] == "killed")
    dist["via_cli"] = sum(1 for c in cases if c["input"].get("via_cli"))
    dist["env_facts_checked"] = len(cases) + len(midway) + len(inner)
    dist["midstage_failures_oracle_only"] = len(midway)
    dist["inner_io_failures"] = len(inner)
    dist["inner_io_hit_stage"] = {}
    dist["error_log_writes_in_system_tmp"] = 0
    for c in inner:
        k = str(c["obs"].get("io_stage"))
        dist["inner_io_hit_stage"][k] = dist["inner_io_hit_stage"].get(k, 0) + 1
        dist["error_log_writes_in_system_tmp"] += sum(1 for _, _, p in c["obs"]["events"] if p.startswith("S/"))
    codes = codes_io = None
    if chk.model_ok:
        codes_io = chk.coq_eval("From PG Require Import Lib.Strs Model.GenFS Corr.C10.",
                                "(config * str * fs) * obs", [c_case(c) for c in inner], "run_io", shard=40, tag="io")
    if chk.model_ok:
        codes = chk.coq_eval("From PG Require Import Lib.Strs Model.GenFS Corr.C10.",
                             "(config * option stage * fs) * obs", [c_case(c) for c in cases], "run", shard=40)
    for c in cases + midway + inner:  # keep replay files small
        c["obs"] = {k: v for k, v in c["obs"].items() if k != "before"}
    # mid-stage failures are not replayed on the model (its theorems cover every prefix of the operation plan);
    # with well-formed packages and no post-processing any oracle failure there is a violation
    chk.decide(midway, None, {}, "oracle only")
    chk.decide(inner, codes_io, {},
               "Corr.C10.run_io: generate_io(model) = outcome, audit events and created/deleted paths when the OS refuses "
               "the first creation of a chosen file or directory inside a stage")
    chk.decide(cases, codes, {},
               "Corr.C10.run: generate(model) = outcome, audit events per stage (write/remove/rmtree under the project "
               "root and the temporary directory) and created/deleted paths of the sandbox project root")
    return chk.finish(TRUSTED,
                      rule="corpus + {force, no force} x existing tree {none, empty, equal, different, core different, partial, "
                           "other spec} x failure injected at {none, 12 stages} over 9 package layouts (all combinations in "
                           "thorough, one random layout per combination in quick) + real post-processing cases; "
                           "non-trivial = an existing tree or an injected failure; distinct by JSON of the case")


if __name__ == "__main__":
    if "--worker" in sys.argv:
        worker()
    elif "--kill-child" in sys.argv:
        kill_child()
    elif "--probe" in sys.argv:
        cs = json.loads(sys.stdin.read())
        for r in run_parallel(cs, 4):
            print(json.dumps(r["input"]))
            o = r["obs"]
            print("  outcome:", o["outcome"], "created", len(o["created"]), "deleted", len(o["deleted"]), "modified",
                  len(o["modified"]))
            if "trace" in o:
                print(o["trace"])
            last = None
            for st, kind, p in o["events"]:
                if st != last:
                    print("  [" + st + "]")
                    last = st
                print("     ", kind, p)
