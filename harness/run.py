"""Entry point: run.py Cxx [--tier quick|thorough] [--replay file]"""
import argparse
import importlib
import json
import os
import sys
import traceback

sys.path.insert(0, os.path.dirname(os.path.abspath(__file__)))
from framework import Check, VERIF  # noqa: E402


def main() -> int:
    ap = argparse.ArgumentParser()
    ap.add_argument("pid")
    ap.add_argument("--tier", default=os.environ.get("VERIF_TIER", "quick"), choices=["quick", "thorough"])
    ap.add_argument("--replay")
    a = ap.parse_args()
    seed = int(os.environ.get("VERIF_SEED", "0") or 0)
    mod = importlib.import_module(f"prop_{a.pid}")
    chk = Check(a.pid, a.tier, seed)
    if a.replay:
        p = a.replay if os.path.isabs(a.replay) else str(VERIF / a.replay)
        return mod.main(chk, replay=json.loads(open(p).read()))
    try:
        return mod.main(chk)
    except Exception:
        traceback.print_exc()
        # an internal error of the machinery is not evidence of anything: report it as a broken check
        chk.broken.append({"kind": "harness-error", "name": f"prop_{a.pid}", "detail": traceback.format_exc()[-2000:]})
        return chk.finish(["(run aborted by a harness error)"], rule="aborted") or 1


if __name__ == "__main__":
    sys.exit(main())
