"""C18 — stream decoders are independent of how the bytes are chunked.

The REAL helpers (iter_bytes, iter_ndjson, iter_sse, iter_sse_events_text, plus httpx's aiter_text/aiter_lines they
sit on) are driven over `httpx.Response(200, content=<async byte-chunk iterator>)`; the Coq model
(coq/Model/Streaming.v) is evaluated on the SAME chunk lists.

Oracle (written from the property text, independent of the model):
  (a) for every chunking: items == items for the unsplit stream (bytes: concatenation == stream);
  (b) for streams produced by the sender below: decoded events == the events that were encoded
      (data lines joined by "\n", comments ignored - a comment-only block is no event -, last event/id/retry,
      final unterminated event delivered);
      NDJSON: decoded records == the records that were written.
"""
from __future__ import annotations

import asyncio
import codecs
import itertools
import json
import os
import sys
from typing import Any

# The implementation is whatever PYTHONPATH puts first (./check: ${VERIF_REPO_ROOT:-/repo}/src).

import httpx  # noqa: E402

from framework import Check, cZ, cbool, clist, copt, cpair, cstr, load_corpus  # noqa: E402

TRUSTED = [
    "Coq 8.16.1 kernel + vm_compute (witness theorems and correspondence evaluation)",
    "hand-written Gallina model coq/Model/Streaming.v of streaming_helpers.py, tied to the code by this run's cases",
    "MODELLED, NOT VERIFIED: httpx 0.28 Response.aiter_bytes/aiter_text/aiter_lines, ByteChunker/TextChunker(None), "
    "LineDecoder.decode/flush (transcribed statement for statement), CPython's incremental UTF-8 decoder on well-formed "
    "input (pending-bytes automaton; ill-formed input is outside the model) and str.splitlines (one-pass scanner) — "
    "all compared with the installed code on every case of every run",
    "section oracles: int() and json.loads are arbitrary functions in the theorems; in the correspondence they are "
    "finite tables computed by CPython for the strings of each case",
    "translator harness/tables_C18.py: NEWLINE_CHARS (httpx, cross-checked against str.splitlines over all code points), "
    "str.isspace set, field-name/separator literals and call shape of streaming_helpers.py",
]

EXOTIC = ["\x0b", "\x0c", "\x1c", "\x1d", "\x1e", "\x85", "\u2028", "\u2029"]
PLAIN = ["a", "hello", "x y", '{"k": 1}', "é", "€uro", "😀", "中文", "a:b", "", "trail ", "ü:ö", "z", "0", "naïve café",
         "\U0001F600\u00e9", "tab\there", "q\u00a0r", "\ufeff"]
LEADWS = [" lead", "  two", "\tTab", "\u3000wide", "\u00a0nb", " ", "\x1fus"]
TERMS = {"LF": "\n", "CRLF": "\r\n", "CR": "\r"}


# ---------------------------------------------------------------- generators
def gen_text(rng, p_exotic=0.06, p_lead=0.06) -> str:
    r = rng.random()
    if r < p_exotic:
        return rng.choice(PLAIN[:8]) + rng.choice(EXOTIC) + rng.choice(PLAIN[:8])
    if r < p_exotic + p_lead:
        return rng.choice(LEADWS) + rng.choice(["", "x"])
    if r < 0.5:
        return rng.choice(PLAIN)
    return rng.choice(PLAIN) + rng.choice(["", " ", "-", ": "]) + rng.choice(PLAIN)


def gen_block(rng, clean: bool) -> list:
    px, pl = (0.0, 0.0) if clean else (0.06, 0.06)
    items = []
    if not clean and rng.random() < 0.07:   # a keep-alive: comments only
        return [["comment", gen_text(rng, 0.0, 0.2)] for _ in range(rng.randint(1, 2))]
    for _ in range(rng.randint(1, 5)):
        r = rng.random()
        if r < 0.55:
            items.append(["data", gen_text(rng, px, pl)])
        elif r < 0.70:
            items.append(["comment", gen_text(rng, px, 0.2)])
        elif r < 0.80:
            items.append(["event", "" if rng.random() < 0.15 else gen_text(rng, px, pl)])
        elif r < 0.90:
            items.append(["id", "" if rng.random() < 0.2 else gen_text(rng, px, pl)])
        else:
            items.append(["retry", rng.choice(["0", "7", "3000", "0012", "123456789012345678901234567890"])])
    return items


def gen_sse_spec(rng) -> dict:
    clean = rng.random() < 0.55
    return {"term": rng.choice(["LF", "LF", "CRLF", "CRLF", "CR"]), "tail": rng.choice(["full", "full", "line", "none"]),
            "blocks": [gen_block(rng, clean) for _ in range(rng.randint(1, 4))]}


def gen_json_value(rng, depth=0) -> Any:
    r = rng.random()
    if depth < 2 and r < 0.25:
        return {rng.choice(["a", "k", "é", "id"]): gen_json_value(rng, depth + 1) for _ in range(rng.randint(0, 3))}
    if depth < 2 and r < 0.4:
        return [gen_json_value(rng, depth + 1) for _ in range(rng.randint(0, 3))]
    if r < 0.6:
        return rng.randint(-5, 1000)
    if r < 0.7:
        return rng.choice([True, False, None])
    return gen_text(rng, 0.08, 0.05)


def gen_nd_spec(rng) -> dict:
    """lines: [record-or-null, text]; null = a blank / white-space-only line the reader must skip"""
    lines = []
    for _ in range(rng.randint(1, 5)):
        if rng.random() < 0.15:
            lines.append([None, rng.choice(["", " ", "\t", "  "])])
        else:
            v = gen_json_value(rng)
            txt = json.dumps(v, ensure_ascii=rng.random() < 0.2)
            pad = rng.choice(["", "", "", " ", "\t"])
            lines.append([{"v": v}, pad + txt + rng.choice(["", "", " "])])
    return {"term": rng.choice(["LF", "LF", "CRLF", "CR"]), "tail": rng.choice(["line", "line", "none"]), "lines": lines}


RAW_LINES = ["data: a", "data:b", "data", "data:", "data:  x", ": c", ":", "event: e", "id: 1", "id", "retry: 5", "retry: x",
             "retry: 1_0", "retry: +5 ", "retry: -3", "retry: ١٢", "foo: bar", "nocolon", "data: é€😀", "data : sp",
             " data: lead", "data: a\u2028b", "data: x\x85", "\ufeffdata: bom", '{"a": 1}', "[1, 2]", "  7  ", "nope{", '"s\u2028t"',
             "", "", "", "event:e\x0bdata: v", "data::", "id:\tt", "retry:", "data: \U0001F600"]
RAW_TERMS = ["\n", "\n", "\r\n", "\r\n", "\r", "\n\n", "\r\n\r\n", "\r\r", "\x0b", "\x0c", "\x1c", "\x85", "\u2028", "\u2029",
             "\n\r", "\r\n\n"]


def gen_raw(rng) -> bytes:
    r = rng.random()
    if r < 0.7:
        parts = []
        for _ in range(rng.randint(1, 7)):
            parts.append(rng.choice(RAW_LINES))
            parts.append(rng.choice(RAW_TERMS))
        if rng.random() < 0.4:
            parts.pop()
        b = "".join(parts).encode()
        if rng.random() < 0.1 and b:  # truncated in the middle of a character: the end of a broken connection
            b = b[:rng.randrange(len(b))]
        return b
    if r < 0.85:
        alpha = [b"a", b":", b" ", b"\n", b"\r", b"\r\n", b"d", b"\xc3\xa9", b"\xe2\x82\xac", b"\xf0\x9f\x98\x80", b"\xc2\x85",
                 b"\xe2\x80\xa8", b"\x0c", b"data: ", b"\n\n", b"1", b"{}", b"\t"]
        return b"".join(rng.choice(alpha) for _ in range(rng.randint(0, 14)))
    # ill-formed UTF-8 (outside the model; the oracle still demands chunk independence)
    alpha = [b"a", b"\n", b"\r", b"\xc3", b"\xa9", b"\xe2", b"\x82", b"\xf0", b"\xff", b"\xc0\xaf", b"\xed\xa0\x80", b"data: ", b":",
             b"\xed\xa0", b"\xed", b"\xbf", b"\xf4\x90", b"\xf0\x9f\x98", b"\xe0\x80", b"\x80", b"\n\n", b"\xe2\x80\xa8", b"\xc2"]
    return b"".join(rng.choice(alpha) for _ in range(rng.randint(1, 12)))


def interesting_cuts(stream: bytes) -> list[int]:
    """cuts inside multi-byte characters, between \\r and \\n, between/inside line terminators, between lines"""
    out = []
    for i in range(1, len(stream)):
        a, b = stream[i - 1], stream[i]
        if 0x80 <= b <= 0xBF:
            out.append(i)
        elif a == 13 or a == 10 or b == 10 or b == 13:
            out.append(i)
    return out


def gen_chunkings(rng, stream: bytes, k: int) -> list[list[int]]:
    n = len(stream)
    res: list[list[int]] = [[]]
    if n >= 2:
        res.append(list(range(1, n)))  # every byte alone
    ic = interesting_cuts(stream)
    if ic:
        res.append(ic)
        res.append(sorted(rng.sample(ic, rng.randint(1, len(ic)))))
    while len(res) < k:
        if n < 2:
            res.append([0] * rng.randint(0, 2) + [n] * rng.randint(0, 1))
            continue
        m = rng.randint(1, min(8, n - 1))
        cuts = sorted(rng.sample(range(1, n), m))
        if ic and rng.random() < 0.6:
            cuts = sorted(set(cuts) | set(rng.sample(ic, min(len(ic), rng.randint(1, 3)))))
        if rng.random() < 0.15:  # empty chunks on the wire
            cuts = sorted(cuts + [rng.choice(cuts + [0, n])])
        res.append(cuts)
    seen, out = set(), []
    for c in res:
        if tuple(c) not in seen:
            seen.add(tuple(c))
            out.append(c)
    return out


def all_chunkings(n: int) -> list[list[int]]:
    pts = list(range(1, n))
    return [list(c) for r in range(len(pts) + 1) for c in itertools.combinations(pts, r)]


EXHAUSTIVE_STREAMS = [
    "data: é\r\n\r\n", "a\r\nb\r\r\nc", "data:a\n\nid:1", "€\r\n😀\n", ": c\ndata:x\n\n", '{"a":1}\r\n2\n', "d\u2028\r\n\r",
    "data:x\r\r\n\n", "\r\n\r\n\r\n", "x\r", "\r", "\n", "", "é", "😀", "data: 😀\n", "a\x85\r\nb", "data:a\rdata:b", "id:1\r\n\r\nx",
    "data:\n\n\n:\n", " 1 \n\t\n[]\r", "a\u2029\u2028b", "data:a\r\n", "retry:5\n\nq", "\r\r\r\n\r", "data: a\n\n",
]


def chunks_of(stream: bytes, cuts: list[int]) -> list[bytes]:
    pts = [0] + list(cuts) + [len(stream)]
    return [stream[a:b] for a, b in zip(pts, pts[1:])]


# ---------------------------------------------------------------- the sender (independent of the Coq encoder)
def item_line(kind: str, s: str) -> str:
    return {"comment": ":" + s, "data": "data: " + s, "event": "event: " + s, "id": "id: " + s, "retry": "retry: " + s}[kind]


def encode_sse(spec: dict) -> bytes:
    t = TERMS[spec["term"]]
    lines: list[str] = []
    for b in spec["blocks"]:
        lines += [item_line(k, s) for k, s in b] + [""]
    if spec["tail"] == "full":
        txt = "".join(l + t for l in lines)
    elif spec["tail"] == "line":
        txt = "".join(l + t for l in lines[:-1])
    else:
        txt = t.join(lines[:-1])
    return txt.encode("utf-8")


def encode_nd(spec: dict) -> bytes:
    t = TERMS[spec["term"]]
    ls = [l for _, l in spec["lines"]]
    return (t.join(ls) if spec["tail"] == "none" else "".join(l + t for l in ls)).encode("utf-8")


def expected_events(spec: dict) -> list:
    out = []
    for b in spec["blocks"]:
        if all(k == "comment" for k, _ in b):
            continue  # comments are ignored: a block made of comments only (keep-alive) carries no event
        data = "\n".join(s for k, s in b if k == "data")
        ev = next((s for k, s in reversed(b) if k == "event"), None)
        i = next((s for k, s in reversed(b) if k == "id"), None)
        rt = next((int(s) for k, s in reversed(b) if k == "retry"), None)
        out.append([data, ev, i, rt])
    return out


# ---------------------------------------------------------------- implementation runner
def _resp(chunks: list[bytes]) -> httpx.Response:
    async def gen():
        for c in chunks:
            yield c
    return httpx.Response(200, content=gen())


async def _observe(chunks: list[bytes]) -> dict:
    from pyopenapi_gen.core import streaming_helpers as sh
    o: dict[str, Any] = {}
    o["bytes"] = [bytes(x) async for x in sh.iter_bytes(_resp(chunks))]
    o["texts"] = [x async for x in _resp(chunks).aiter_text()]
    o["lines"] = [x async for x in _resp(chunks).aiter_lines()]
    try:
        o["sse"] = [[e.data, e.event, e.id, e.retry] async for e in sh.iter_sse(_resp(chunks))]
    except Exception as e:  # nothing in iter_sse is documented to raise
        o["sse"] = "EXC " + type(e).__name__
    try:
        o["tev"] = [x async for x in sh.iter_sse_events_text(_resp(chunks))]
    except Exception as e:
        o["tev"] = "EXC " + type(e).__name__
    items, raised = [], False
    try:
        async for x in sh.iter_ndjson(_resp(chunks)):
            items.append(x)
    except ValueError:
        raised = True
    o["nd"] = [items, raised]
    return o


def stream_of(inp: dict) -> bytes:
    return bytes.fromhex(inp["stream"])


def well_formed(stream: bytes) -> bool:
    """strict decoding succeeds, or fails only because the stream ends inside a (so far legal) character"""
    try:
        stream.decode("utf-8")
        return True
    except UnicodeDecodeError as e:
        return e.reason == "unexpected end of data" and e.end == len(stream)


def canon(v: Any) -> str:
    return json.dumps(v, sort_keys=True, ensure_ascii=True)


async def run_case_async(inp: dict) -> dict:
    stream = stream_of(inp)
    per = [await _observe(chunks_of(stream, cuts)) for cuts in inp["chunkings"]]
    whole = await _observe([stream])
    return {"input": inp, "per": per, "whole": whole}


# ---------------------------------------------------------------- end to end: a generated client
def e2e_spec() -> dict:
    import pipeline
    def op(oid: str, media: str, schema: dict) -> dict:
        return {"get": {"operationId": oid, "tags": ["t"],
                        "responses": {"200": {"description": "ok", "content": {media: {"schema": schema}}}}}}
    return pipeline.base_spec({
        "/sse": op("get_sse", "text/event-stream", {"type": "object"}),
        "/nd": op("get_nd", "application/x-ndjson", {}),   # untyped items: the generated code yields them as parsed
        "/bin": op("get_bin", "application/octet-stream", {"type": "string", "format": "binary"}),
    })


E2E_DRIVER = r'''
import asyncio, importlib, httpx, json
def main(arg):
    cm = importlib.import_module("client.client")
    cfgm = importlib.import_module("client.core.config")
    return asyncio.run(run(cm, cfgm, arg["jobs"]))
async def run(cm, cfgm, jobs):
    cur = {}
    def handler(req):
        async def chunks():              # the server: the same async byte-chunk iterator the helpers are driven with
            for c in cur["chunks"]:
                yield c
        return httpx.Response(200, content=chunks(), headers={"content-type": cur["ct"]})
    api = cm.APIClient(cfgm.ClientConfig(base_url="http://srv.test"))
    await api.transport._client.aclose()
    api.transport._client = httpx.AsyncClient(base_url="http://srv.test", transport=httpx.MockTransport(handler))
    out = []
    for stream_hex, cuts in jobs:
        body = bytes.fromhex(stream_hex)
        pts = [0] + list(cuts) + [len(body)]
        cur["chunks"] = [body[a:b] for a, b in zip(pts, pts[1:])]
        row = {}
        for op, ct in (("get_sse", "text/event-stream"), ("get_nd", "application/x-ndjson"),
                       ("get_bin", "application/octet-stream")):
            cur["ct"] = ct
            items, status = [], "ok"
            try:
                async for x in getattr(api.t, op)():
                    items.append(x.hex() if isinstance(x, (bytes, bytearray)) else x)
            except ValueError:
                status = "json"          # json.loads raised on an event's data
            except BaseException as e:
                status = "EXC " + type(e).__name__ + ": " + str(e)[:100]
            row[op] = [items, status]
        out.append(row)
    await api.close()
    return out
'''


def run_e2e(chk: Check, results: list[dict]) -> dict:
    """Drive a client generated by the real generator (text/event-stream, ndjson and octet-stream operations) against a
    MockTransport server that sends the same chunk lists.  Fills r["e2e"] (one row per driven chunking) and returns what
    the generated endpoint code calls."""
    import re
    import pipeline
    info: dict[str, Any] = {}
    g = pipeline.generate(e2e_spec(), package="client")
    try:
        if not g.ok:
            chk.broken.append({"kind": "pipeline", "name": "generate(e2e spec)", "detail": str(g.error)})
            return {"generated": False, "error": str(g.error)}
        src = g.read("client/endpoints/t.py")
        calls = re.findall(r"async def (get_\w+)\(.*?async for (\w+) in (\w+)\(response\):\s*\n\s*yield ([^\n]+)", src, re.S)
        info["generated_calls"] = {m: f"async for {v} in {h}(response): yield {y.strip()}" for m, v, h, y in calls}
        # which helper each generated streaming operation calls is read off the generated code; the model follows it
        KNOWN = {("iter_sse_events_text", "json.loads(chunk)"): "HSseText", ("iter_ndjson", "item"): "HNdjson",
                 ("iter_bytes", "chunk"): "bytes"}
        helpers = {m: KNOWN.get((h, y.strip())) for m, v, h, y in calls}
        if (set(helpers) != {"get_sse", "get_nd", "get_bin"} or helpers["get_bin"] != "bytes"
                or helpers["get_sse"] not in ("HSseText", "HNdjson") or helpers["get_nd"] not in ("HSseText", "HNdjson")):
            chk.broken.append({"kind": "pipeline", "name": "generated streaming code calls a helper/yield form that is not modelled",
                               "detail": json.dumps(info["generated_calls"])})
            return {**info, "driven": False}
        info["helpers"] = helpers
        for r in results:
            r["e2e_helpers"] = helpers
        tsrc = g.read("client/core/http_transport.py")
        info["transport_reads_whole_body"] = ("self._client.request(" in tsrc) and (".stream(" not in tsrc)
        jobs, owner = [], []
        per_stream = 4 if chk.thorough else 2
        for ri, r in enumerate(results):
            cs = r["input"]["chunkings"]
            pick = [0] + sorted(range(1, len(cs)), key=lambda i: -len(cs[i]))[:per_stream - 1]
            for ci in pick:
                jobs.append([r["input"]["stream"], cs[ci]])
                owner.append(ri)
        res = pipeline.drive(g, E2E_DRIVER, {"jobs": jobs}, timeout=1500)
        if not res.get("ok"):
            chk.broken.append({"kind": "pipeline", "name": "drive(generated client)", "detail": str(res)[:1500]})
            return {**info, "driven": False}
        for ri, row in zip(owner, res["result"]):
            results[ri].setdefault("e2e", []).append(row)
        info["e2e_calls"] = 3 * len(jobs)
        return info
    finally:
        g.cleanup()


def oracle_e2e(r: dict) -> list[str]:
    """(a) the generated client's items do not depend on how the server's bytes were chunked; (b) they are what the
    helper yields on the unsplit stream (json.loads of every non-empty event data / the bytes sent)."""
    rows = r.get("e2e")
    if not rows:
        return []
    fails = []
    if any(canon(row) != canon(rows[0]) for row in rows[1:]):
        fails.append("generated client: items depend on how the server chunked the body")
    stream = stream_of(r["input"])
    row = rows[0]
    if bytes.fromhex("".join(row["get_bin"][0])) != stream or row["get_bin"][1] != "ok":
        fails.append("generated client (octet-stream): streamed chunks differ from the bytes sent")
    helpers = r.get("e2e_helpers", {})
    tev = r["whole"]["tev"]
    exp_by_helper: dict[str, Any] = {}
    if isinstance(tev, list):
        exp, status = [], "ok"
        for t in tev:
            try:
                exp.append(json.loads(t))
            except ValueError:
                status = "json"
                break
        exp_by_helper["HSseText"] = ([exp, status], "json.loads of iter_sse_events_text")
    nd = r["whole"]["nd"]
    exp_by_helper["HNdjson"] = ([nd[0], "json" if nd[1] else "ok"], "iter_ndjson")
    for op in ("get_sse", "get_nd"):
        h = helpers.get(op)
        if h in exp_by_helper and canon(row[op]) != canon(exp_by_helper[h][0]):
            fails.append(f"generated client ({op}): items differ from {exp_by_helper[h][1]} on the same stream")
    # the records that were written come back through the generated application/x-ndjson operation
    if r["input"]["kind"] == "ndjson" and helpers.get("get_nd") == "HNdjson":
        recs = [x["v"] for x, _ in r["input"]["spec"]["lines"] if x is not None]
        if canon(row["get_nd"]) != canon([recs, "ok"]):
            fails.append("generated client (get_nd): decoded records differ from the records that were written")
    return fails


# ---------------------------------------------------------------- the property's own oracle
def oracle(inp: dict, per: list[dict], whole: dict) -> tuple[list[str], int | None]:
    """returns (failures, index of the first chunking that is chunk-dependent or None)"""
    stream = stream_of(inp)
    fails: list[str] = []
    first_dep = None
    for idx, (cuts, o) in enumerate(zip(inp["chunkings"], per)):
        bad = []
        if b"".join(o["bytes"]) != stream:
            bad.append("iter_bytes: concatenation of the items differs from the stream")
        if "".join(o["texts"]) != "".join(whole["texts"]):
            bad.append("aiter_text: decoded text depends on the chunking")
        for k, name in (("lines", "aiter_lines"), ("sse", "iter_sse"), ("tev", "iter_sse_events_text"), ("nd", "iter_ndjson")):
            if canon(o[k]) != canon(whole[k]):
                bad.append(f"{name}: items for chunking differ from items for the unsplit stream")
        if bad and first_dep is None:
            first_dep = idx
            fails += bad
    spec = inp.get("spec")
    if inp["kind"] == "sse":
        exp = expected_events(spec)
        if whole["sse"] != exp:
            fails.append("iter_sse: decoded events differ from the events that were encoded")
        elif whole["tev"] != [e[0] for e in exp if e[0]]:
            fails.append("iter_sse_events_text: differs from the non-empty data payloads that were encoded")
    elif inp["kind"] == "ndjson":
        exp_nd = [[r["v"] for r, _ in spec["lines"] if r is not None], False]
        if canon(whole["nd"]) != canon(exp_nd):
            fails.append("iter_ndjson: decoded records differ from the records that were written")
    return fails, first_dep


def minimise_cuts(inp: dict, idx: int) -> dict:
    """greedy: drop cut points of the failing chunking while it still differs from the unsplit run"""
    stream = stream_of(inp)

    def dep(cuts: list[int]) -> bool:
        async def go():
            return await _observe(chunks_of(stream, cuts)), await _observe([stream])
        o, w = asyncio.run(go())
        return (b"".join(o["bytes"]) != stream or "".join(o["texts"]) != "".join(w["texts"])
                or any(canon(o[k]) != canon(w[k]) for k in ("lines", "sse", "tev", "nd")))
    cuts = list(inp["chunkings"][idx])
    changed = True
    while changed:
        changed = False
        for i in range(len(cuts)):
            c2 = cuts[:i] + cuts[i + 1:]
            if dep(c2):
                cuts, changed = c2, True
                break
    return {**inp, "chunkings": [cuts]}


# ---------------------------------------------------------------- Coq printers
def c_event(e: list) -> str:
    return (f"{{| e_data := {cstr(e[0])}; e_event := {copt(e[1], cstr)}; e_id := {copt(e[2], cstr)}; "
            f"e_retry := {copt(e[3], cZ)} |}}")


def c_item(it: list) -> str:
    k, s = it
    return f"({ {'comment': 'IComment', 'data': 'IData', 'event': 'IEvent', 'id': 'IId', 'retry': 'IRetry'}[k]} {cstr(s)})"


C_TERM = {"LF": "LF", "CRLF": "CRLF", "CR": "CRonly"}
C_TAIL = {"full": "TFull", "line": "TLine", "none": "TNone"}


def c_spec(inp: dict) -> str:
    s = inp.get("spec")
    if inp["kind"] == "sse":
        return f"(SSse {C_TERM[s['term']]} {C_TAIL[s['tail']]} {clist(clist(c_item(i) for i in b) for b in s['blocks'])})"
    if inp["kind"] == "ndjson":
        return f"(SNd {C_TERM[s['term']]} {C_TAIL[s['tail']]} {clist(cstr(l) for _, l in s['lines'])})"
    return "SRaw"


def oracle_tables(stream: bytes, extra_json: list[str] = ()) -> tuple:
    """CPython's int() / json.loads() on every string the helpers could hand them for this stream:
    candidates are taken from str.splitlines of the whole decoded text (a superset is harmless)."""
    text = stream.decode("utf-8", errors="replace")
    ints: dict[str, int] = {}
    int_fail: set[str] = set()
    ids: dict[str, int] = {}
    jtab: dict[str, int] = {}
    for line in text.splitlines():
        for i, ch in enumerate(line):
            if ch == ":":
                raw = line[i + 1:]
                for v in {raw, raw[1:] if raw.startswith(" ") else raw, raw.lstrip()}:
                    try:
                        ints[v] = int(v)
                    except ValueError:
                        if v.isascii() and len(v) <= 40:
                            int_fail.add(v)
        for s in (line.strip(), line):
            if s:
                try:
                    d = canon(json.loads(s))
                except ValueError:
                    continue
                jtab[s] = ids.setdefault(d, len(ids))
    for s in extra_json:   # strings the generated client hands to json.loads (event data, possibly multi-line)
        try:
            d = canon(json.loads(s))
        except ValueError:
            continue
        jtab[s] = ids.setdefault(d, len(ids))
    return sorted(ints.items()), ids, sorted(jtab.items()), sorted(int_fail)


def c_case(r: dict) -> str | None:
    """None when the implementation's observation cannot be written in the model's vocabulary (an exception where
    none is modelled): then the case counts as a correspondence failure by itself."""
    inp, per, whole = r["input"], r["per"], r["whole"]
    stream = stream_of(inp)
    e2e = r.get("e2e")
    ints, ids, jtab, int_fail = oracle_tables(stream, [t for t in whole["tev"] if isinstance(t, str)] if isinstance(whole["tev"], list) else [])
    bad = not well_formed(stream)
    chunkings = [chunks_of(stream, c) for c in inp["chunkings"]]

    def nd_ids(nd):
        out = []
        for v in nd[0]:
            d = canon(v)
            out.append(ids.setdefault(d, len(ids)))
        return f"({clist(map(str, out))}, {cbool(nd[1])})"
    # the shared part must really be shared; otherwise split into one Coq case per chunking group (caller does that)
    o0 = per[0]
    if any(isinstance(o[k], str) for o in per for k in ("sse", "tev")):
        return None
    ce2e = "None"
    if e2e is not None:
        row = e2e[0]
        if any(row[op][1] not in ("ok", "json") for op in ("get_sse", "get_nd", "get_bin")):
            return None
        ce2e = (f"(Some ({nd_ids([row['get_sse'][0], row['get_sse'][1] == 'json'])}, "
                f"{nd_ids([row['get_nd'][0], row['get_nd'][1] == 'json'])}, "
                f"{clist(cstr(bytes.fromhex(b)) for b in row['get_bin'][0])}))")
    ci = (f"{{| i_chunkings := {clist(clist(cstr(c) for c in cs) for cs in chunkings)}; i_spec := {c_spec(inp)}; "
          f"i_int := {clist(cpair(cstr(k), cZ(v)) for k, v in ints)}; i_int_fail := {clist(cstr(k) for k in int_fail)}; "
          f"i_json := {clist(cpair(cstr(k), str(v)) for k, v in jtab)}; "
          f"i_h_sse := {r.get('e2e_helpers', {}).get('get_sse', 'HSseText')}; "
          f"i_h_nd := {r.get('e2e_helpers', {}).get('get_nd', 'HNdjson')} |}}")
    same_bytes = all(o["bytes"] == cs for o, cs in zip(per, chunkings))
    bl = "(i_chunkings i)" if same_bytes else clist(clist(cstr(b) for b in o["bytes"]) for o in per)
    texts = clist(clist(cstr(t) for t in o["texts"]) for o in per)
    obs = (f"expand {bl} {cbool(bad)} {texts} {clist(cstr(l) for l in o0['lines'])} {clist(c_event(e) for e in o0['sse'])} "
           f"{clist(cstr(t) for t in o0['tev'])} {nd_ids(o0['nd'])} {ce2e}")
    return f"(let i := {ci} in (i, {obs}))"


def jsonable(o: Any) -> Any:
    if isinstance(o, bytes):
        return o.hex()
    if isinstance(o, dict):
        return {k: jsonable(v) for k, v in o.items()}
    if isinstance(o, (list, tuple)):
        return [jsonable(v) for v in o]
    return o


def split_by_obs(r: dict) -> list[dict]:
    """group the chunkings of one case by the (shared part of the) observation, so each Coq case has one"""
    groups: dict[str, list[int]] = {}
    for i, o in enumerate(r["per"]):
        key = json.dumps([o["lines"], o["sse"], o["tev"], canon(o["nd"])], sort_keys=True)
        groups.setdefault(key, []).append(i)
    if len(groups) <= 1:
        return [r]
    out = []
    for idxs in groups.values():
        inp = {**r["input"], "chunkings": [r["input"]["chunkings"][i] for i in idxs]}
        out.append({"input": inp, "per": [r["per"][i] for i in idxs], "whole": r["whole"],
                    **({"e2e": r["e2e"]} if "e2e" in r else {}),
                    **({"e2e_helpers": r["e2e_helpers"]} if "e2e_helpers" in r else {})})
    return out


# ---------------------------------------------------------------- entry
def mk_input(kind: str, stream: bytes, chunkings: list[list[int]], spec: dict | None = None) -> dict:
    d = {"kind": kind, "stream": stream.hex(), "text": stream.decode("utf-8", errors="replace"), "chunkings": chunkings}
    if spec is not None:
        d["spec"] = spec
    return d


def build_inputs(chk: Check) -> list[dict]:
    rng = chk.rng
    inputs: list[dict] = []
    for c in load_corpus("C18"):
        i = dict(c["input"])
        if "stream" not in i:  # corpus entries may give the spec only
            i["stream"] = (encode_sse(i["spec"]) if i["kind"] == "sse" else encode_nd(i["spec"])).hex()
        st = stream_of(i)
        if not i.get("chunkings"):
            i["chunkings"] = gen_chunkings(rng, st, 6)
        inputs.append(i)
    n_sse, n_nd, n_raw, k = (1500, 500, 1200, 10) if chk.thorough else (260, 90, 220, 6)
    for _ in range(n_sse):
        spec = gen_sse_spec(rng)
        st = encode_sse(spec)
        inputs.append(mk_input("sse", st, gen_chunkings(rng, st, k), spec))
    for _ in range(n_nd):
        spec = gen_nd_spec(rng)
        st = encode_nd(spec)
        inputs.append(mk_input("ndjson", st, gen_chunkings(rng, st, k), spec))
    for _ in range(n_raw):
        st = gen_raw(rng)
        inputs.append(mk_input("raw", st, gen_chunkings(rng, st, k)))
    # every subset of split points for short streams
    ex = [s.encode() for s in EXHAUSTIVE_STREAMS]
    lim = 13 if chk.thorough else 7
    if chk.thorough:
        alpha = [b"a", b":", b" ", b"\n", b"\r", b"\xc3\xa9", b"\xe2\x80\xa8", b"\xf0\x9f\x98\x80", b"d", b"\xc2\x85"]
        for _ in range(40):
            ex.append(b"".join(rng.choice(alpha) for _ in range(rng.randint(3, 9))))
    for st in ex:
        st = st[:lim] if len(st) > lim else st
        inputs.append(mk_input("raw", st, all_chunkings(len(st))))
    return inputs


def run_all(inputs: list[dict]) -> list[dict]:
    async def go():
        return [await run_case_async(i) for i in inputs]
    return asyncio.run(go())


def main(chk: Check, replay: dict | None = None) -> int:
    if replay is not None:
        r = run_all([replay["input"]])[0]
        fails, _ = oracle(r["input"], r["per"], r["whole"])
        print(json.dumps(jsonable({"input": r["input"], "whole": r["whole"], "per": r["per"][:4], "oracle_fail": fails}),
                         indent=1))
        if fails:
            print(f"VIOLATION property=C18 replay=(replayed) : {fails}")
            return 1
        return 0
    chk.prove()
    chk.assumptions = [
        "C18_partial / C18_partial_bytes: int() maps every non-empty ASCII digit string to its value (section hypothesis; "
        "checked against CPython's int() through the per-case tables)",
        "all theorems: the stream is inside the model's domain when utf8_decode <> None (well-formed UTF-8, possibly "
        "truncated inside the last character); json.loads and int() are arbitrary functions",
        "identity Content-Encoding and default utf-8 charset (how the real helpers are driven)",
    ]
    inputs = build_inputs(chk)
    results = run_all(inputs)
    e2e_info = run_e2e(chk, results)
    cases: list[dict] = []
    coq_cases: list[str] = []
    unprintable: list[dict] = []
    dist = {"kind": {}, "term": {}, "tail": {}, "stream_bytes": {}, "chunks_per_chunking": {}}

    def bump(d: dict, k: Any) -> None:
        d[str(k)] = d.get(str(k), 0) + 1
    n_eval = n_min = 0
    distinct: set = set()
    stats = {"ill_formed_streams": 0, "non_ascii_streams": 0, "cuts_inside_multibyte": 0, "cuts_between_cr_lf": 0,
             "exhaustive_streams": 0, "oracle_failures": 0, "ndjson_raised": 0}
    for r in results:
        inp = r["input"]
        st = stream_of(inp)
        fails, dep = oracle(inp, r["per"], r["whole"])
        fails = fails + oracle_e2e(r)
        rep_inp = inp
        if dep is not None:  # report the failing chunking alone; minimise its cut set for the first few
            n_min += 1
            rep_inp = minimise_cuts(inp, dep) if n_min <= 6 else {**inp, "chunkings": [inp["chunkings"][dep]]}
        bump(dist["kind"], inp["kind"])
        if inp.get("spec"):
            bump(dist["term"], inp["spec"]["term"])
            bump(dist["tail"], inp["spec"]["tail"])
        bump(dist["stream_bytes"], min(len(st) // 16 * 16, 128))
        stats["ill_formed_streams"] += not well_formed(st)
        stats["non_ascii_streams"] += any(b >= 128 for b in st)
        stats["exhaustive_streams"] += len(inp["chunkings"]) == 2 ** max(len(st) - 1, 0) and len(st) > 3
        stats["oracle_failures"] += bool(fails)
        stats["ndjson_raised"] += r["whole"]["nd"][1]
        for cuts in inp["chunkings"]:
            n_eval += 1
            bump(dist["chunks_per_chunking"], min(len(cuts) + 1, 16))
            if cuts:
                distinct.add((inp["stream"], tuple(cuts)))
            stats["cuts_inside_multibyte"] += any(0 < c < len(st) and 0x80 <= st[c] <= 0xBF for c in cuts)
            stats["cuts_between_cr_lf"] += any(0 < c < len(st) and st[c - 1] == 13 and st[c] == 10 for c in cuts)
        for j, part in enumerate(split_by_obs(r)):
            txt = c_case(part)
            case = {"input": rep_inp if (fails and j == 0) else part["input"],
                    "obs": jsonable({"whole": r["whole"], "first_chunking": part["per"][0]}),
                    "oracle_fail": fails if j == 0 else []}
            if txt is None:
                unprintable.append(case)
                if case["oracle_fail"]:
                    chk.violation(case, "; ".join(case["oracle_fail"]))
                continue
            cases.append(case)
            coq_cases.append(txt)
    chk.cov["evaluations"] = n_eval
    chk.cov["distinct_nontrivial"] = len(distinct)
    chk.cov["input_distribution"] = {**dist, **stats, "streams": len(results)}
    chk.cov["end_to_end"] = e2e_info
    for r in results[:1] + results[len(results) // 2:len(results) // 2 + 2]:
        chk.sample({"input": {k: v for k, v in r["input"].items() if k != "chunkings"},
                    "chunkings": r["input"]["chunkings"][:3], "whole": jsonable(r["whole"])})
    codes = None
    if chk.model_ok:
        # shards are balanced by size: an exhaustive case carries up to 4096 chunkings
        order = sorted(range(len(cases)), key=lambda i: -len(coq_cases[i]))
        big = [i for i in order if len(coq_cases[i]) > 60000]
        small = [i for i in range(len(cases)) if i not in set(big)]
        codes_by_idx: dict[int, int] = {}
        ok = True
        for tag, idxs, shard in (("big", big, 2), ("cases", small, 120)):
            res = chk.coq_eval("From PG Require Import Lib.Strs Model.Streaming Corr.C18.", "input * list obs",
                               [coq_cases[i] for i in idxs], "run", shard=shard, tag=tag)
            if res is None:
                ok = False
                break
            codes_by_idx.update(zip(idxs, res))
        codes = [codes_by_idx[i] for i in range(len(cases))] if ok else None
    if unprintable:
        chk.broken.append({"kind": "correspondence", "name": "helper raised an exception the model does not have",
                           "mismatches": len(unprintable), "first": {"input": unprintable[0]["input"]}})
    # Attribution of an oracle failure to a listed finding needs model = implementation on the observables the oracle
    # looks at item by item (lines, events, records; bits 8, 11..17).  A disagreement that is confined to the *shape*
    # of the byte/text chunks (bits 9, 10: only their concatenation is constrained by the property) is recorded in the
    # evidence but is neither a broken correspondence nor a reason to turn known findings into violations.
    dcodes = None
    if codes is not None:
        ITEM = (1 << 8) | sum(1 << b for b in range(11, 20))
        SHAPE = (1 << 9) | (1 << 10)
        dcodes = [(c & ~1 & 0xFF) | (1 if c & ITEM else 0) for c in codes]
        shape = [cases[i] for i, c in enumerate(codes) if c & SHAPE]
        if shape:
            # informational only: the property constrains the concatenation of these items (checked by the oracle on the
            # implementation and proved for the model), not how httpx cuts them
            first = min(shape, key=lambda c: len(json.dumps(c["input"])))
            chk.cov["chunk_shape_differences"] = {"cases": len(shape), "first": first["input"]}
            chk.say(f"[C18] note: iter_bytes/aiter_text items are cut differently from the model's on {len(shape)} case(s) "
                    f"(not part of the property; concatenations are checked); smallest: {json.dumps(first['input'])[:200]}")
    chk.decide(cases, dcodes, {1: "F18a"},
               "Corr.C18.run: model(chunks) = real helpers over httpx.Response(content=<async chunk iterator>)")
    if codes is not None:
        diag = {}
        names = {8: "ill-formed-flag", 9: "bytes", 10: "texts", 11: "lines", 12: "sse", 13: "events_text", 14: "ndjson",
                 15: "end-to-end", 16: "encoder", 17: "same-stream", 18: "arity", 19: "int()-grammar"}
        for c in codes:
            for b, nme in names.items():
                if (c >> b) & 1:
                    diag[nme] = diag.get(nme, 0) + 1
        if diag:
            chk.say(f"[C18] observables on which model and implementation differ: {diag}")
            chk.cov["mismatch_observables"] = diag
    return chk.finish(
        TRUSTED,
        rule="evaluations = chunkings driven through all six real iterators and the model; distinct_nontrivial = distinct "
             "(stream, cut set) with at least one cut; inputs = corpus, sender-produced SSE streams (LF/CRLF/CR, three kinds "
             "of stream end, comments, multi-line/empty/non-ASCII data, exotic newlines and leading white space in a "
             "minority), NDJSON record streams, raw line soups with mixed/exotic terminators, random byte soups, ill-formed "
             "UTF-8 (oracle + error flag only), and every subset of split points for the short streams",
        explanation="iter_bytes yields the chunks themselves, so only the concatenation of its items can be (and is "
                    "required to be) independent of the chunking.")
