"""Developer tool: rewrites DESIGN.md from '### 9.4' to the end from the tree itself
(theorem names, findings, seeded changes, registered claims, fix commits)."""
import json
import re
import subprocess
from pathlib import Path

V = Path(__file__).resolve().parent.parent


def theorems() -> list[str]:
    out = ["### 9.4 Theorems per property",
           "",
           "From `coq/Properties/*.v`; every one prints `Closed under the global context`; `coqchk -o` (thorough tier)",
           "reports no axioms for any property file.",
           "",
           "| property | obligations | theorem names |", "|---|---|---|"]
    total = 0
    for f in sorted((V / "coq/Properties").glob("C*.v")):
        names = re.findall(r"^\s*(?:Theorem|Lemma|Example|Corollary)\s+(\w+)", f.read_text(), re.M)
        total += len(names)
        out.append(f"| {f.stem} | {len(names)} | {', '.join('`' + n + '`' for n in names)} |")
    out.append("")
    out.append(f"Total: {total} property theorems.")
    return out


def findings() -> list[str]:
    out = ["### 9.5 Findings: open and repaired",
           "",
           "From `known_findings/*.json`. An open finding has an executable guard conjunct in the `_partial` theorem, a",
           "`_refuted` witness theorem (or, where the defect lives outside the Coq model, an end-to-end witness that is",
           "reproduced on every run), a corpus witness, and prints one `KNOWN-FINDING` line per run while it reproduces. The",
           "same defect can be listed under several properties (e.g. F20k under C20 and C15, F02a under C02 and C19).",
           "",
           "| property | id | status | what |", "|---|---|---|---|"]
    n_open = n_fixed = 0
    for f in sorted((V / "known_findings").glob("C*.json")):
        k = json.loads(f.read_text())
        for x in k.get("findings", []):
            if x.get("status", "open") == "open":
                n_open += 1
            out.append(f"| {f.stem} | {x['id']} | {x.get('status', 'open')} | {x['what'][:260].replace('|', '/')} |")
        for x in k.get("fixed", []):
            n_fixed += 1
            out.append(f"| {f.stem} | | fixed | {x[:300].replace('|', '/')} |")
    out.append("")
    out.append(f"Open entries: {n_open}; fixed entries: {n_fixed} (an id can appear under more than one property).")
    return out


def seeds() -> list[str]:
    rows = []
    stats = {"caught": 0, "noinput": 0, "missed": 0, "notrun": 0}
    for d in sorted(p for p in (V / "seeded").iterdir() if not p.name.startswith("_") and (p / "meta.json").exists()):
        m = json.loads((d / "meta.json").read_text())
        r = json.loads((d / "result.json").read_text()) if (d / "result.json").exists() else {}
        if r.get("caught") and r.get("with_failing_input"):
            res = "caught, failing input"
            stats["caught"] += 1
        elif r.get("caught"):
            res = "caught, no-failing-input-found"
            stats["noinput"] += 1
        elif r:
            res = "MISSED"
            stats["missed"] += 1
        else:
            res = "not run"
            stats["notrun"] += 1
        rows.append(f"| {d.name} | {m['property']} | {str(m.get('summary', ''))[:230].replace('|', '/')} | "
                    f"{str(m.get('needs_to_manifest', ''))[:230].replace('|', '/')} | {res} |")
    out = ["### 9.6 Independently seeded breaking changes",
           "",
           "114 confirmed changes (of about 120 written) come from fresh sub-agents that saw only the text of one property and their own scratch",
           "worktree of /repo — nothing from /verif (round 1: `*_a`, `*_b` against the pinned tree + the first two repairs;",
           "round 2: `*_c`, `*_d` against the repaired tree, told only which files earlier seeds had touched; round 3:",
           "`*_e`, `*_f` against the frozen tree with 71 repairs, told to look for a mechanism no earlier seed used). Each was",
           "confirmed by the integrator in a scratch worktree (`harness/seed_confirm.sh`: demo passes clean, fails patched,",
           "suite has no new failure vs BASELINE.json) and stored under `seeded/<name>/` (patch.diff, demo, meta.json, and",
           "result.json written by `harness/seeded.py`, which applies the patch to a scratch worktree — never to /repo — and",
           "runs the property's quick check there through `VERIF_REPO_ROOT`).",
           "",
           "First-run results: round 1 — 18 of 40 caught with a failing input, 3 caught without one, 19 missed; round 2 — 19",
           "of 36 confirmable seeds caught with a failing input, 3 without, 14 missed; round 3 — 19 of 37 caught with a failing",
           "input, 2 without, 16 missed. **Every miss was a generator/observable",
           "gap, never a model that wrongly agreed**: the input the change needs (nested client packages; error bodies that",
           "are JSON scalars; one Python object shared at two positions of a list body; `2XX` range keys; compact `data:x` SSE",
           "syntax; allOf members carrying only `required`; a second client generated into a stale shared core; a path item",
           "with two methods sharing path-level query parameters; hand-written non-Ruff-clean modules in an ancestor package;",
           "a first client generated with its default core; a class object re-created under the same qualified name; whole",
           "JSON numbers for float fields; a cycle whose back edge targets a named union alias; schemas named like imported",
           "helper names; shared `components.requestBodies`; every declaration order of a self-referencing base + allOf child;",
           "a root `__init__.py` deleted from the existing tree; round 3: a client regenerated around a core shared with",
           "two other clients; long unbroken backslash tokens at the docstring wrap column; cycles closing through an",
           "additionalProperties edge; object/list defaults on optional properties; discriminator enum values that collide",
           "after member-name derivation; one-variant `anyOf [T, null]`; a forward reference resolved only after the",
           "converter's first use; trailing-slash / empty-segment path templates; `components.responses` shared by several",
           "operations; 3xx answers with a served `Location`; two spellings of one tag with equal score; several 2xx codes",
           "declared out of priority order; an edit confined to the shared core directory; undeclared path variables next to",
           "a body; U+2028/FF/NEL in response descriptions; operationIds colliding across tag spellings; …) was simply not generated, or the observable stopped one",
           "layer short (C02 compared the IR, not the emitted dataclasses; C13 compared annotation strings, not resolved",
           "objects). Each was added to the owning check's generators / observables / corpus, after which the seed is caught",
           "with a concrete failing input. Two seeds also exposed a weakness of the shared decision rule (an oracle failure on",
           "a model-less stream must always be a violation) which was corrected.",
           "",
           "Seeds whose patch stopped applying after repairs to the same lines, or that stopped being violations because a",
           "repair removed the mechanism they relied on, are kept under `seeded/_obsolete/` with a note (7 of the 114, six with their files; candidates that could not be confirmed as violations by `seed_confirm.sh` were dropped).",
           "",
           f"Current state on /repo HEAD: {stats['caught']} caught with a failing input, {stats['noinput']} caught without, "
           f"{stats['missed']} missed, {stats['notrun']} not run.",
           "",
           "| seed | property | what the change does | needs to manifest | result of `./check` on HEAD |",
           "|---|---|---|---|---|"] + rows
    return out


def claims() -> list[str]:
    out = ["### 9.7 What each check claims (the text registered in MANIFEST.json, from harness/manifest/Cxx.json)", ""]
    for f in sorted((V / "harness/manifest").glob("C*.json")):
        m = json.loads(f.read_text())
        out.append(f"**{f.stem}** — {m['text']}")
        out.append("")
        out.append(f"*Assumes / trusted base:* {m['note']}")
        out.append("")
    return out


def fixes() -> list[str]:
    log = subprocess.check_output("git -C /repo log --reverse --format='%h %s'", shell=True, text=True).splitlines()
    rows = [l for l in log if " fix:" in l]
    out = ["### 9.8 The `fix:` commits in /repo (oldest first)",
           "",
           f"{len(rows)} commits; each is unguarded, touches only what the defect requires, and the unedited suite keeps all 1617",
           "stable tests passing (`harness/baseline_check.py`). The patches and messages are also kept in `fixes/`.",
           "",
           "| commit | subject |", "|---|---|"]
    out += [f"| {l.split()[0]} | {' '.join(l.split()[1:]).replace('|', '/')} |" for l in rows]
    return out


def main() -> None:
    p = V / "DESIGN.md"
    s = p.read_text()
    head = s[:s.index("### 9.4 Theorems per property")]
    body = "\n".join(theorems() + [""] + findings() + [""] + seeds() + [""] + claims() + fixes()) + "\n"
    p.write_text(head + body)
    print("DESIGN.md §9.4–9.8 rewritten")


if __name__ == "__main__":
    main()
