"""Translator plug-in for C12 (self-contained clients): regenerates coq/Gen/T_C12.v from /repo's working tree.

Tables (all derived with `ast`, fail-closed):
  stdlib_names      sys.stdlib_module_names of the interpreter the generator runs under
  runtime_files     RUNTIME_FILES of emitters/core_emitter.py: (source module parts, file name, destination parts)
  runtime_imports   every Import/ImportFrom at any depth of every shipped runtime file
  template_imports  every import line found inside a string constant / f-string of the generator's own source
                    (docstrings excluded), with the module token classified
  import_sites      every call of the import-registration API (add_import, add_plain_import, add_relative_import,
                    add_conditional_import, add_typing_import, add_imports, add_typing_imports_for_type) in the
                    generator, with the module argument classified

Classification of a module expression (Coq type CoreImports.modarg):
  Lit level parts          a literal (level = number of leading dots)
  CorePrefixed parts       f"{<…core_package…>}" + literal suffix
  PkgPrefixed              f"{<package name expr>}.…"   (anything below the output package)
  InternalRelative         literal leading dot(s) followed by computed text
  Forwarded                a parameter of one of the API functions themselves (the callers are the sites)
  Delegated                add_typing_imports_for_type(type_string): modules are chosen by the sites inside that function
  Computed audited         anything else; audited=true only when (file, function, expression text) is in AUDITED below
The translator only classifies; the theorem C12_sites (Proofs/CoreImports.v) decides.  An expression the
classifier cannot recognise becomes `Computed false`, which makes the obligation fail (fail-closed).
"""
from __future__ import annotations

import ast
import re
import sys
from pathlib import Path

from tables import SRC, TranslatorError, cstr  # SRC follows VERIF_REPO_ROOT (default /repo)

OUT_NAME = "T_C12.v"


def _src() -> Path:
    return SRC


API = {"add_import", "add_plain_import", "add_relative_import", "add_conditional_import", "add_typing_import",
       "add_imports", "add_typing_imports_for_type"}
# position / keyword of the module argument for each API function
MODARG = {"add_import": (0, ("logical_module", "module")), "add_plain_import": (0, ("module",)),
          "add_relative_import": (0, ("module",)), "add_conditional_import": (1, ("module",)),
          "add_imports": (0, ("module",))}

# Audited computed module expressions: (file relative to src/pyopenapi_gen, enclosing function, expression text)
#   -> (claimed class, why).  Claimed classes: "pkg" (always below the output package), "stdlib:<name>" (always that
#   stdlib module), "dead" (the branch cannot run in generate_client: see why).
AUDITED: dict[tuple[str, str, str], tuple[str, str]] = {
    ("visit/client_visitor.py", "_generate_client_implementation", "f'endpoints.{module_name}'"):
        ("dead", "else-branch taken only when get_current_package_name_for_generated_code() is None; "
                 "generate_client always sets output_package_name"),
}


def _parse(p: Path) -> ast.Module:
    try:
        return ast.parse(p.read_text())
    except (OSError, SyntaxError) as e:
        raise TranslatorError(f"cannot parse {p}: {e}")


def cparts(parts: list[str]) -> str:
    return "[" + "; ".join(cstr(x) for x in parts) + "]"


def split_mod(s: str) -> tuple[int, list[str]]:
    lvl = len(s) - len(s.lstrip("."))
    rest = s[lvl:]
    return lvl, ([x for x in rest.split(".")] if rest else [])


# ------------------------------------------------------------------ (a) runtime files
def runtime_files() -> list[tuple[str, str, str]]:
    mod = _parse(_src() / "emitters/core_emitter.py")
    for n in mod.body:
        if isinstance(n, ast.Assign) and any(isinstance(t, ast.Name) and t.id == "RUNTIME_FILES" for t in n.targets):
            try:
                v = ast.literal_eval(n.value)
            except ValueError as e:
                raise TranslatorError(f"RUNTIME_FILES is not a literal: {e}")
            if not (isinstance(v, list) and v and all(isinstance(t, tuple) and len(t) == 3 and
                                                      all(isinstance(x, str) for x in t) for t in v)):
                raise TranslatorError("RUNTIME_FILES changed shape")
            for m, f, d in v:
                if not m.startswith("pyopenapi_gen.") or not f.endswith(".py") or not d.startswith("core/"):
                    raise TranslatorError(f"RUNTIME_FILES entry of unexpected form: {(m, f, d)}")
            return v
    raise TranslatorError("RUNTIME_FILES not found")


def runtime_source(module: str, filename: str) -> Path:
    return _src().joinpath(*module.split(".")[1:], filename)


def _imports_of(tree: ast.AST) -> list[tuple[int, str, int, int]]:
    """(level, module, location, line): location 0 = module top level, 1 = nested (function/class/try/if),
    2 = under `if TYPE_CHECKING`"""
    out: list[tuple[int, str, int, int]] = []

    def visit(node: ast.AST, loc: int) -> None:
        for ch in ast.iter_child_nodes(node):
            l2 = loc
            if isinstance(ch, ast.Import):
                for a in ch.names:
                    out.append((0, a.name, loc, ch.lineno))
                continue
            if isinstance(ch, ast.ImportFrom):
                out.append((ch.level, ch.module or "", loc, ch.lineno))
                continue
            if isinstance(ch, ast.If) and "TYPE_CHECKING" in ast.unparse(ch.test):
                for s in ch.body:
                    visit(ast.Module(body=[s], type_ignores=[]), 2)
                for s in ch.orelse:
                    visit(ast.Module(body=[s], type_ignores=[]), max(loc, 1))
                continue
            if not isinstance(ch, ast.expr) or isinstance(ch, (ast.Lambda,)):
                if isinstance(ch, (ast.FunctionDef, ast.AsyncFunctionDef, ast.ClassDef, ast.If, ast.Try, ast.With,
                                   ast.For, ast.While, ast.AsyncWith, ast.AsyncFor)):
                    l2 = max(loc, 1)
                visit(ch, l2)
    visit(tree, 0)
    return out


def runtime_imports() -> list[str]:
    rows = []
    for module, fn, dst in runtime_files():
        p = runtime_source(module, fn)
        if not p.is_file():
            raise TranslatorError(f"runtime file {p} is missing")
        tree = _parse(p)
        cur = dst[:-3].split("/")[1:]  # position below the core package, e.g. ["auth","plugins"]
        for lvl, m, loc, line in _imports_of(tree):
            l0, parts = split_mod(m)
            rows.append(f"  mkRI {cparts(cur)} {lvl} {cparts(parts)} {loc} (* {dst}:{line} *)")
    return rows


# ------------------------------------------------------------------ expression classification
def _expr_text(e: ast.AST) -> str:
    return ast.unparse(e)


def _is_core_expr(e: ast.AST) -> bool:
    t = _expr_text(e)
    return bool(re.fullmatch(r"(\w+\.)*core_package(_name)?", t))


def _is_pkg_expr(e: ast.AST, fn: ast.AST | None) -> bool:
    t = _expr_text(e)
    if re.search(r"get_current_package_name_for_generated_code\(\)$|(^|\.)output_package_name$|(^|\.)package_name$", t):
        return True
    # a local assigned from one of those
    if isinstance(e, ast.Name) and fn is not None:
        vals = _assigned_values(fn, e.id)
        return bool(vals) and all(_is_pkg_expr(v, None) for v in vals)
    return False


def _assigned_values(fn: ast.AST, name: str) -> list[ast.expr]:
    vals = []
    for n in ast.walk(fn):
        if isinstance(n, ast.Assign) and any(isinstance(t, ast.Name) and t.id == name for t in n.targets):
            vals.append(n.value)
        elif isinstance(n, ast.AnnAssign) and isinstance(n.target, ast.Name) and n.target.id == name and n.value:
            vals.append(n.value)
    return vals


def classify(e: ast.expr, fn: ast.AST | None, rel: str, fname: str, depth: int = 0) -> str:
    """-> Coq term of type modarg"""
    if isinstance(e, ast.Constant) and isinstance(e.value, str):
        lvl, parts = split_mod(e.value)
        return f"(Lit {lvl} {cparts(parts)})"
    if isinstance(e, (ast.Attribute, ast.Name)) and _is_core_expr(e):
        return "(CorePrefixed [])"          # the core package itself: add_import(context.core_package_name, name)
    if isinstance(e, ast.JoinedStr) and e.values:
        first = e.values[0]
        if isinstance(first, ast.FormattedValue):
            rest = e.values[1:]
            rest_lit = all(isinstance(v, ast.Constant) for v in rest)
            if _is_core_expr(first.value) and rest_lit:
                suffix = "".join(v.value for v in rest)  # type: ignore[union-attr]
                if suffix and not suffix.startswith("."):
                    return "(Computed false)"
                return f"(CorePrefixed {cparts(split_mod(suffix[1:])[1] if suffix else [])})"
            if _is_pkg_expr(first.value, fn) and (not rest or (isinstance(rest[0], ast.Constant)
                                                              and str(rest[0].value).startswith("."))):
                return "PkgPrefixed"
        elif isinstance(first, ast.Constant) and str(first.value).startswith("."):
            return "InternalRelative"
    if isinstance(e, ast.Name) and fn is not None and depth < 2:
        # parameter of an API function = forwarded
        if isinstance(fn, (ast.FunctionDef, ast.AsyncFunctionDef)) and fn.name in API | {"add_conditional_import"}:
            params = {a.arg for a in fn.args.args + fn.args.kwonlyargs}
            vals = _assigned_values(fn, e.id)
            if e.id in params:
                # re-assignments inside the API function must themselves be classifiable as below the package
                ok = all(_reassign_ok(v, e.id, fn) for v in vals)
                return "Forwarded" if ok else "(Computed false)"
        vals = _assigned_values(fn, e.id)
        if vals and all(isinstance(v, ast.Call) and isinstance(v.func, ast.Attribute)
                        and v.func.attr == "calculate_relative_path_for_internal_module" for v in vals):
            return "ViaRelativePath"
        if vals:
            alts: list[str] = []
            for v in vals:
                c = classify(v, fn, rel, fname, depth + 1)
                alts += c if isinstance(c, list) else [c]
            alts = sorted(set(alts))
            if alts and not any("Computed" in c for c in alts):
                return alts[0] if len(alts) == 1 else alts     # the site can register any of these
        lit = _regex_split_literal(fn, e.id)
        if lit is not None:
            return f"(Lit 0 {cparts([lit])})"
    key = (rel, fname, _expr_text(e))
    return "(Computed true)" if key in AUDITED else "(Computed false)"


def _regex_split_literal(fn: ast.AST, name: str) -> str | None:
    """`name, _ = m.split(".")` where m ranges over re.findall(r"\\b(<word>\\.(?:a|b))\\b", …): name is always <word>"""
    for n in ast.walk(fn):
        if (isinstance(n, ast.Assign) and isinstance(n.targets[0], ast.Tuple) and n.targets[0].elts
                and isinstance(n.targets[0].elts[0], ast.Name) and n.targets[0].elts[0].id == name
                and isinstance(n.value, ast.Call) and isinstance(n.value.func, ast.Attribute) and n.value.func.attr == "split"
                and len(n.value.args) == 1 and isinstance(n.value.args[0], ast.Constant) and n.value.args[0].value == "."
                and isinstance(n.value.func.value, ast.Name)):
            loopvar = n.value.func.value.id
            for f in ast.walk(fn):
                if isinstance(f, ast.For) and isinstance(f.target, ast.Name) and f.target.id == loopvar and isinstance(f.iter, ast.Name):
                    for v in _assigned_values(fn, f.iter.id):
                        if (isinstance(v, ast.Call) and ast.unparse(v.func) == "re.findall" and v.args
                                and isinstance(v.args[0], ast.Constant)):
                            m = re.fullmatch(r"\\b\((\w+)\\\.\(\?:[\w|]+\)\)\\b", v.args[0].value)
                            if m:
                                return m.group(1)
    return None


def _reassign_ok(v: ast.expr, name: str, fn: ast.AST) -> bool:
    """logical_module = f"{root_package}.{logical_module}" (the 'incomplete path' repair in add_import):
    accepted as forwarding; its effect on package names is exercised by the layout correspondence."""
    t = _expr_text(v)
    return t == "f'{root_package}.{" + name + "}'" or t == name or t == "module"


# ------------------------------------------------------------------ (c) import sites
def _enclosing_functions(tree: ast.Module):
    """yield (call node, innermost enclosing function or None)"""
    def walk(node: ast.AST, fn):
        for ch in ast.iter_child_nodes(node):
            f2 = ch if isinstance(ch, (ast.FunctionDef, ast.AsyncFunctionDef)) else fn
            if isinstance(ch, ast.Call):
                yield ch, fn
            yield from walk(ch, f2)
    yield from walk(tree, None)


ENTRY_MODULES = ["__init__.py", "__main__.py", "cli.py", "generator/client_generator.py"]


def reachable_files() -> set[Path]:
    """static import closure (module-level and nested imports, absolute and relative) of the generator's entry points"""
    src = _src()
    todo = [src / e for e in ENTRY_MODULES if (src / e).is_file()]
    if not (src / "generator/client_generator.py").is_file():
        raise TranslatorError("generator/client_generator.py not found")
    seen: set[Path] = set()

    def resolve(parts: list[str]) -> list[Path]:
        out = []
        for k in range(1, len(parts) + 1):
            base = src.joinpath(*parts[:k])
            if (base / "__init__.py").is_file():
                out.append(base / "__init__.py")
            elif base.with_suffix(".py").is_file():
                out.append(base.with_suffix(".py"))
        return out
    while todo:
        f = todo.pop().resolve()
        if f in seen:
            continue
        seen.add(f)
        relp = list(f.relative_to(src.resolve()).with_suffix("").parts)
        pkg = relp[:-1]
        for n in ast.walk(_parse(f)):
            targets: list[list[str]] = []
            if isinstance(n, ast.Import):
                targets = [a.name.split(".")[1:] for a in n.names if a.name.split(".")[0] == "pyopenapi_gen"]
            elif isinstance(n, ast.ImportFrom):
                if n.level:
                    base = pkg[:len(pkg) - (n.level - 1)] if n.level - 1 <= len(pkg) else None
                    if base is None:
                        continue
                    mod = base + (n.module.split(".") if n.module else [])
                elif n.module and n.module.split(".")[0] == "pyopenapi_gen":
                    mod = n.module.split(".")[1:]
                else:
                    continue
                targets = [mod] + [mod + [a.name] for a in n.names]
            for t in targets:
                todo += resolve(t) if t else [src / "__init__.py"]
    return seen


def generator_files() -> list[Path]:
    rt = {runtime_source(m, f).resolve() for m, f, _ in runtime_files()}
    files = sorted(p for p in _src().rglob("*.py") if "__pycache__" not in p.parts)
    if len(files) < 50:
        raise TranslatorError(f"only {len(files)} python files under {_src()}")
    return [p for p in files if p.resolve() not in rt]


def import_sites() -> tuple[list[str], list[str]]:
    rows, unaudited = [], []
    live = reachable_files()
    for p in generator_files():
        rel = str(p.relative_to(_src()))
        tree = _parse(p)
        for call, fn in _enclosing_functions(tree):
            f = call.func
            name = f.attr if isinstance(f, ast.Attribute) else (f.id if isinstance(f, ast.Name) else None)
            if name not in API:
                continue
            fname = fn.name if fn is not None else "<module>"
            if name == "add_typing_import":
                cls = "(Lit 0 [" + cstr("typing") + "])"
            elif name == "add_typing_imports_for_type":
                cls = "Delegated"
            else:
                pos, kws = MODARG[name]
                arg = None
                if len(call.args) > pos and not any(isinstance(a, ast.Starred) for a in call.args[:pos + 1]):
                    arg = call.args[pos]
                for k in call.keywords:
                    if k.arg in kws:
                        arg = k.value
                if arg is None:
                    cls = "(Computed false)"
                else:
                    cls = classify(arg, fn, rel, fname)
            if p.resolve() not in live and name in API:
                rows.append(f"  mkSite {cstr(rel)} {call.lineno} Unreachable")
                continue
            for one in (cls if isinstance(cls, list) else [cls]):
                if one == "(Computed false)":
                    unaudited.append(f"{rel}:{call.lineno} {fname}: {ast.unparse(call)[:120]}")
                rows.append(f"  mkSite {cstr(rel)} {call.lineno} {one}")
    if len(rows) < 100:
        raise TranslatorError(f"only {len(rows)} import sites found; the API names probably changed")
    return rows, unaudited


# ------------------------------------------------------------------ (b) import lines inside string templates
IMPORT_LINE = re.compile(r"^\s*(?:from\s+(?P<from>[^\s]+)\s+import\s+\S|import\s+(?P<imp>[^\s,;#]+)\s*(?:$|#|,|\bas\b))")
PH = "\x00"


def _docstring_nodes(tree: ast.Module) -> set[int]:
    ids = set()
    for n in ast.walk(tree):
        if isinstance(n, (ast.Module, ast.ClassDef, ast.FunctionDef, ast.AsyncFunctionDef)) and n.body:
            s = n.body[0]
            if isinstance(s, ast.Expr) and isinstance(s.value, ast.Constant) and isinstance(s.value.value, str):
                ids.add(id(s.value))
    return ids


def template_imports() -> tuple[list[str], list[str]]:
    rows, unaudited = [], []
    for p in generator_files():
        rel = str(p.relative_to(_src()))
        tree = _parse(p)
        doc = _docstring_nodes(tree)
        inside_joined: set[int] = set()
        for n in ast.walk(tree):
            if isinstance(n, ast.JoinedStr):
                for v in n.values:
                    inside_joined.add(id(v))
        fn_of: dict[int, ast.AST] = {}
        for f in ast.walk(tree):
            if isinstance(f, (ast.FunctionDef, ast.AsyncFunctionDef)):
                for n in ast.walk(f):
                    fn_of[id(n)] = f  # innermost wins because inner functions are walked later
        for n in ast.walk(tree):
            if isinstance(n, ast.Constant) and isinstance(n.value, str) and id(n) not in doc and id(n) not in inside_joined:
                text, holes = n.value, []
            elif isinstance(n, ast.JoinedStr):
                text, holes = "", []
                for v in n.values:
                    if isinstance(v, ast.Constant):
                        text += str(v.value)
                    else:
                        text += f"{PH}{len(holes)}{PH}"
                        holes.append(v.value)  # type: ignore[union-attr]
            else:
                continue
            for line in text.splitlines():
                m = IMPORT_LINE.match(line)
                if not m:
                    continue
                tok = m.group("from") or m.group("imp")
                fn = fn_of.get(id(n))
                cls = _classify_token(tok, holes, fn)
                if cls is None:
                    continue
                if (rel, line.strip()) in DOCSTRING_LINES and _in_docstring_template(tree, n):
                    cls = "InDocstring"
                if cls == "(Computed false)" and fn is not None and (rel, fn.name) in RENDERERS:
                    cls = "Rendered"
                if cls == "(Computed false)":
                    key = (rel, "<template>", line.strip().replace(PH, "$"))
                    if key in AUDITED_TEMPLATES:
                        cls = "(Computed true)"
                    else:
                        unaudited.append(f"{rel}:{n.lineno}: {line.strip().replace(PH, '$')!r}")
                rows.append(f"  mkTpl {cstr(rel)} {n.lineno} {cls}")
    if len(rows) < 10:
        raise TranslatorError(f"only {len(rows)} template import lines found")
    return rows, unaudited


def _in_docstring_template(tree: ast.Module, node: ast.AST) -> bool:
    """the literal is appended to a list between two appends of a triple-quote line in the same function"""
    for f in ast.walk(tree):
        if isinstance(f, (ast.FunctionDef, ast.AsyncFunctionDef)):
            consts = [n for n in ast.walk(f) if isinstance(n, ast.Constant) and isinstance(n.value, str)]
            consts.sort(key=lambda n: (n.lineno, n.col_offset))
            if node in consts:
                i = consts.index(node)
                before = sum(1 for c in consts[:i] if c.value.strip() == '"""')
                after = sum(1 for c in consts[i + 1:] if c.value.strip() == '"""')
                return before % 2 == 1 and after >= 1
    return False


# template lines whose module token is computed: text with holes shown as $i$
# The statement printers: the module text is whatever was registered through the API sites.
RENDERERS = {("context/import_collector.py", "get_import_statements"), ("context/import_collector.py", "get_formatted_imports"),
             ("context/render_context.py", "render_imports")}
# Template lines that are emitted inside a docstring of the generated file (never executed): (file, stripped text)
DOCSTRING_LINES = {("emitters/mocks_emitter.py", "from myapi.mocks import MockAPIClient, MockPetsClient")}
AUDITED_TEMPLATES: dict[tuple[str, str, str], str] = {}


def _classify_token(tok: str, holes: list[ast.expr], fn: ast.AST | None) -> str | None:
    if PH not in tok:
        if not re.fullmatch(r"\.*[A-Za-z_][\w.]*|\.+", tok):
            return None  # prose ("import failed:"), not an import line
        lvl, parts = split_mod(tok)
        return f"(Lit {lvl} {cparts(parts)})"
    m = re.match(rf"^{PH}(\d+){PH}(.*)$", tok)
    if m:
        e = holes[int(m.group(1))]
        suffix = m.group(2)
        if PH not in suffix and (suffix == "" or suffix.startswith(".")):
            if _is_core_expr(e) or re.search(r"core", _expr_text(e)) and re.search(r"package|import_path|pkg", _expr_text(e)):
                return f"(CorePrefixed {cparts(split_mod(suffix[1:])[1] if suffix else [])})"
        if _is_pkg_expr(e, fn) and (suffix == "" or suffix.startswith(".")):
            return "PkgPrefixed"
        return "(Computed false)"
    if tok.startswith("."):
        return "InternalRelative"
    return "(Computed false)"


# ------------------------------------------------------------------ render
def render() -> str:
    rf = runtime_files()
    ri = runtime_imports()
    sites, un1 = import_sites()
    tpls, un2 = template_imports()
    std = sorted(sys.stdlib_module_names)
    if "typing" not in std or len(std) < 200:
        raise TranslatorError("sys.stdlib_module_names looks wrong")
    L = ["(* GENERATED by harness/tables_C12.py from /repo/src - do not edit *)",
         "From PG Require Import Lib.Strs Model.CoreImports.", "Open Scope N_scope.", "",
         "Definition stdlib_names : list str := [" + "; ".join(cstr(s) for s in std) + "].", "",
         "(* RUNTIME_FILES: source module (below pyopenapi_gen), file stem, destination below the core package *)",
         "Definition runtime_files : list (list str * str * list str) := ["]
    L.append(";\n".join(f"  ({cparts(m.split('.')[1:])}, {cstr(f[:-3])}, {cparts(d[:-3].split('/')[1:])})" for m, f, d in rf))
    L += ["].", "", "Definition runtime_imports : list rt_import := [", ";\n".join(ri), "].", "",
          "Definition import_sites : list site := [", ";\n".join(sites), "].", "",
          "Definition template_imports : list site := [", ";\n".join(tpls), "].", "",
          "(* unaudited computed module expressions (must be empty): *)"]
    L += [f"(*   {u.replace('*)', '* )')} *)" for u in un1 + un2]
    return "\n".join(L) + "\n"


if __name__ == "__main__":
    t = render()
    print(t[-6000:])
