"""Translator plug-in for C08: literals of core/parsing/unified_cycle_detection.py and context.py.

Only *data* is taken from the source (heuristic strings of the placeholder storage policy, the
separator of the cycle-path string, the default depth limit, the enum value strings); the control
flow is modelled by hand in coq/Model/Cycle.v and tied by the trace correspondence.  Fails closed
when a literal cannot be located unambiguously.
"""
from __future__ import annotations

import ast

from tables import SRC, TranslatorError, _find_class, _find_func, _parse, cstr

OUT_NAME = "T_C08.v"
ENV_VAR = "PYOPENAPI_MAX_DEPTH"


def _enum_values(mod: ast.Module, cls: str) -> list[tuple[str, str]]:
    c = _find_class(mod, cls)
    out = []
    for s in c.body:
        if isinstance(s, ast.Assign) and len(s.targets) == 1 and isinstance(s.targets[0], ast.Name) \
                and isinstance(s.value, ast.Constant) and isinstance(s.value.value, str):
            out.append((s.targets[0].id, s.value.value))
    return out


def _env_default(node: ast.AST, what: str) -> ast.expr:
    """second argument of os.environ.get("PYOPENAPI_MAX_DEPTH", <default>) inside `node`"""
    found = []
    for n in ast.walk(node):
        if (isinstance(n, ast.Call) and isinstance(n.func, ast.Attribute) and n.func.attr == "get"
                and n.args and isinstance(n.args[0], ast.Constant) and n.args[0].value == ENV_VAR):
            if len(n.args) != 2:
                raise TranslatorError(f"{what}: os.environ.get({ENV_VAR!r}) without a default")
            found.append(n.args[1])
    if len(found) != 1:
        raise TranslatorError(f"{what}: expected exactly one os.environ.get({ENV_VAR!r}, default), found {len(found)}")
    return found[0]


def literals() -> dict:
    mod = _parse("core/parsing/unified_cycle_detection.py")
    chk = _find_func(mod, "unified_cycle_check")
    # "<lit>" in <name>  comparisons, in source order
    ins = []
    for n in ast.walk(chk):
        if (isinstance(n, ast.Compare) and len(n.ops) == 1 and isinstance(n.ops[0], ast.In)
                and isinstance(n.left, ast.Constant) and isinstance(n.left.value, str)):
            ins.append((n.lineno, n.col_offset, n.left.value, ast.unparse(n.comparators[0])))
    ins.sort()
    if [x[3] for x in ins] != ["schema_name", "schema_name", "cycle_path_str", "cycle_path_str"]:
        raise TranslatorError(f"unified_cycle_check: substring heuristics changed shape: {ins}")
    ends = [n.args[0].value for n in ast.walk(chk)
            if isinstance(n, ast.Call) and isinstance(n.func, ast.Attribute) and n.func.attr == "endswith"
            and len(n.args) == 1 and isinstance(n.args[0], ast.Constant)]
    if len(ends) != 1:
        raise TranslatorError(f"unified_cycle_check: expected one .endswith(<literal>), found {ends}")
    joins = [n.func.value.value for n in ast.walk(chk)
             if isinstance(n, ast.Call) and isinstance(n.func, ast.Attribute) and n.func.attr == "join"
             and isinstance(n.func.value, ast.Constant)]
    if len(joins) != 1:
        raise TranslatorError(f"unified_cycle_check: expected one <literal>.join(...), found {joins}")
    # the dynamic limit: int(os.environ.get("PYOPENAPI_MAX_DEPTH", context.max_depth))
    d = _env_default(chk, "unified_cycle_check")
    if not (isinstance(d, ast.Attribute) and d.attr == "max_depth"):
        raise TranslatorError("unified_cycle_check: env default is no longer context.max_depth")
    # comparison  context.recursion_depth > max_depth
    cmp_ok = any(isinstance(n, ast.Compare) and len(n.ops) == 1 and isinstance(n.ops[0], ast.Gt)
                 and isinstance(n.left, ast.Attribute) and n.left.attr == "recursion_depth"
                 and isinstance(n.comparators[0], ast.Name) and n.comparators[0].id == "max_depth"
                 for n in ast.walk(chk))
    if not cmp_ok:
        raise TranslatorError("unified_cycle_check: 'context.recursion_depth > max_depth' not found")
    cmod = _parse("core/parsing/context.py")
    post = _find_func(_find_class(cmod, "ParsingContext"), "__post_init__")
    dflt = _env_default(post, "ParsingContext.__post_init__")
    if not (isinstance(dflt, ast.Constant) and isinstance(dflt.value, int) and dflt.value >= 0):
        raise TranslatorError("ParsingContext.__post_init__: default depth limit is not an int literal")
    states = _enum_values(mod, "SchemaState")
    actions = _enum_values(mod, "CycleAction")
    if [a for a, _ in states] != ["NOT_STARTED", "IN_PROGRESS", "COMPLETED", "PLACEHOLDER_CYCLE",
                                   "PLACEHOLDER_DEPTH", "PLACEHOLDER_SELF_REF"]:
        raise TranslatorError(f"SchemaState members changed: {states}")
    if [a for a, _ in actions] != ["CONTINUE_PARSING", "RETURN_PLACEHOLDER", "CREATE_PLACEHOLDER", "RETURN_EXISTING"]:
        raise TranslatorError(f"CycleAction members changed: {actions}")
    return {"syn1": ins[0][2], "syn2": ins[1][2], "arr1": ins[2][2], "arr2": ins[3][2], "suffix": ends[0],
            "sep": joins[0], "default_max_depth": dflt.value, "states": states, "actions": actions}


def render() -> str:
    L = literals()
    lines = [
        "(* GENERATED by harness/tables_C08.py from /repo/src/pyopenapi_gen/core/parsing — do not edit *)",
        "From Coq Require Import List NArith.", "Import ListNotations.", "Open Scope N_scope.", "",
        "(* unified_cycle_check: placeholder storage policy heuristics *)",
        f"Definition s_syn1 : list N := {cstr(L['syn1'])}.      (* {L['syn1']!r} in schema_name *)",
        f"Definition s_syn2 : list N := {cstr(L['syn2'])}.      (* {L['syn2']!r} in schema_name *)",
        f"Definition s_arr1 : list N := {cstr(L['arr1'])}.      (* {L['arr1']!r} in cycle_path_str *)",
        f"Definition s_arr2 : list N := {cstr(L['arr2'])}.      (* {L['arr2']!r} in cycle_path_str *)",
        f"Definition s_item_suffix : list N := {cstr(L['suffix'])}.   (* name.endswith({L['suffix']!r}) *)",
        f"Definition s_path_sep : list N := {cstr(L['sep'])}.   (* {L['sep']!r}.join(cycle_path) *)",
        "(* ParsingContext.__post_init__: int(os.environ.get('PYOPENAPI_MAX_DEPTH', <default>)) *)",
        f"Definition default_max_depth : N := {L['default_max_depth']}.",
        "(* enum value strings, in declaration order (documentation; the model uses inductives) *)",
        "Definition schema_state_values : list (list N) := [" + "; ".join(cstr(v) for _, v in L["states"]) + "].",
        "Definition cycle_action_values : list (list N) := [" + "; ".join(cstr(v) for _, v in L["actions"]) + "].",
        "",
    ]
    return "\n".join(lines)


if __name__ == "__main__":
    print(render())
