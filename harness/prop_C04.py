"""C04 — request fidelity: what the caller passes is what goes on the wire.

Implementation side: real generator (pipeline.generate) -> generated package imported in a fresh interpreter
(generator blocked) -> every call awaited under httpx.MockTransport -> captured httpx.Request, decoded.
Model side: coq/Model/Wire.v `call` evaluated by vm_compute on the same (operation, argument assignment).
Oracle: the property's clauses computed here from the operation description and the arguments alone.
"""
from __future__ import annotations

import base64
import datetime as _dt
import itertools
import json
import os
import sys
from typing import Any

# mutation experiments: VERIF_REPO_ROOT=<scratch checkout> ./check C04 (framework.REPO, tables.SRC and
# PYTHONPATH follow it); nothing in this file names /repo.

from framework import Check, cbool, clist, copt, cpair, cstr, load_corpus  # noqa: E402
from pipeline import base_spec, drive, generate  # noqa: E402

TRUSTED = [
    "Coq 8.16.1 kernel + vm_compute (witness theorems and correspondence evaluation)",
    "hand-written Gallina model coq/Model/Wire.v of the endpoint generators (parameter_processor, signature/"
    "url_args/request generators, multi-content dispatch), tied to the code by this run's pipeline cases",
    "translator harness/tables_C04.py for the media-type literals and body-variable names",
    "NameSanitizer.sanitize_method_name is a parameter of the model (C20's subject): instantiated per case by the "
    "real function's table",
    "leaf renderings are inputs of the model: str(int), date/datetime isoformat() and str(), str(EnumMember) as "
    "computed by Python; the canonical JSON text of a body argument",
    "httpx 0.28 behaviour as transcribed in Wire.v (query value -> str, header value must be str, json=/files=/"
    "data= encodings); httpx's own URL/query/multipart encoding is outside the model: requests are compared "
    "after decoding (unquote, parse_qsl, multipart split, json.loads)",
    "urllib.parse.quote(v, safe='') followed by the server's unquote is the identity and yields no '/': a quoted "
    "path value is modelled as one atom of one segment",
    "the driver (harness) that builds keyword arguments from an argument assignment",
]

OWN_HEADERS = {"host", "accept", "accept-encoding", "connection", "user-agent", "content-length", "content-type",
               "cookie"}
J, MP, FORM, OCT = ("application/json", "multipart/form-data", "application/x-www-form-urlencoded",
                    "application/octet-stream")
ENUMS = {"Color": {"type": "string", "enum": ["red", "dark-blue"]}, "Num": {"type": "integer", "enum": [1, 2]}}
# a named object schema: JSON bodies of operations with "json_model" are instances of the GENERATED dataclass
COMPONENTS = {**ENUMS, "Item": {"type": "object", "required": ["a"],
                                "properties": {"a": {"type": "integer"}, "name": {"type": "string"},
                                               "tags": {"type": "array", "items": {"type": "string"}}}}}
METHODS = ["get", "put", "post", "delete", "patch", "head", "options", "trace"]
TYS = ["str", "int", "bool", "enum", "date", "datetime"]


# ------------------------------------------------------------------------------------------- names
def mn(s: str) -> str:
    from pyopenapi_gen.core.utils import NameSanitizer
    return NameSanitizer.sanitize_method_name(s)


def std_body_var(ct: str) -> str:
    return {MP: "files", J: "body", FORM: "form_data"}.get(ct, "bytes_content")


def multi_body_var(ct: str) -> str:
    return {J: "body", MP: "files", FORM: "data"}.get(ct, "body")


# ------------------------------------------------------------------------------------------- op -> OpenAPI
def schema_of(p: dict) -> dict:
    t = p["ty"]
    if t == "enum":
        s: dict[str, Any] = {"$ref": "#/components/schemas/" + p.get("enum", "Color")}
    else:
        s = {"str": {"type": "string"}, "int": {"type": "integer"}, "bool": {"type": "boolean"},
             "date": {"type": "string", "format": "date"},
             "datetime": {"type": "string", "format": "date-time"}}[t]
    return {"type": "array", "items": s} if p["array"] else s


ARRAY_SCHEMAS = {
    "items": {"type": "array", "items": {"$ref": "#/components/schemas/Item"}},          # List[Item] (dataclasses)
    "matrix": {"type": "array", "items": {"type": "array", "items": {"type": "integer"}}},
    "dicts": {"type": "array", "items": {"type": "object", "additionalProperties": True}},
}


def body_schema(ct: str, model: bool = False, array: str | None = None) -> dict:
    if ct == J and array:
        return ARRAY_SCHEMAS[array]
    if ct == J:
        return {"$ref": "#/components/schemas/Item"} if model else {"type": "object", "additionalProperties": True}
    if ct == MP:
        return {"type": "object", "properties": {"f": {"type": "string", "format": "binary"}}}
    if ct == FORM:
        return {"type": "object", "properties": {"a": {"type": "string"}}}
    return {"type": "string", "format": "binary"}


def path_text(op: dict) -> str:
    return "".join(s[1] if s[0] == "lit" else "{" + s[1] + "}" for s in op["path"])


def spec_of(ops: list[dict]) -> dict:
    """operations with the same path text form ONE path item (methods in the order given); their path-level
    parameters must be the same list and are written once, at path-item level; a parameter with "ref" is written
    as a $ref to components.parameters"""
    paths: dict[str, Any] = {}
    comp_params: dict[str, Any] = {}
    for op in ops:
        item = paths.setdefault(path_text(op), {})
        def pnode(p: dict) -> dict:
            d = {"name": p["name"], "in": p["in"], "schema": schema_of(p)}
            if p["required"]:
                d["required"] = True
            if p.get("ref"):
                key = "P_" + "".join(c if c.isalnum() else "_" for c in f"{p['in']}_{p['name']}_{p['ty']}_{int(p['array'])}_{int(p['required'])}")
                comp_params[key] = d
                return {"$ref": "#/components/parameters/" + key}
            return d
        plevel = [pnode(p) for p in op["params"] if p["level"] == "path"]
        if plevel:
            assert item.get("parameters", plevel) == plevel, "operations of one path item must share the path-level list"
            item["parameters"] = plevel
        node: dict[str, Any] = {"operationId": op["id"], "tags": [op["tag"]],
                                "responses": {"200": {"description": "ok"}}}
        olevel = [pnode(p) for p in op["params"] if p["level"] == "op"]
        if olevel:
            node["parameters"] = olevel
        if op["body"]:
            rb: dict[str, Any] = {"content": {ct: {"schema": body_schema(ct, bool(op.get("json_model")), op.get("json_array"))} for ct in op["body"]}}
            if op["body_required"]:
                rb["required"] = True
            node["requestBody"] = rb
        assert op["method"] not in item, "one operation per method and path item"
        item[op["method"]] = node
    doc = base_spec(paths, COMPONENTS)
    if comp_params:
        doc["components"]["parameters"] = comp_params
    return doc


def item_of(ops: list[dict], i: int) -> tuple[list[dict], int]:
    """the operations of ops[i]'s path item, in document order, and the position of ops[i] among them"""
    sib = [j for j, o in enumerate(ops) if path_text(o) == path_text(ops[i])]
    return [ops[j] for j in sib], sib.index(i)


def level_params(op: dict) -> tuple[list[dict], list[dict]]:
    return [p for p in op["params"] if p["level"] == "path"], [p for p in op["params"] if p["level"] == "op"]


def ordered_params(op: dict) -> list[dict]:
    """the operation's parameters as a caller sees them in the document: path-level ones, each operation-level one
    overriding the declaration with the same (name, in) or added after them (only used to build calls; the Coq
    model has its own transcription of the loader's merge, Wire.merge_params)"""
    out, ol = level_params(op)
    out = list(out)
    for p in ol:
        for i, q in enumerate(out):
            if (q["name"], q["in"]) == (p["name"], p["in"]):
                out[i] = p
                break
        else:
            out.append(p)
    return out


# ------------------------------------------------------------------------------------------- values
STRS = ["a", "x y", "été", "A-1", "v.2_3", "q&r=s", "7"]
PATH_STRS = ["a", "x y", "é", "A-1", "v.2_3", "7"]
# Reserved characters in path values.  The standard method percent-encodes them (fixed F04h): any of these must
# arrive as ONE segment.  The multi-content dispatch still interpolates raw (F04b): only plain '/' is used there
# ('?', '#', '%', '..' change httpx's URL parsing / get collapsed - outside the model of the raw interpolation)
SLASH_STRS = ["a/b", "x/", "p/q/r", "..", "."]           # ".." / "." : dot segments (F04k)
RESERVED_STRS = SLASH_STRS + ["../x", "x?y=1#f", "50%41", "a b/c", "...", ".x"]
INTS = [0, 7, -3, 12345]
DATES = ["2020-01-02", "1999-12-31"]
DTS = ["2020-01-02T03:04:05", "1999-12-31T23:59:59"]


HDR_STRS = ["a", "x y", "A-1", "v.2_3", "q&r=s", "7", "W/\"etag\""]   # header values: ASCII (httpx refuses others)


def gen_scalar(rng, p: dict, in_path: bool) -> dict:
    t = p["ty"]
    if t == "str":
        if p["in"] in ("header", "cookie"):
            return {"t": "str", "v": rng.choice(HDR_STRS[:-1] if p["in"] == "cookie" else HDR_STRS)}
        if in_path and p.get("slashy") and rng.random() < 0.5:
            return {"t": "str", "v": rng.choice(SLASH_STRS if p["slashy"] == "raw" else RESERVED_STRS)}
        return {"t": "str", "v": rng.choice(PATH_STRS if in_path else STRS + [""])}
    if t == "int":
        return {"t": "int", "v": rng.choice(INTS)}
    if t == "bool":
        return {"t": "bool", "v": rng.random() < 0.5}
    if t == "enum":
        e = p.get("enum", "Color")
        return {"t": "enum", "cls": e, "v": rng.choice(ENUMS[e]["enum"])}
    if t == "date":
        return {"t": "date", "v": rng.choice(DATES)}
    return {"t": "datetime", "v": rng.choice(DTS)}


def gen_value(rng, p: dict) -> dict:
    if p["array"]:
        items = [gen_scalar(rng, p, False) for _ in range(rng.choice([0, 1, 2, 2, 3]))]
        if items and rng.random() < 0.4:     # the SAME object at several positions (equal items are built once)
            items = items + [items[0]] if rng.random() < 0.5 else [items[0]] + items + [items[-1]]
            return {"t": "arr", "items": items, "share": True}
        return {"t": "arr", "items": items}
    return gen_scalar(rng, p, p["in"] == "path")


JSON_BODIES = [{"a": 1}, {"name": "x y", "tags": ["a", "b"], "n": {"k": True}}, {}, {"u": "é", "z": [1, 2, 3]}]


MODEL_BODIES = [{"a": 1}, {"a": -3, "name": "x y"}, {"a": 0, "name": "é", "tags": ["p", "q"]}, {"a": 7, "tags": []}]


# Argument construction with SHARING: {"t": "share", "pool": [...], "layout": ...}: every pool entry is built ONCE
# and the very same Python object (dataclass instance, dict, list) is placed wherever the layout says {"$": i}.
# Sharing does not change the value, so the expected wire body is the layout with the references resolved.
SHARE_LAYOUTS = [[{"$": 0}, {"$": 0}], [{"$": 0}, {"$": 1}, {"$": 0}], [{"$": 1}, {"$": 1}, {"$": 0}, {"$": 1}],
                 [{"$": 0}], []]
SHARE_POOLS = {
    "items": [{"t": "model", "cls": "Item", "v": {"a": 1, "name": "x y"}},
              {"t": "model", "cls": "Item", "v": {"a": -3, "tags": ["p", "q"]}}],
    "matrix": [{"t": "json", "v": [1, 2]}, {"t": "json", "v": [3]}],
    "dicts": [{"t": "json", "v": {"k": 1, "n": {"z": [1, 2]}}}, {"t": "json", "v": {"u": "é"}}],
}
DICT_SHARE = [{"x": {"$": 0}, "y": {"$": 0}, "l": [{"$": 1}, {"$": 1}]},
              {"rows": [{"$": 1}, {"$": 1}, {"$": 0}], "first": {"$": 1}},
              {"a": {"b": {"$": 0}}, "c": [{"$": 0}, [{"$": 0}]]}]


def resolve_share(bv: dict) -> Any:
    """the value a shared construction denotes (plain JSON)"""
    pool = [x["v"] for x in bv["pool"]]

    def go(n: Any) -> Any:
        if isinstance(n, dict) and set(n) == {"$"}:
            return pool[n["$"]]
        if isinstance(n, dict):
            return {k: go(x) for k, x in n.items()}
        if isinstance(n, list):
            return [go(x) for x in n]
        return n
    return go(bv["layout"])


def body_json(bv: dict) -> Any:
    return resolve_share(bv) if bv["t"] == "share" else bv["v"]


def gen_body(rng, ct: str, model: bool = False, array: str | None = None) -> dict:
    if ct == J and array:
        lay = rng.choice(SHARE_LAYOUTS)
        return {"t": "share", "pool": SHARE_POOLS[array], "layout": lay}
    if ct == J and not model and rng.random() < 0.3:
        return {"t": "share", "pool": [{"t": "json", "v": {"k": 1}}, {"t": "json", "v": [1, 2]}],
                "layout": rng.choice(DICT_SHARE)}
    if ct == J:
        if model:
            return {"t": "model", "cls": "Item", "v": rng.choice(MODEL_BODIES)}
        return {"t": "json", "v": rng.choice(JSON_BODIES)}
    if ct == MP:
        return {"t": "files", "v": rng.choice([[["f", [97, 98, 99]]], [["f", [0, 255, 13, 10, 45, 45]], ["g", []]],
                                               [["doc", [104, 105]]]])}
    if ct == FORM:
        return {"t": "form", "v": rng.choice([[["a", "1"]], [["a", "x y"], ["b", "q&r=s"]], [["k", "é"]]])}
    return {"t": "bytes", "v": rng.choice([[0, 1, 97, 98], [255], [123, 125]])}


# ------------------------------------------------------------------------------------------- op generator
Q_NAMES = ["page-size", "q", "userId", "type", "filter[name]", "sort_by", "Q2", "limit", "from", "tags", "since"]
H_NAMES = ["X-Trace-Id", "X-Req", "If-Match", "x_tenant", "X-Flag"]
C_NAMES = ["sid", "pref-lang"]
V_NAMES = ["item_id", "subId", "id", "org-id", "ver"]


def gen_op(rng, idx: int, flavour: str = "plain") -> dict:
    method = METHODS[idx % len(METHODS)] if rng.random() < 0.7 else rng.choice(METHODS)
    nv = rng.choice([0, 1, 1, 2, 2, 3])
    vnames = rng.sample(V_NAMES, nv)
    path: list[list[str]] = [["lit", f"/o{idx}"]]
    for i, v in enumerate(vnames):
        path.append(["lit", rng.choice(["/", "/", "/k/", "/v1."]) if i == 0 or rng.random() < 0.8 else "-"])
        path.append(["var", v])
    if rng.random() < 0.3:
        path.append(["lit", "/tail"])
    if rng.random() < 0.25:          # a trailing slash is part of the template (after a literal or after a variable)
        path.append(["lit", "/"])
    elif rng.random() < 0.1:         # an empty segment inside the template
        path.insert(1, ["lit", "//e"])
    params: list[dict] = []
    for v in vnames:
        t = rng.choice(["str", "str", "int", "int", "date", "enum", "datetime", "bool"]) if flavour != "safe" \
            else rng.choice(["str", "int", "date"])
        params.append({"name": v, "in": "path", "required": True, "ty": t,
                       "array": flavour != "safe" and t in ("str", "int", "enum") and rng.random() < 0.15,
                       "level": rng.choice(["path", "op"]), **({"enum": rng.choice(list(ENUMS))} if t == "enum" else {}),
                       **({"slashy": True} if t == "str" and flavour != "safe" and rng.random() < 0.25 else {})})
    for n in rng.sample(Q_NAMES, rng.choice([0, 1, 2, 3, 4, 6])):
        t = rng.choice(TYS) if flavour != "safe" else rng.choice(["str", "int", "bool", "date", "datetime"])
        params.append({"name": n, "in": "query", "required": rng.random() < 0.3, "ty": t,
                       "array": rng.random() < 0.25, "level": rng.choice(["path", "op", "op"]),
                       **({"enum": rng.choice(list(ENUMS))} if t == "enum" else {})})
    for n in rng.sample(H_NAMES, rng.choice([0, 0, 1, 2, 3])):
        t = rng.choice(["str", "str", "str", "enum", "int", "bool"]) if flavour != "safe" else "str"
        params.append({"name": n, "in": "header", "required": rng.random() < 0.3, "ty": t,
                       "array": flavour != "safe" and rng.random() < 0.05, "level": rng.choice(["path", "op", "op"]),
                       **({"enum": "Color"} if t == "enum" else {})})
    if rng.random() < 0.25:
        t = "str" if flavour == "safe" else rng.choice(["str", "str", "enum", "int", "bool"])
        params.append({"name": rng.choice(C_NAMES), "in": "cookie", "required": rng.random() < 0.3, "ty": t,
                       "array": flavour != "safe" and rng.random() < 0.15, "level": rng.choice(["path", "op"]), **({"enum": "Color"} if t == "enum" else {})})
    rng.shuffle(params)
    r = rng.random()
    body: list[str] = []
    if r < 0.30:
        body = [J]
    elif r < 0.38:
        body = [MP]
    elif r < 0.46:
        body = [FORM]
    elif r < 0.52:
        body = [OCT] if flavour != "safe" else [J]
    elif r < 0.66 and flavour != "safe":
        body = rng.choice([[J, MP], [MP, J], [J, FORM], [J, MP, FORM], [FORM, MP]])
    op = {"id": f"op{idx}", "tag": "alpha", "method": method, "path": path, "params": params, "body": body,
          "body_required": bool(body) and rng.random() < 0.5}
    if J in body and rng.random() < 0.4:
        op["json_model"] = True
    elif J in body and rng.random() < 0.5:
        op["json_array"] = rng.choice(["items", "items", "matrix", "dicts"])
    if flavour == "collide":
        k = rng.random()
        if k < 0.3 and vnames:         # F04c: a path-level parameter repeated at operation level
            p0 = next(p for p in params if p["in"] == "path")
            p0["level"] = "path"
            params.append({**p0, "level": "op"})
        elif k < 0.5:                   # F04c: two names with one python name
            params.append({"name": "user-id", "in": "query", "required": False, "ty": "str", "array": False, "level": "op"})
            params.append({"name": "user_id", "in": rng.choice(["query", "header"]), "required": False, "ty": "str",
                           "array": False, "level": "op"})
        elif k < 0.6:                   # F04c: `self`
            params.append({"name": "self", "in": "query", "required": False, "ty": "str", "array": False, "level": "op"})
        elif body and len(body) == 1:   # F04d: a parameter named like the body variable
            params.append({"name": std_body_var(body[0]) if body[0] == J or rng.random() < 0.3 else "body",
                           "in": "query", "required": rng.random() < 0.5, "ty": rng.choice(["str", "int"]),
                           "array": rng.random() < 0.2, "level": "op"})
            if body[0] != J:
                op["body"] = [J]
                params[-1]["name"] = "body"
        elif len(body) > 1:             # F04c in the dispatch signature
            params.append({"name": rng.choice(["body", "files", "content_type"]), "in": "query", "required": False,
                           "ty": "str", "array": False, "level": "op"})
    return op


def cross_ops() -> list[dict]:
    """deterministic cross product run every time: every body kind (none / json / dataclass / shared array /
    multipart / form / octet / two content types) x an operation with path, required+optional query and
    required+optional header parameters, so that each body kind meets each parameter location"""
    def prm(name, loc, ty="str", required=False):
        return {"name": name, "in": loc, "required": required, "ty": ty, "array": False, "level": "op"}
    out = []
    kinds = [("none", []), ("json", [J]), ("model", [J]), ("items", [J]), ("mp", [MP]), ("form", [FORM]),
             ("oct", [OCT]), ("multi", [J, MP])]
    for i, (k, body) in enumerate(kinds):
        op = {"id": f"x{k}", "tag": "alpha", "method": "post" if body else "get",
              "path": [["lit", f"/x{i}/"], ["var", "id"]],
              "params": [prm("id", "path", required=True), prm("q", "query", required=True), prm("limit", "query", "int"),
                         prm("X-Req", "header"), prm("If-Match", "header", required=True)],
              "body": body, "body_required": False}
        if k == "model":
            op["json_model"] = True
        if k == "items":
            op["json_array"] = "items"
        out.append(op)
    # path shapes: the root path, a trailing slash after a literal and after a variable, an empty segment inside
    for k, pth in (("root", [["lit", "/"]]), ("tslit", [["lit", "/xt/items/"]]),
                   ("tsvar", [["lit", "/xt/items/"], ["var", "id"], ["lit", "/"]]),
                   ("dbl", [["lit", "/xt//k/"], ["var", "id"], ["lit", "//"]])):
        out.append({"id": f"x{k}", "tag": "alpha", "method": "get", "path": pth,
                    "params": ([prm("id", "path", required=True)] if any(x[0] == "var" for x in pth) else []) + [prm("q", "query")],
                    "body": [], "body_required": False})
    # two path variables that are NOT declared as parameters (outside the theorem's well-formedness condition; the
    # model follows _ensure_path_variables_as_params, which adds them in template order)
    out.append({"id": "xundecl", "tag": "alpha", "method": "get",
                "path": [["lit", "/xu/"], ["var", "zeta"], ["lit", "/"], ["var", "alphaId"], ["lit", "/"], ["var", "id"]],
                "params": [prm("id", "path", required=True), prm("q", "query")], "body": [], "body_required": False,
                "undeclared": ["zeta", "alphaId"]})
    return out


def gen_item(rng, idx: int) -> list[dict]:
    """a path item with 2-4 methods that share path-level parameters of EVERY location (some via $ref to
    components.parameters); every operation has its own operation-level parameters (one may override a
    path-level declaration) and its own request body"""
    def prm(name, loc, ty="str", required=False, array=False, level="path", **kw):
        return {"name": name, "in": loc, "required": required, "ty": ty, "array": array, "level": level, **kw}
    v1, v2 = rng.sample(V_NAMES, 2)
    two = rng.random() < 0.5
    path = [["lit", f"/o{idx}/"], ["var", v1]] + ([["lit", "/"], ["var", v2]] if two else []) + \
           ([["lit", "/tail"]] if rng.random() < 0.3 else []) + ([["lit", "/"]] if rng.random() < 0.3 else [])
    shared = [prm(v1, "path", rng.choice(["str", "int", "date"]), True, ref=rng.random() < 0.4),
              prm(rng.choice(Q_NAMES[:5]), "query", rng.choice(["str", "int", "bool"]), rng.random() < 0.4,
                  array=rng.random() < 0.3, ref=rng.random() < 0.5),
              prm(rng.choice(H_NAMES), "header", "str", rng.random() < 0.4, ref=rng.random() < 0.5),
              prm(rng.choice(C_NAMES), "cookie", "str", False, ref=rng.random() < 0.5)]
    if rng.random() < 0.5:
        shared.append(prm(rng.choice(Q_NAMES[5:8]), "query", "str", False))
    rng.shuffle(shared)
    ops = []
    for j, method in enumerate(rng.sample(METHODS, rng.choice([2, 3, 4]))):
        own = [prm(v2, "path", rng.choice(["str", "int"]), True, level="op")] if two else []
        for n in rng.sample(Q_NAMES[8:], rng.choice([0, 1, 2])):
            own.append(prm(n, "query", rng.choice(["str", "int", "date"]), rng.random() < 0.3, level="op"))
        if rng.random() < 0.3:          # an operation-level declaration overriding a path-level one
            q = next(p for p in shared if p["in"] == "query")
            own.append(prm(q["name"], "query", "str", not q["required"], level="op"))
        body = rng.choice([[], [], [J], [FORM], [J, MP]])
        ops.append({"id": f"op{idx + j}", "tag": "alpha", "method": method, "path": path,
                    "params": [dict(p) for p in shared] + own, "body": body,
                    "body_required": bool(body) and rng.random() < 0.5})
    return ops


def cross_item() -> list[dict]:
    """deterministic: one path item, three methods, path-level parameters of every location (two via $ref)"""
    def prm(name, loc, ty="str", required=False, level="path", **kw):
        return {"name": name, "in": loc, "required": required, "ty": ty, "array": False, "level": level, **kw}
    shared = [prm("id", "path", "int", True), prm("trace", "query", ref=True), prm("X-Tenant", "header", required=True, ref=True),
              prm("sid", "cookie")]
    path = [["lit", "/xi/"], ["var", "id"]]
    return [{"id": "xiget", "tag": "alpha", "method": "get", "path": path, "params": [dict(p) for p in shared],
             "body": [], "body_required": False},
            {"id": "xiput", "tag": "alpha", "method": "put", "path": path,
             "params": [dict(p) for p in shared] + [prm("limit", "query", "int", level="op")], "body": [J], "body_required": True},
            {"id": "xidelete", "tag": "alpha", "method": "delete", "path": path,
             "params": [dict(p) for p in shared] + [prm("trace", "query", "int", True, level="op")], "body": [], "body_required": False}]


def poisoned(op: dict) -> bool:
    """conservative: some python name may occur twice in the generated signature (SyntaxError kills the whole
    endpoints package, so such an operation gets a client of its own)"""
    names = [mn(mn(p["name"])) for p in ordered_params(op)]
    names.append("self")
    if len(op["body"]) > 1:
        names += sorted({multi_body_var(ct) for ct in op["body"]}) + ["content_type"]
    return len(set(names)) != len(names)


# ------------------------------------------------------------------------------------------- argument assignments
def assignments(rng, op: dict, max_enum: int = 5, n_random: int = 12, cap: int | None = None) -> list[dict]:
    """every subset of the optional arguments (parameters + optional body) when there are <= max_enum of them,
    random subsets above; required ones are always supplied"""
    ps = []
    seen = set()
    for p in ordered_params(op):      # one assignment key per (in, name)
        if (p["in"], p["name"]) not in seen:
            seen.add((p["in"], p["name"]))
            ps.append(p)
    # path variables without a declared parameter: the generator adds a required `str` argument for each
    for v in op.get("undeclared", []):
        ps.append({"name": v, "in": "path", "required": True, "ty": "str", "array": False, "level": "op"})
    opt = [p for p in ps if not p["required"]]
    body_optional = bool(op["body"]) and not op["body_required"]
    nopt = len(opt) + (1 if body_optional else 0)
    if nopt <= max_enum:
        subsets = [set(i for i in range(nopt) if m >> i & 1) for m in range(1 << nopt)]
    else:
        subsets = [set(), set(range(nopt))] + [set(i for i in range(nopt) if rng.random() < 0.5) for _ in range(n_random)]
    if cap is not None and len(subsets) > cap:
        subsets = [subsets[0], subsets[-1]] + rng.sample(subsets[1:-1], cap - 2)
    out = []
    for sub in subsets:
        a: dict[str, Any] = {"params": [], "body": None}
        for p in ps:
            if p["required"] or opt.index(p) in sub:
                a["params"].append([p["in"], p["name"], gen_value(rng, p)])
        if op["body"] and (op["body_required"] or len(opt) in sub):
            ct = rng.choice(op["body"])
            a["body"] = [ct, gen_body(rng, ct, bool(op.get("json_model")), op.get("json_array"))]
        out.append(a)
    return out


# ------------------------------------------------------------------------------------------- driver
DRIVER = r'''
import asyncio, base64, datetime, importlib, io, json, re, warnings
from urllib.parse import unquote, parse_qsl
import httpx

OWN = {"host", "accept", "accept-encoding", "connection", "user-agent", "content-length", "content-type", "cookie"}

def decode_value(v, leaf):
    t = v["t"]
    if t in ("str", "int", "bool"):
        return v["v"]
    if t == "enum":
        mod = importlib.import_module("client.models." + v["cls"].lower())
        m = getattr(mod, v["cls"])(v["v"])
        leaf[v["cls"] + ":" + json.dumps(v["v"])] = str(m)
        return m
    if t == "date":
        return datetime.date.fromisoformat(v["v"])
    if t == "datetime":
        return datetime.datetime.fromisoformat(v["v"])
    if t == "arr":
        if v.get("share"):                  # equal items -> one object, reused
            memo = {}
            out = []
            for x in v["items"]:
                k = json.dumps(x, sort_keys=True)
                if k not in memo:
                    memo[k] = decode_value(x, leaf)
                out.append(memo[k])
            return out
        return [decode_value(x, leaf) for x in v["items"]]
    if t == "json":
        return json.loads(json.dumps(v["v"]))
    if t == "share":
        pool = [decode_value(x, leaf) for x in v["pool"]]
        def go(n):
            if isinstance(n, dict) and set(n) == {"$"}:
                return pool[n["$"]]
            if isinstance(n, dict):
                return {k: go(x) for k, x in n.items()}
            if isinstance(n, list):
                return [go(x) for x in n]
            return n
        return go(v["layout"])
    if t == "model":
        # omitted optional fields are passed as an explicit None (the generated default of an optional array
        # field is [] rather than None: a model-generation matter, C02/C03, not request plumbing)
        import dataclasses
        mod = importlib.import_module("client.models." + v["cls"].lower())
        cls = getattr(mod, v["cls"])
        kw = {f.name: None for f in dataclasses.fields(cls)
              if f.default is not dataclasses.MISSING or f.default_factory is not dataclasses.MISSING}
        kw.update(v["v"])
        return cls(**kw)
    if t == "files":
        return {k: io.BytesIO(bytes(b)) for k, b in v["v"]}
    if t == "form":
        return {k: s for k, s in v["v"]}
    if t == "bytes":
        return bytes(v["v"])
    raise ValueError(t)

def observe(r):
    raw = r.url.raw_path
    p, _, q = raw.partition(b"?")
    ctype = r.headers.get("content-type")
    media = ctype.split(";")[0].strip().lower() if ctype is not None else None
    content = r.content
    if not content:
        body = ["none"]
    elif media == "application/json":
        body = ["json", json.dumps(json.loads(content), sort_keys=True, separators=(",", ":"), ensure_ascii=False)]
    elif media == "application/x-www-form-urlencoded":
        body = ["form", [[a, b] for a, b in parse_qsl(content.decode(), keep_blank_values=True)]]
    elif media == "multipart/form-data":
        m = re.search(r'boundary=([^;]+)', ctype)
        bd = b"--" + m.group(1).strip('"').encode()
        parts = []
        for chunk in content.split(bd)[1:]:
            if chunk.startswith(b"--"):
                break
            head, _, data = chunk.partition(b"\r\n\r\n")
            nm = re.search(rb'name="([^"]*)"', head)
            parts.append([nm.group(1).decode() if nm else "?", list(data[:-2] if data.endswith(b"\r\n") else data)])
        body = ["files", parts]
    else:
        body = ["bytes", list(content)]
    cookies = []
    for ch in r.headers.get_list("cookie"):
        for part in ch.split("; "):
            if part:
                a, _, b = part.partition("=")
                cookies.append([a, b])
    return {"method": r.method, "path": unquote(p.decode("ascii")),
            "segs": [unquote(x) for x in p.decode("ascii").split("/")],
            "query": [[a, b] for a, b in parse_qsl(q.decode("ascii"), keep_blank_values=True)],
            "headers": [[k, v] for k, v in r.headers.multi_items() if k not in OWN],
            "cookies": cookies, "ctype": media, "body": body}

async def amain(arg):
    out = {"calls": [], "leaf": {}}
    seen = []
    def handler(req):
        seen.append(req)
        return httpx.Response(200, json={})
    try:
        from client.core.http_transport import HttpxTransport
        mods = {}
        t = HttpxTransport("http://srv.test")
        await t._client.aclose()
        t._client = httpx.AsyncClient(base_url="http://srv.test", transport=httpx.MockTransport(handler))
    except BaseException as e:
        return {"fatal": type(e).__name__ + ": " + str(e)[:300]}
    for c in arg["calls"]:
        try:
            if c["tag"] not in mods:
                mod = importlib.import_module("client.endpoints." + c["tag"])
                cls = [v for k, v in vars(mod).items() if isinstance(v, type) and v.__module__ == mod.__name__
                       and not k.endswith("Protocol") and hasattr(v, c["method"])]
                mods[c["tag"]] = cls[0](t, "http://srv.test")
            client = mods[c["tag"]]
            kwargs = {k: (None if v is None else decode_value(v, out["leaf"])) for k, v in c["kwargs"]}
            n0 = len(seen)
            with warnings.catch_warnings():
                warnings.simplefilter("ignore")
                await getattr(client, c["method"])(**kwargs)
            if len(seen) != n0 + 1:
                out["calls"].append({"err": "requests=%d" % (len(seen) - n0)})
            else:
                out["calls"].append({"req": observe(seen[-1])})
        except BaseException as e:
            out["calls"].append({"err": type(e).__name__ + ": " + str(e)[:200]})
    await t.close()
    return out

def main(arg):
    return asyncio.run(amain(arg))
'''


def kwargs_of(op: dict, a: dict) -> list:
    """How a caller passes an argument assignment: one keyword per supplied parameter, under the python name of
    the signature; the implementation signature for several content types has no defaults for optional
    parameters, so None is passed explicitly there; the body goes under the body variable of its content type,
    unless a parameter already occupies that keyword."""
    multi = len(op["body"]) > 1
    kw: dict[str, Any] = {}
    if multi:
        for p in ordered_params(op):
            kw[mn(p["name"])] = None
    for loc, name, v in a["params"]:
        kw[mn(name) if multi else mn(mn(name))] = v
    if a["body"] is not None:
        ct, bv = a["body"]
        k = multi_body_var(ct) if multi else std_body_var(ct)
        occupied = {mn(p["name"]) if multi else mn(mn(p["name"])) for p in op["params"]}
        if k not in occupied:
            kw[k] = bv
    return [[k, v] for k, v in kw.items()]


def run_spec(ops: list[dict], calls: list[tuple[int, dict]]) -> tuple[list[Any], dict, str | None]:
    """returns (observation per call, leaf renderings, generation error)"""
    g = generate(spec_of(ops))
    try:
        if not g.ok:
            return [{"err": "generate: " + (g.error or "?")} for _ in calls], {}, g.error
        arg = {"calls": [{"tag": ops[i]["tag"], "method": mn(ops[i]["id"]), "kwargs": kwargs_of(ops[i], a)}
                         for i, a in calls]}
        r = drive(g, DRIVER, arg, timeout=300)
        if not r["ok"] or "fatal" in r["result"]:
            msg = r.get("error") or r["result"].get("fatal")
            return [{"err": "driver: " + str(msg)} for _ in calls], {}, None
        return r["result"]["calls"], r["result"]["leaf"], None
    finally:
        g.cleanup()


# ------------------------------------------------------------------------------------------- the oracle
def wire_simple_text(v: dict) -> str:
    """OpenAPI `simple` style (path, header; taken for cookies too): an array is one comma-separated value"""
    return ",".join(wire_text(x) for x in v["items"]) if v["t"] == "arr" else wire_text(v)


def wire_text(v: dict) -> str:
    """canonical wire text of a scalar argument, from the property: the caller's value as OpenAPI renders it"""
    t = v["t"]
    if t == "str":
        return v["v"]
    if t == "int":
        return str(v["v"])
    if t == "bool":
        return "true" if v["v"] else "false"
    if t == "enum":
        return str(v["v"])
    if t == "date":
        return _dt.date.fromisoformat(v["v"]).isoformat()
    return _dt.datetime.fromisoformat(v["v"]).isoformat()


def oracle(op: dict, a: dict, obs: dict) -> list[str]:
    if "err" in obs:
        return [f"no single request was issued: {obs['err'][:120]}"]
    r = obs["req"]
    fails = []
    if r["method"] != op["method"].upper():
        fails.append(f"method {r['method']} != {op['method'].upper()}")
    given = {(loc, name): v for loc, name, v in a["params"]}
    want_path = "".join(s[1] if s[0] == "lit" else wire_simple_text(given[("path", s[1])]) for s in op["path"])
    if r["path"] != want_path:
        fails.append(f"path {r['path']!r} != {want_path!r}")
    else:
        # each value must arrive inside its own path segment (a router splits the raw path at '/')
        want_segs, cur = [], ""
        for kind, x in op["path"]:
            if kind == "lit":
                parts = x.split("/")
                cur += parts[0]
                for more in parts[1:]:
                    want_segs.append(cur)
                    cur = more
            else:
                cur += wire_simple_text(given[("path", x)])
        want_segs.append(cur)
        if r["segs"] != want_segs:
            fails.append(f"path segments {r['segs']} != {want_segs} (a path value is not percent-encoded)")

    def multimap(pairs, lower=False):
        d: dict[str, list] = {}
        for k, v in pairs:
            d.setdefault(k.lower() if lower else k, []).append(v)
        return d

    for loc, got, lower in (("query", multimap(r["query"]), False), ("header", multimap(r["headers"], True), True),
                            ("cookie", multimap(r["cookies"]), False)):
        want: dict[str, list] = {}
        for (l2, name), v in given.items():
            if l2 != loc:
                continue
            if loc == "query":       # style=form, explode=true (the default): one name=value pair per item
                vals = [wire_text(x) for x in v["items"]] if v["t"] == "arr" else [wire_text(v)]
            else:                    # style=simple: one comma-separated value
                vals = [wire_simple_text(v)]
            if vals:
                want[name.lower() if lower else name] = vals
        if got != want:
            missing = sorted(set(want) - set(got))
            extra = sorted(set(got) - set(want))
            diff = sorted(k for k in set(got) & set(want) if got[k] != want[k])
            fails.append(f"{loc}: " + "; ".join(
                ([f"supplied but not sent: {missing}"] if missing else []) +
                ([f"sent but not a supplied {loc} parameter: {extra}"] if extra else []) +
                ([f"wrong value for {k}: {got[k]} != {want[k]}" for k in diff])))
    if a["body"] is None:
        if r["body"] != ["none"]:
            fails.append(f"a body was sent although none was supplied: {r['body'][0]}")
    else:
        ct, bv = a["body"]
        if bv["t"] in ("json", "model", "share"):
            want_b = ["json", json.dumps(body_json(bv), sort_keys=True, separators=(",", ":"), ensure_ascii=False)]
        elif bv["t"] == "files":
            want_b = ["files", bv["v"]] if bv["v"] else ["none"]
        elif bv["t"] == "form":
            want_b = ["form", bv["v"]] if bv["v"] else ["none"]
        else:
            want_b = ["bytes", bv["v"]] if bv["v"] else ["none"]
        if r["body"] != want_b:
            fails.append(f"body {json.dumps(r['body'])[:80]} != supplied {json.dumps(want_b)[:80]}")
        elif want_b != ["none"] and r["ctype"] != ct:
            fails.append(f"Content-Type {r['ctype']} != {ct}")
    return fails


# ------------------------------------------------------------------------------------------- Coq printers
GUARD_FINDINGS = {1: "F04j", 2: "F04c", 3: "F04d", 4: "F04k"}   # bit k of Corr.C04.run
LOC = {"path": "Path", "query": "Query", "header": "Header", "cookie": "Cookie"}
TY = {"str": "TStr", "int": "TInt", "bool": "TBool", "enum": "TEnum", "date": "TDate", "datetime": "TDateTime"}


def c_scalar(v: dict, leaf: dict) -> str:
    t = v["t"]
    if t == "str":
        return f"(VStr {cstr(v['v'])})"
    if t == "int":
        return f"(VInt {cstr(str(v['v']))})"
    if t == "bool":
        return f"(VBool {cbool(v['v'])})"
    if t == "enum":
        fmt = leaf.get(v["cls"] + ":" + json.dumps(v["v"]), "?")
        return f"(VEnum {cbool(isinstance(v['v'], str))} {cstr(str(v['v']))} {cstr(fmt)})"
    if t == "date":
        return f"(VDate {cstr(_dt.date.fromisoformat(v['v']).isoformat())})"
    d = _dt.datetime.fromisoformat(v["v"])
    return f"(VDateTime {cstr(d.isoformat())} {cstr(str(d))})"


def c_value(v: dict, leaf: dict) -> str:
    if v["t"] == "arr":
        return f"(Arr {clist(c_scalar(x, leaf) for x in v['items'])})"
    return f"(Sc {c_scalar(v, leaf)})"


def c_bytes(b: list) -> str:
    return "[" + ";".join(str(x) for x in b) + "]" if b else "[]"


def c_bval(bv: dict) -> str:
    if bv["t"] in ("json", "model", "share"):
        return f"(BJson {cstr(json.dumps(body_json(bv), sort_keys=True, separators=(',', ':'), ensure_ascii=False))})"
    if bv["t"] == "files":
        return f"(BFiles {clist(cpair(cstr(k), c_bytes(b)) for k, b in bv['v'])})"
    if bv["t"] == "form":
        return f"(BForm {clist(cpair(cstr(k), cstr(s)) for k, s in bv['v'])})"
    return f"(BBytes {c_bytes(bv['v'])})"


def c_params(ps: list[dict]) -> str:
    return clist(f"{{| p_name := {cstr(p['name'])}; p_loc := {LOC[p['in']]}; p_required := {cbool(p['required'])}; "
                 f"p_ty := {TY[p['ty']]}; p_array := {cbool(p['array'])} |}}" for p in ps)


def c_op(op: dict, merged: bool = True) -> str:
    """merged=False: o_params is left empty; the correspondence driver fills it with Wire.merge_params"""
    segs = clist(f"(Lit {cstr(s[1])})" if s[0] == "lit" else f"(Var {cstr(s[1])})" for s in op["path"])
    ps = c_params(ordered_params(op)) if merged else "[]"
    return (f"{{| o_method := {cstr(op['method'].upper())}; o_path := {segs}; o_params := {ps}; "
            f"o_body := {clist(cstr(c) for c in op['body'])}; o_body_required := {cbool(op['body_required'])} |}}")


def name_table(op: dict) -> str:
    names = {p["name"] for p in op["params"]} | {s[1] for s in op["path"] if s[0] == "var"} | \
        {"body", "files", "form_data", "bytes_content", "data", "content_type", "self"}
    names |= {mn(n) for n in names}
    return clist(cpair(cstr(n), cstr(mn(n))) for n in sorted(names))


def c_args(a: dict, leaf: dict) -> str:
    ps = clist(f"({LOC[l]}, {cstr(n)}, {c_value(v, leaf)})" for l, n, v in a["params"])
    body = "None" if a["body"] is None else f"(Some ({cstr(a['body'][0])}, {c_bval(a['body'][1])}))"
    return f"{{| a_params := {ps}; a_body := {body} |}}"


def c_obs(obs: dict) -> str:
    if "err" in obs:
        return "None"
    r = obs["req"]
    b = r["body"]
    if b[0] == "none":
        body = "ONone"
    elif b[0] == "json":
        body = f"(OJson {cstr(b[1])})"
    elif b[0] == "files":
        body = f"(OFiles {clist(cpair(cstr(k), c_bytes(x)) for k, x in b[1])})"
    elif b[0] == "form":
        body = f"(OForm {clist(cpair(cstr(k), cstr(s)) for k, s in b[1])})"
    else:
        body = f"(OBytes {c_bytes(b[1])})"
    kv = lambda l: clist(cpair(cstr(k), cstr(v)) for k, v in l)  # noqa: E731
    return (f"(Some {{| r_method := {cstr(r['method'])}; "
            f"r_segs := {clist(cstr(x) for x in r['segs'])}; r_query := {kv(r['query'])}; "
            f"r_headers := {kv(r['headers'])}; r_cookies := {kv(r['cookies'])}; "
            f"r_ctype := {copt(r['ctype'], cstr)}; r_body := {body} |}})")


def c_case(case: dict) -> str:
    op, a = case["input"]["op"], case["input"]["args"]
    item = case["input"].get("item") or [op]
    k = case["input"].get("k", 0)
    pl = level_params(item[0])[0]
    its = clist(f"({c_op(o, merged=False)}, {c_params(level_params(o)[1])})" for o in item)
    return (f"(({name_table(op)}, {{| pi_params := {c_params(pl)}; pi_ops := {its} |}}, {k}%nat, "
            f"{c_args(a, case['leaf'])}), {c_obs(case['obs'])})")


# ------------------------------------------------------------------------------------------- running
def run_batch(batches: list[tuple[list[dict], list[tuple[int, dict]]]]) -> list[dict]:
    cases = []
    for ops, calls in batches:
        obs, leaf, _err = run_spec(ops, calls)
        for (i, a), o in zip(calls, obs):
            item, k = item_of(ops, i)
            inp = {"op": ops[i], "args": a}
            if len(item) > 1:            # the whole path item: the case depends on the operation's siblings
                inp.update({"item": item, "k": k})
            cases.append({"input": inp, "obs": o, "leaf": leaf, "oracle_fail": oracle(ops[i], a, o)})
    return cases


def solo(op: dict) -> dict:
    return {**op, "tag": "alpha"}


def main(chk: Check, replay: dict | None = None) -> int:
    if replay is not None:
        inp = replay["input"]
        item = [solo(o) for o in inp.get("item") or [inp["op"]]]
        cases = run_batch([(item, [(inp.get("k", 0), inp["args"])])])
        print(json.dumps({"obs": cases[0]["obs"], "oracle_fail": cases[0]["oracle_fail"]}, indent=1))
        if cases[0]["oracle_fail"]:
            print(f"VIOLATION property=C04 replay=(replayed) : {cases[0]['oracle_fail']}")
            return 1
        return 0
    import time as _t
    t0 = _t.time()
    chk.prove()
    t_prove = _t.time() - t0
    rng = chk.rng
    batches: list[tuple[list[dict], list[tuple[int, dict]]]] = []
    # corpus first (each witness in a client of its own)
    for c in load_corpus("C04"):
        inp = c["input"]
        batches.append(([solo(o) for o in inp.get("item") or [inp["op"]]], [(inp.get("k", 0), inp["args"])]))
    xops = cross_ops()
    batches.append((xops, [(i, a) for i, op in enumerate(xops) for a in assignments(rng, op)]))
    xitem = cross_item()
    batches.append((xitem, [(i, a) for i, op in enumerate(xitem) for a in assignments(rng, op)]))
    n_specs = 60 if chk.thorough else 14
    n_collide = 30 if chk.thorough else 8
    idx = 0
    for s in range(n_specs):
        ops = []
        for _ in range(6):
            fl = "safe" if rng.random() < 0.45 else "plain"
            op = gen_op(rng, idx, fl)
            idx += 1
            if poisoned(op):
                continue
            ops.append(op)
        calls = [(i, a) for i, op in enumerate(ops)
                 for a in assignments(rng, op, cap=None if chk.thorough else 24)]
        batches.append((ops, calls))
    for s in range(8 if chk.thorough else 2):          # path items with several methods sharing path-level parameters
        ops = []
        for _ in range(3):
            it = gen_item(rng, idx)
            idx += len(it)
            if not any(poisoned(o) for o in it):
                ops += it
        batches.append((ops, [(i, a) for i, op in enumerate(ops) for a in assignments(rng, op, cap=16)]))
    for s in range(n_collide):
        op = gen_op(rng, idx, "collide")
        idx += 1
        if poisoned(op):
            batches.append(([op], [(0, a) for a in assignments(rng, op, cap=3)]))
        else:
            batches.append(([op], [(0, a) for a in assignments(rng, op, cap=16)]))
    t0 = _t.time()
    cases = run_batch(batches)
    t_impl = _t.time() - t0
    chk.cov["evaluations"] = len(cases)
    nontrivial = {json.dumps(c["input"], sort_keys=True) for c in cases
                  if c["input"]["args"]["params"] or c["input"]["args"]["body"]}
    chk.cov["distinct_nontrivial"] = len(nontrivial)
    dist: dict[str, Any] = {"clients_generated": len(batches), "operations": sum(len(b[0]) for b in batches),
                            "methods": {}, "param_locations": {}, "value_kinds": {}, "body_kinds": {},
                            "multi_content_ops": 0, "path_level_params": 0, "errors": 0, "oracle_failures": 0,
                            "supplied_optional_counts": {}}
    for ops, _ in batches:
        for op in ops:
            dist["methods"][op["method"]] = dist["methods"].get(op["method"], 0) + 1
            dist["multi_content_ops"] += len(op["body"]) > 1
            for p in op["params"]:
                dist["param_locations"][p["in"]] = dist["param_locations"].get(p["in"], 0) + 1
                dist["path_level_params"] += p["level"] == "path"
    for c in cases:
        a = c["input"]["args"]
        for _, _, v in a["params"]:
            k = v["t"] if v["t"] != "arr" else "arr"
            dist["value_kinds"][k] = dist["value_kinds"].get(k, 0) + 1
        bk = a["body"][1]["t"] if a["body"] else "none"   # "model" = instance of a generated dataclass
        dist["body_kinds"][bk] = dist["body_kinds"].get(bk, 0) + 1
        dist["errors"] += "err" in c["obs"]
        dist["oracle_failures"] += bool(c["oracle_fail"])
        req = {(p["in"], p["name"]) for p in c["input"]["op"]["params"] if p["required"]}
        nopt = sum(1 for l, n, _ in a["params"] if (l, n) not in req)
        dist["supplied_optional_counts"][str(nopt)] = dist["supplied_optional_counts"].get(str(nopt), 0) + 1
    chk.cov["input_distribution"] = dist
    for c in cases[:1] + cases[len(cases) // 2:len(cases) // 2 + 1] + cases[-1:]:
        chk.sample({"input": c["input"], "obs": c["obs"]})
    codes = None
    if chk.model_ok:
        codes = chk.coq_eval("From PG Require Import Lib.Strs Model.Wire Corr.C04.", "input * obs",
                             [c_case(c) for c in cases], "run", shard=150)
    chk.cov["phase_seconds"] = {"prove": round(t_prove, 1), "generate_and_drive": round(t_impl, 1)}
    for c in cases:
        c.pop("leaf", None)
    if codes is not None:
        inside = [c for c, k in zip(cases, codes) if k == 0]
        dist["cases_inside_C04_partial_hypotheses"] = len(inside)          # well typed, every guard holds, model = impl
        dist["cases_not_well_typed_in_the_model"] = sum(1 for k in codes if k >> (len(GUARD_FINDINGS) + 1) & 1)
        dist["cases_per_failed_guard"] = {f: sum(1 for k in codes if k >> i & 1) for i, f in GUARD_FINDINGS.items()}
    chk.decide(cases, codes, GUARD_FINDINGS,
               "Corr.C04.run: Wire.call(model) = request captured under MockTransport (after decoding)")
    return chk.finish(
        TRUSTED,
        rule="corpus + seeded structured operations (8 HTTP methods; path/query/header/cookie parameters at path "
             "and operation level; required/optional; scalar/array/enum/date values; json/multipart/form/octet "
             "bodies; 1-3 content types; name-collision flavour) x every subset of the optional arguments for "
             "<= 5 optionals (random subsets above; quick tier caps at 24 per operation); non-trivial = at least "
             "one argument supplied; distinct by JSON of (operation, assignment)")
