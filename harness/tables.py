"""Translator: regenerates coq/Gen/Tables.v from /repo's working tree (Python `ast`, fail-closed).

Only *data* the theorems quantify over is translated (string constants, tables, inventories);
code is modelled by hand and tied by the correspondence checks.  If an expected literal no longer
has the expected shape the translator raises TranslatorError and the check reports the obligation
as unrebuildable.
"""
from __future__ import annotations

import ast
import keyword
from pathlib import Path

import os

SRC = Path(os.environ.get("VERIF_REPO_ROOT", "/repo")) / "src" / "pyopenapi_gen"
OUT = Path(__file__).resolve().parent.parent / "coq" / "Gen" / "Tables.v"


class TranslatorError(Exception):
    pass


def cstr(s: str) -> str:
    return "[" + ";".join(str(ord(c)) for c in s) + "]" if s else "[]"


def _parse(rel: str) -> ast.Module:
    p = SRC / rel
    try:
        return ast.parse(p.read_text())
    except (OSError, SyntaxError) as e:
        raise TranslatorError(f"cannot parse {p}: {e}")


def _find_class(mod: ast.Module, name: str) -> ast.ClassDef:
    for n in ast.walk(mod):
        if isinstance(n, ast.ClassDef) and n.name == name:
            return n
    raise TranslatorError(f"class {name} not found")


def _find_func(node: ast.AST, name: str) -> ast.FunctionDef | ast.AsyncFunctionDef:
    for n in ast.walk(node):
        if isinstance(n, (ast.FunctionDef, ast.AsyncFunctionDef)) and n.name == name:
            return n
    raise TranslatorError(f"function {name} not found")


def _module_assign(mod: ast.Module, name: str) -> ast.expr:
    for n in mod.body:
        if isinstance(n, ast.Assign) and any(isinstance(t, ast.Name) and t.id == name for t in n.targets):
            return n.value
        if isinstance(n, ast.AnnAssign) and isinstance(n.target, ast.Name) and n.target.id == name and n.value:
            return n.value
    raise TranslatorError(f"module-level assignment {name} not found")


# ------------------------------------------------------------------ C17: auth plugins
def transport_tables() -> list[str]:
    mod = _parse("core/auth/plugins.py")
    api = _find_func(_find_class(mod, "ApiKeyAuth"), "authenticate_request")
    locs: list[tuple[str, str]] = []  # (literal compared with self.location, key of request_args written)
    node: ast.stmt | None = api.body[0]
    while isinstance(node, ast.If):
        t = node.test
        if not (isinstance(t, ast.Compare) and isinstance(t.left, ast.Attribute) and t.left.attr == "location"
                and len(t.ops) == 1 and isinstance(t.ops[0], ast.Eq) and isinstance(t.comparators[0], ast.Constant)):
            raise TranslatorError("ApiKeyAuth.authenticate_request: unexpected test shape")
        written = [s.targets[0].slice.value for s in node.body
                   if isinstance(s, ast.Assign) and isinstance(s.targets[0], ast.Subscript)
                   and isinstance(s.targets[0].value, ast.Name) and s.targets[0].value.id == "request_args"]
        if len(written) != 1:
            raise TranslatorError("ApiKeyAuth branch does not write exactly one request_args key")
        locs.append((t.comparators[0].value, written[0]))
        node = node.orelse[0] if len(node.orelse) == 1 else None
        if node is not None and not isinstance(node, ast.If):
            if not isinstance(node, ast.Raise):
                raise TranslatorError("ApiKeyAuth: final else is not a raise")
            node = None
    if [w for _, w in locs] != ["headers", "params", "cookies"]:
        raise TranslatorError(f"ApiKeyAuth locations changed shape: {locs}")

    def header_fstrings(fn: ast.AST) -> list[tuple[str, str]]:
        """(header name, literal prefix) of every `set_header(<dict>, "<name>", f"<prefix>{...}")` call and of every
        `<dict>["<name>"] = f"<prefix>{...}"` assignment in fn"""
        out = []
        for s in ast.walk(fn):
            name = val = None
            if (isinstance(s, ast.Call) and isinstance(s.func, ast.Name) and s.func.id == "set_header"
                    and len(s.args) == 3 and isinstance(s.args[1], ast.Constant)):
                name, val = s.args[1].value, s.args[2]
            elif (isinstance(s, ast.Assign) and isinstance(s.targets[0], ast.Subscript)
                  and isinstance(s.targets[0].slice, ast.Constant)):
                name, val = s.targets[0].slice.value, s.value
            if (isinstance(val, ast.JoinedStr) and len(val.values) == 2 and isinstance(val.values[0], ast.Constant)):
                out.append((name, val.values[0].value))
        return out

    def bearer_parts(fn: ast.AST, what: str) -> tuple[str, str]:
        found = header_fstrings(fn)
        if len(found) != 1:
            raise TranslatorError(f"{what}: expected exactly one Authorization f-string, found {found}")
        return found[0]

    b1 = bearer_parts(_find_func(_find_class(mod, "BearerAuth"), "authenticate_request"), "BearerAuth")
    b2 = bearer_parts(_find_func(_find_class(mod, "OAuth2Auth"), "authenticate_request"), "OAuth2Auth")
    tmod = _parse("core/http_transport.py")
    b3 = bearer_parts(_find_func(_find_class(tmod, "HttpxTransport"), "_prepare_headers"), "_prepare_headers")
    if not (b1 == b2 == b3):
        raise TranslatorError(f"bearer header/prefix differ between sites: {b1} {b2} {b3}")
    return [
        "(* core/auth/plugins.py, core/http_transport.py *)",
        f"Definition s_Authorization : list N := {cstr(b1[0])}.",
        f"Definition s_Bearer_sp : list N := {cstr(b1[1])}.",
        f"Definition s_header : list N := {cstr(locs[0][0])}.",
        f"Definition s_query : list N := {cstr(locs[1][0])}.",
        f"Definition s_cookie : list N := {cstr(locs[2][0])}.",
    ]


# ------------------------------------------------------------------ shared: keywords
def keyword_tables() -> list[str]:
    return [
        "(* keyword.kwlist of the interpreter the generator runs under *)",
        "Definition keywords : list (list N) := [" + "; ".join(cstr(k) for k in keyword.kwlist) + "].",
    ]


SECTIONS = [transport_tables, keyword_tables]


def render() -> str:
    lines = ["(* GENERATED by /verif/harness/tables.py from /repo/src — do not edit *)",
             "From Coq Require Import List NArith.", "Import ListNotations.", "Open Scope N_scope.", ""]
    for sec in SECTIONS:
        lines += sec() + [""]
    return "\n".join(lines)


def write_if_changed(path: Path, text: str) -> bool:
    if path.exists() and path.read_text() == text:
        return False
    path.parent.mkdir(parents=True, exist_ok=True)
    path.write_text(text)
    return True


def regenerate() -> bool:
    """Rewrite Gen/Tables.v (and every Gen/T_Cxx.v produced by a harness/tables_Cxx.py plug-in, each of which
    exports `render() -> str` and `OUT_NAME`) if the content changed.  Returns True if anything was rewritten.
    Plug-ins raise TranslatorError (import it from this module) to fail closed."""
    import importlib
    changed = write_if_changed(OUT, render())
    for plug in sorted(Path(__file__).resolve().parent.glob("tables_C*.py")):
        mod = importlib.import_module(plug.stem)
        try:
            text = mod.render()
        except TranslatorError:
            raise
        except Exception as e:  # any unexpected shape = fail closed
            raise TranslatorError(f"{plug.name}: {type(e).__name__}: {e}")
        changed |= write_if_changed(OUT.parent / mod.OUT_NAME, text)
    return changed


if __name__ == "__main__":
    print("rewritten" if regenerate() else "unchanged")
