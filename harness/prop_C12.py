"""C12 — generated clients are self-contained (no dependency on the generator).

Oracle (written from the property text, independent of the Coq model):
  * every ast.Import / ast.ImportFrom at any depth of every emitted .py file names only the standard library, httpx,
    cattrs, the emitted package or its core package (relative imports are resolved with importlib.util.resolve_name
    in the file's own package and must land inside the package or its core);
  * every module of the emitted package (and of a separate core package) imports in a fresh interpreter in which
    `pyopenapi_gen` cannot be imported and PYTHONPATH is empty;
  * the runtime files in the core package are byte-for-byte (sha256) the files shipped with the generator.
Correspondence: the Coq model's verdict `allowed_at` on every distinct import statement vs. the oracle's verdict;
`calc_relative` / `make_relative_import` / `resolve_name` vs. RenderContext.calculate_relative_path_for_internal_module /
import_collector.make_relative_import / importlib.util.resolve_name on random module paths; the regenerated
runtime_imports table vs. the import statements of the emitted runtime files.
"""
from __future__ import annotations

import ast
import hashlib
import importlib.util
import json
import os
import shutil
import sys
import tempfile
from concurrent.futures import ThreadPoolExecutor
from pathlib import Path
from typing import Any

from framework import BUILD, Check, cN, cbool, clist, cstr, load_corpus

import pipeline
import tables_C12

TRUSTED = [
    "Coq 8.16.1 kernel + vm_compute (finite-table theorems, witness theorems, correspondence evaluation)",
    "hand-written Gallina model coq/Model/CoreImports.v (allow-list, CPython _resolve_name, the two relative-path "
    "functions, emit_core), tied to the code by this run's correspondence cases",
    "translator harness/tables_C12.py (ast): RUNTIME_FILES, import statements of the runtime files, import lines in "
    "string templates, import-registration call sites and their classification; the audited list of computed module "
    "expressions in that file (AUDITED, RENDERERS, DOCSTRING_LINES) is read by a human, not proved",
    "inventory completeness: an import assembled without a recognisable `from X import`/`import X` template or API call "
    "(e.g. string concatenation, exec) is invisible to the tables; the pipeline oracle over real generated packages is "
    "the backstop",
    "sys.stdlib_module_names of the running interpreter as the definition of 'standard library'",
    "importlib.util.resolve_name as CPython's relative-import rule; ast.parse as the reader of emitted files",
]
STDLIB = set(sys.stdlib_module_names)
THIRD = {"httpx", "cattrs"}


# ---------------------------------------------------------------- specs that force the rarely used templates
def J(schema: dict) -> dict:
    return {"application/json": {"schema": schema}}


def R(n: str) -> dict:
    return {"$ref": "#/components/schemas/" + n}


def kitchen_sink() -> dict:
    pid = {"name": "user_id", "in": "path", "required": True, "schema": {"type": "string"}}
    return pipeline.base_spec(paths={
        "/users/{user_id}": {
            "get": {"operationId": "getUser", "tags": ["Users"],
                    "parameters": [pid, {"name": "verbose", "in": "query", "schema": {"type": "boolean"}},
                                   {"name": "X-Trace", "in": "header", "schema": {"type": "string"}},
                                   {"name": "since", "in": "query", "schema": {"type": "string", "format": "date-time"}}],
                    "responses": {"200": {"description": "ok", "content": J(R("User"))}, "404": {"description": "nf"},
                                  "500": {"description": "boom"}}},
            "put": {"operationId": "putUser", "tags": ["Users"], "parameters": [pid],
                    "requestBody": {"required": True, "content": J(R("User"))},
                    "responses": {"200": {"description": "ok", "content": J(R("User"))},
                                  "201": {"description": "created", "content": J(R("Pet"))},
                                  "400": {"description": "bad"}, "default": {"description": "other"}}},
            "delete": {"operationId": "deleteUser", "tags": ["Users"], "parameters": [pid],
                       "responses": {"204": {"description": "gone"}}}},
        "/users": {"get": {"operationId": "listUsers", "tags": ["Users"],
                           "parameters": [{"name": "limit", "in": "query", "schema": {"type": "integer"}},
                                          {"name": "tags", "in": "query", "schema": {"type": "array", "items": {"type": "string"}}}],
                           "responses": {"200": {"description": "ok", "content": J({"type": "array", "items": R("User")})}}}},
        "/pets": {"post": {"operationId": "createPet", "tags": ["Pets"], "requestBody": {"content": J(R("Pet"))},
                           "responses": {"200": {"description": "ok", "content": J(R("Pet"))}, "409": {"description": "conflict"}}},
                  "get": {"operationId": "listPets", "tags": ["Pets"],
                          "responses": {"200": {"description": "ok", "content": J({"type": "object", "properties": {
                              "data": {"type": "array", "items": R("Pet")}, "total": {"type": "integer"}}})}}}},
        "/upload": {"post": {"operationId": "uploadFile", "tags": ["Files"],
                             "requestBody": {"content": {"multipart/form-data": {"schema": {"type": "object", "properties": {
                                 "file": {"type": "string", "format": "binary"}, "note": {"type": "string"}}}}}},
                             "responses": {"200": {"description": "ok", "content": J(R("Attrs"))}}}},
        "/both": {"post": {"operationId": "postBoth", "tags": ["Files"],
                           "requestBody": {"content": {**J(R("Pet")), "multipart/form-data": {"schema": {
                               "type": "object", "properties": {"file": {"type": "string", "format": "binary"}}}}}},
                           "responses": {"200": {"description": "ok", "content": J(R("Pet"))}}}},
        "/form": {"post": {"operationId": "postForm", "tags": ["Files"],
                           "requestBody": {"content": {"application/x-www-form-urlencoded": {"schema": {
                               "type": "object", "properties": {"a": {"type": "string"}}}}}},
                           "responses": {"200": {"description": "ok", "content": {"text/plain": {"schema": {"type": "string"}}}}}}},
        "/download": {"get": {"operationId": "downloadFile", "tags": ["Files"],
                              "responses": {"200": {"description": "ok", "content": {"application/octet-stream": {
                                  "schema": {"type": "string", "format": "binary"}}}}}}},
        "/events": {"get": {"operationId": "streamEvents", "tags": ["Events"],
                            "responses": {"200": {"description": "ok", "content": {"text/event-stream": {"schema": R("Event")}}}}}},
        "/ndjson": {"get": {"operationId": "streamLines",
                            "responses": {"200": {"description": "ok", "content": {"application/x-ndjson": {"schema": R("Event")}}}}}},
        "/shape": {"get": {"operationId": "getShape", "tags": ["Shapes"],
                           "responses": {"200": {"description": "ok", "content": J(R("Shape"))},
                                         "202": {"description": "alt", "content": J({"oneOf": [R("Circle"), R("Square")]})}}}},
        "/any": {"get": {"operationId": "getAny",
                         "responses": {"200": {"description": "ok", "content": J({"type": "object", "additionalProperties": True})}}}},
    }, schemas={
        "User": {"type": "object", "required": ["id"], "properties": {
            "id": {"type": "string", "format": "uuid"}, "name": {"type": "string", "nullable": True},
            "created_at": {"type": "string", "format": "date-time"}, "birthday": {"type": "string", "format": "date"},
            "role": R("Role"), "level": R("Level"), "pets": {"type": "array", "items": R("Pet")},
            "labels": {"type": "object", "additionalProperties": {"type": "string"}},
            "address": {"type": "object", "properties": {"street": {"type": "string"}, "zip": {"type": "string"}}},
            "attrs": R("Attrs"), "scores": R("Scores")}},
        "Role": {"type": "string", "enum": ["admin", "user", "guest-user"]},
        "Level": {"type": "integer", "enum": [1, 2, 3]},
        "Pet": {"type": "object", "required": ["name"], "properties": {
            "name": {"type": "string"}, "age": {"type": "integer"}, "weight": {"type": "number"},
            "tags": {"type": "array", "items": {"type": "string"}}, "photo": {"type": "string", "format": "byte"}}},
        "Attrs": {"type": "object", "additionalProperties": True, "description": "free-form"},
        "Scores": {"type": "object", "additionalProperties": R("Pet")},
        "Event": {"type": "object", "properties": {"kind": {"type": "string"}, "at": {"type": "string", "format": "date-time"},
                                                   "payload": {"type": "object", "additionalProperties": True}}},
        "Circle": {"type": "object", "required": ["kind"], "properties": {"kind": {"type": "string"}, "r": {"type": "number"}}},
        "Square": {"type": "object", "required": ["kind"], "properties": {"kind": {"type": "string"}, "side": {"type": "number"}}},
        "Shape": {"oneOf": [R("Circle"), R("Square")], "discriminator": {"propertyName": "kind", "mapping": {
            "circle": "#/components/schemas/Circle", "square": "#/components/schemas/Square"}}},
        "Loose": {"anyOf": [R("Circle"), {"type": "string"}]},
        "Admin": {"allOf": [R("Pet"), {"type": "object", "properties": {"perm": {"type": "array", "items": {"type": "string"}}}}]},
        "Tree": {"type": "object", "required": ["kids"], "properties": {"kids": {"type": "array", "items": R("Tree")}, "v": {"type": "integer"}}},
        "Ids": {"type": "array", "items": {"type": "string", "format": "uuid"}},
        "Stamp": {"type": "string", "format": "date-time"},
    })


def spec_minimal() -> dict:
    return pipeline.base_spec()


def spec_errors() -> dict:
    resp = {str(c): {"description": "e"} for c in (400, 401, 403, 404, 409, 418, 422, 429, 500, 502, 503)}
    resp["200"] = {"description": "ok", "content": J({"type": "array", "items": {"type": "string"}})}
    # a model class called like an exception alias: the endpoint module must then import the alias MODULE of the core
    resp["404"] = {"description": "e", "content": J(R("NotFoundError"))}
    return pipeline.base_spec(paths={"/e": {"get": {"operationId": "errs", "tags": ["E"], "responses": resp}}},
                              schemas={"NotFoundError": {"type": "object", "properties": {"detail": {"type": "string"}}}})


def spec_models_only_types() -> dict:
    """formats and containers, no tags (default group), nested inline objects, enum arrays"""
    return pipeline.base_spec(paths={"/m": {"post": {
        "operationId": "mk", "requestBody": {"content": J(R("M"))},
        "parameters": [{"name": "when", "in": "query", "schema": {"type": "string", "format": "date"}},
                       {"name": "uid", "in": "header", "schema": {"type": "string", "format": "uuid"}}],
        "responses": {"200": {"description": "ok", "content": J(R("M"))}}}}},
        schemas={"M": {"type": "object", "properties": {
            "d": {"type": "string", "format": "date"}, "t": {"type": "string", "format": "date-time"},
            "b": {"type": "string", "format": "binary"}, "dec": {"type": "number", "format": "double"},
            "kinds": {"type": "array", "items": {"type": "string", "enum": ["x", "y"]}},
            "deep": {"type": "object", "properties": {"inner": {"type": "object", "properties": {"z": {"type": "integer"}}}}},
            "mm": {"type": "object", "additionalProperties": {"type": "array", "items": {"type": "integer"}}},
            "u": {"oneOf": [{"type": "string"}, {"type": "integer"}]}, "n": R("N")}},
            "N": {"type": "object", "properties": {"ms": {"type": "array", "items": R("M2")}}},
            "M2": {"type": "object", "properties": {"k": {"type": "string"}}}})


SPECS = {"kitchen_sink": kitchen_sink, "minimal": spec_minimal, "errors": spec_errors, "types": spec_models_only_types}

LAYOUTS_QUICK = [("client", None), ("a.b.client", None), ("client", "core"), ("a.client", "shared.core"),
                 ("a.b.client", "a.b.core")]
LAYOUTS_MORE = [("x.y.client", "x.core"), ("client", "client.core"), ("client", "client.rt.core"),
                ("a.b.c.client", None), ("a.b.c.client", "a.rt.core"), ("pyapis.business", "pyapis.core")]


# ---------------------------------------------------------------- observation of one generated package
def module_of(rel: Path) -> tuple[list[str], bool]:
    parts = list(rel.with_suffix("").parts)
    if parts[-1] == "__init__":
        return parts[:-1], True
    return parts, False


def scan_package(g: pipeline.Generated) -> list[dict]:
    """every import statement of every emitted .py (uses the translator's walker only for the location label)"""
    out = []
    for p in g.py_files():
        rel = p.relative_to(g.root)
        cur, is_pkg = module_of(rel)
        try:
            tree = ast.parse(p.read_text())
        except SyntaxError as e:
            out.append({"file": str(rel), "syntax_error": str(e)})
            continue
        for lvl, mod, loc, line in tables_C12._imports_of(tree):
            out.append({"file": str(rel), "cur": cur, "is_pkg": is_pkg, "level": lvl,
                        "parts": mod.split(".") if mod else [], "loc": loc, "line": line})
    return out


def under(p: list[str], m: list[str]) -> bool:
    return bool(p) and m[:len(p)] == p


def oracle_stmt(pkg: list[str], core: list[str], st: dict) -> str | None:
    """the property's predicate on one import statement; None = fine"""
    if st["level"] == 0:
        m = st["parts"]
        if not m:
            return f"{st['file']}:{st['line']}: empty module name"
        if m[0] in STDLIB or m[0] in THIRD or under(pkg, m) or under(core, m):
            return None
        return f"{st['file']}:{st['line']}: imports {'.'.join(m)!r}, which is outside stdlib/httpx/cattrs/package/core"
    package = st["cur"] if st["is_pkg"] else st["cur"][:-1]
    name = "." * st["level"] + ".".join(st["parts"])
    try:
        absname = importlib.util.resolve_name(name, ".".join(package))
    except ImportError as e:
        return f"{st['file']}:{st['line']}: relative import {name!r} cannot be resolved in {'.'.join(package)!r}: {e}"
    m = absname.split(".")
    if under(pkg, m) or under(core, m):
        return None
    return f"{st['file']}:{st['line']}: relative import {name!r} resolves to {absname!r}, outside the package and its core"


def core_dir(g: pipeline.Generated, core: list[str]) -> Path:
    return g.root.joinpath(*core)


def sha(p: Path) -> str:
    return hashlib.sha256(p.read_bytes()).hexdigest()


# ---------------------------------------------------------------- Coq printers
def cnat(n: int) -> str:
    return f"({n})%nat"


def cpath(parts: list[str]) -> str:
    return clist(cstr(x) for x in parts)


def copt_imp(o: Any) -> str:
    return "None" if o is None else f"(Some ({cnat(o[0])}, {cpath(o[1])}))"


def parse_rel(s: str) -> tuple[int, list[str]]:
    lvl = len(s) - len(s.lstrip("."))
    rest = s[lvl:]
    return lvl, (rest.split(".") if rest else [])


# ---------------------------------------------------------------- relative-path functions vs the real ones
COMPONENTS = ["a", "b", "c", "models", "endpoints", "mocks", "core", "user", "x1", "__init__", "client", "auth"]


def rand_path(rng, lo: int, hi: int) -> list[str]:
    return [rng.choice(COMPONENTS) for _ in range(rng.randint(lo, hi))]


def related(rng, p: list[str]) -> list[str]:
    """a path that shares a prefix with p (so that the interesting branches are taken often)"""
    k = rng.randint(0, len(p))
    return p[:k] + rand_path(rng, 0 if k else 1, 3)


def rel_cases(chk: Check, n: int, scratch: Path) -> list[dict]:
    from pyopenapi_gen.context.import_collector import make_relative_import
    from pyopenapi_gen.context.render_context import RenderContext
    rng = chk.rng
    cases: list[dict] = []
    root = scratch / "proj"
    pkg_root = root / "pkg"
    pkg_root.mkdir(parents=True)
    ctx = RenderContext(core_package_name="pkg.core", package_root_for_generated_code=str(pkg_root),
                        overall_project_root=str(root), output_package_name="pkg")
    fixed = [(["endpoints", "users"], ["models", "user"]), (["client"], ["endpoints", "users"]),
             (["mocks", "endpoints", "mock_users"], ["models", "user"]), (["models", "__init__"], ["models", "user"]),
             (["models", "a"], ["models", "a"]), (["models", "a"], ["models"]), (["mocks", "endpoints", "m"], ["client"]),
             (["__init__"], ["client"]), (["a", "b", "c", "d"], ["a", "x"]), (["a", "b"], ["a", "b", "c"])]
    for i in range(n):
        if i < len(fixed):
            cur, tgt = fixed[i]
        else:
            cur = rand_path(rng, 1, 5)
            tgt = related(rng, cur) if rng.random() < 0.8 else rand_path(rng, 1, 4)
        if not tgt:
            continue
        # calculate_relative_path_for_internal_module: the target may be an existing directory (package)
        if rng.random() < 0.3:
            (pkg_root.joinpath(*tgt)).mkdir(parents=True, exist_ok=True)
        tdir = pkg_root.joinpath(*tgt).is_dir()
        ctx.current_file = str(pkg_root.joinpath(*cur)) + ".py"
        r = ctx.calculate_relative_path_for_internal_module(".".join(tgt))
        obs = None if r is None else list(parse_rel(r))
        cases.append({"input": {"k": "calc", "cur": cur, "tgt": tgt, "tdir": tdir}, "obs": obs, "oracle_fail": []})
        # oracle for calc: CPython resolves the produced import, in the file's package, to pkg.<tgt>
        if r is not None:
            package = ["pkg"] + cur[:-1]
            try:
                absn = importlib.util.resolve_name(r, ".".join(package))
            except ImportError as e:
                absn = f"ImportError: {e}"
            if absn != ".".join(["pkg"] + tgt):
                cases[-1]["oracle_fail"].append(
                    f"calculate_relative_path_for_internal_module: from {'/'.join(cur)}.py the path {r!r} for target "
                    f"{'.'.join(tgt)} resolves to {absn!r}")
        elif not (cur == tgt and not tdir):
            cases[-1]["oracle_fail"].append("calculate_relative_path_for_internal_module returned None for another module")
        # make_relative_import on dotted names
        if len(cur) >= 1:
            r2 = make_relative_import(".".join(cur), ".".join(tgt))
            cases.append({"input": {"k": "mri", "cur": cur, "tgt": tgt}, "obs": list(parse_rel(r2)), "oracle_fail": []})
        # CPython resolve_name
        lvl = rng.randint(0, 4)
        package = rand_path(rng, 0, 4)
        name = rand_path(rng, 0, 2)
        if lvl == 0 and not name:
            name = ["a"]
        try:
            rr = importlib.util.resolve_name("." * lvl + ".".join(name), ".".join(package))
            ro = rr.split(".") if rr else []
        except ImportError:
            ro = None
        cases.append({"input": {"k": "res", "package": package, "level": lvl, "name": name}, "obs": ro, "oracle_fail": []})
    return cases


def add_import_cases(chk: Check, n: int, scratch: Path) -> list[dict]:
    """RenderContext.add_import end to end (prefix repair -> internal? -> relative path), observed as the absolute
    module that the registered import denotes for CPython from <pkg>/cur_zz.py"""
    from pyopenapi_gen.context.render_context import RenderContext
    rng = chk.rng
    out = []
    fixed = [(["pyapis", "business"], ["business", "core", "http_transport"]), (["x", "c"], ["c", "abc"]),
             (["dup", "dup"], ["dup", "dup", "models", "user"]), (["a", "b", "client"], ["b", "client", "models", "u"]),
             (["client"], ["client", "models", "u"]), (["a", "client"], ["other", "lib"]),
             (["x", "collections"], ["collections", "abc"]), (["a", "zz_core"], ["zz_core", "http_transport"]),
             (["dup", "dup"], ["dup", "models", "user"])]
    for i in range(n):
        if i < len(fixed):
            pkg, m = fixed[i]
        else:
            pkg = rand_path(rng, 1, 3)
            r = rng.random()
            m = (pkg[1:] + rand_path(rng, 1, 2)) if r < 0.4 and len(pkg) > 1 else (pkg + rand_path(rng, 1, 2)) if r < 0.7 else rand_path(rng, 1, 4)
        if m == pkg or m == pkg + ["cur_zz"] or (len(pkg) > 1 and [pkg[0]] + m in (pkg, pkg + ["cur_zz"])):
            continue
        root = scratch / f"ai{i}"
        pkg_root = root.joinpath(*pkg)
        ctx = RenderContext(core_package_name="zz_core", package_root_for_generated_code=str(pkg_root),
                            overall_project_root=str(root), output_package_name=".".join(pkg))
        ctx.set_current_file(str(pkg_root / "cur_zz.py"))
        ctx.add_import(".".join(m), "X")
        ic = ctx.import_collector
        keys = [("abs", k) for k in ic.imports] + [("rel", k) for k in ic.relative_imports] + [("plain", k) for k in ic.plain_imports]
        if len(keys) != 1:
            obs = None
        elif keys[0][0] == "rel":
            try:
                obs = importlib.util.resolve_name(keys[0][1], ".".join(pkg)).split(".")
            except ImportError:
                obs = None
        else:
            obs = keys[0][1].split(".")
        out.append({"input": {"k": "add", "pkg": pkg, "m": m}, "obs": obs, "oracle_fail": []})
    return out


def c_case(c: dict) -> str:
    i, o = c["input"], c["obs"]
    k = i["k"]
    if k == "calc":
        return f"(CCalc {cpath(i['cur'])} {cpath(i['tgt'])} {cbool(i['tdir'])}, OImp {copt_imp(o)})"
    if k == "mri":
        return f"(CMri {cpath(i['cur'])} {cpath(i['tgt'])}, OImp {copt_imp(o)})"
    if k == "res":
        return (f"(CRes {cpath(i['package'])} {cnat(i['level'])} {cpath(i['name'])}, "
                f"OPath {'None' if o is None else '(Some ' + cpath(o) + ')'})")
    if k == "stmt":
        return (f"(CStmt {cpath(i['pkg'])} {cpath(i['core'])} {cpath(i['cur'])} {cbool(i['is_pkg'])} {cnat(i['level'])} "
                f"{cpath(i['parts'])} {cN(i['loc'])}, OBool {cbool(o)})")
    if k == "add":
        return f"(CAdd {cpath(i['pkg'])} {cpath(i['m'])}, OPath {'None' if o is None else '(Some ' + cpath(o) + ')'})"
    if k == "core":
        rows = clist(f"({cnat(l)}, {cpath(p)}, {cN(loc)})" for l, p, loc in o)
        return f"(CCore {cpath(i['file'])}, ORt {rows})"
    raise ValueError(k)


# ---------------------------------------------------------------- pipeline cases
def run_layout(name: str, spec: dict, pkg: str, core: str | None, g: pipeline.Generated | None = None) -> dict:
    if g is None:
        g = pipeline.generate(spec, package=pkg, core_package=core)
    res: dict[str, Any] = {"spec": name, "package": pkg, "core_package": core, "ok": g.ok, "error": g.error}
    try:
        if not g.ok:
            return res
        pkg_parts = pkg.split(".")
        core_parts = core.split(".") if core else pkg_parts + ["core"]
        res["pkg"], res["core"] = pkg_parts, core_parts
        res["compile"] = pipeline.compile_all(g)
        res["stmts"] = scan_package(g)
        imp = pipeline.import_all(g)
        res["import"] = imp["result"] if imp["ok"] else {"<driver>": imp["error"]}
        # verbatim copy of the runtime files
        sh = {}
        cd = core_dir(g, core_parts)
        for module, fn, dst in tables_C12.runtime_files():
            shipped = tables_C12.runtime_source(module, fn)
            emitted = cd.joinpath(*dst.split("/")[1:])
            sh[dst] = {"emitted": sha(emitted) if emitted.is_file() else None, "shipped": sha(shipped)}
        res["sha"] = sh
        res["core_files"] = sorted(str(p.relative_to(cd)) for p in cd.rglob("*.py"))
        res["core_rt"] = {}
        for module, fn, dst in tables_C12.runtime_files():
            emitted = cd.joinpath(*dst.split("/")[1:])
            if emitted.is_file():
                try:
                    res["core_rt"][dst] = [[l, (m.split(".") if m else []), loc]
                                           for l, m, loc, _ in tables_C12._imports_of(ast.parse(emitted.read_text()))]
                except SyntaxError:
                    res["core_rt"][dst] = None
        # does the emitted text mention the generator at all (comments / strings)?  informational
        res["mentions_generator"] = sorted(str(p.relative_to(g.root)) for p in g.py_files()
                                           if "pyopenapi_gen" in p.read_text())
        return res
    finally:
        g.cleanup()


# ---------------------------------------------------------------- histories: a core package that already exists
HISTORY_LAYOUTS = [("apis.alpha", "apis.beta", "shared.core"), ("alpha", "beta", "core"), ("a.b.alpha", "a.b.beta", "a.rt.core")]


def corrupt_core(cd: Path, rng, rt: list[tuple[str, str, str]]) -> list[str]:
    """truncate one runtime module, append to another, delete a third (what an older release, a local edit or an
    interrupted run leave behind)"""
    files = [cd.joinpath(*d.split("/")[1:]) for _, _, d in rt]
    a, b, c = rng.sample(files, 3)
    a.write_text(a.read_text()[: max(1, len(a.read_text()) // 3)])
    b.write_text(b.read_text() + "\n# local edit\nSTALE = True\n")
    c.unlink()
    return [f"truncated {a.name}", f"edited {b.name}", f"deleted {c.name}"]


def run_history(chk: Check, lay: tuple[str, str, str], scratch: Path, idx: int) -> list[dict]:
    """client A, damage the shared core, client B, damage, regenerate A with force, damage, regenerate A without force.
    After every generation that returns without error every runtime module must be byte-identical to the shipped one."""
    pkg_a, pkg_b, core = lay
    root = scratch / f"hist{idx}"
    root.mkdir()
    rt = tables_C12.runtime_files()
    cd = root.joinpath(*core.split("."))
    steps: list[str] = []
    out: list[dict] = []

    def gen(label: str, pkg: str, force: bool) -> None:
        g = pipeline.generate(spec_minimal() if pkg == pkg_a else spec_errors(), package=pkg, core_package=core,
                              force=force, root=root)
        steps.append(f"{label}: generate {pkg} core={core} force={force} -> {'ok' if g.ok else 'error ' + str(g.error)[:80]}")
        if not g.ok:
            return          # the property speaks about generations that return without error
        bad = {}
        for module, fn, dst in rt:
            emitted = cd.joinpath(*dst.split("/")[1:])
            shipped = tables_C12.runtime_source(module, fn)
            if not emitted.is_file():
                bad[dst] = "missing"
            elif sha(emitted) != sha(shipped):
                bad[dst] = "differs from the shipped file"
        out.append({"input": {"k": "history", "layout": list(lay), "steps": list(steps)}, "obs": bad,
                    "oracle_fail": [f"after [{'; '.join(steps)}] core runtime file {d}: {w}" for d, w in sorted(bad.items())][:3]})

    gen("1", pkg_a, True)
    if cd.is_dir():
        steps.append("damage: " + ", ".join(corrupt_core(cd, chk.rng, rt)))
        gen("2", pkg_b, True)
        steps.append("damage: " + ", ".join(corrupt_core(cd, chk.rng, rt)) if all(cd.joinpath(*d.split("/")[1:]).is_file() for _, _, d in rt) else "damage: skipped")
        gen("3", pkg_a, True)
        if all(cd.joinpath(*d.split("/")[1:]).is_file() for _, _, d in rt):
            steps.append("damage: " + ", ".join(corrupt_core(cd, chk.rng, rt)))
        gen("4", pkg_a, False)
    shutil.rmtree(root, ignore_errors=True)
    return out


def main(chk: Check, replay: dict | None = None) -> int:
    if replay is not None:
        inp = replay["input"]
        if inp.get("k") == "layout":
            r = run_layout(inp["spec"], SPECS[inp["spec"]]() if inp["spec"] in SPECS else inp["spec_doc"],
                           inp["package"], inp["core_package"])
            fails = [f for st in r.get("stmts", []) if "level" in st
                     for f in [oracle_stmt(r["pkg"], r["core"], st)] if f and "'black'" not in f]
            fails += [f"{m}: {v}" for m, v in r.get("import", {}).items() if v != "ok"]
            print(json.dumps({"fails": fails}, indent=1))
            if fails:
                print(f"VIOLATION property=C12 replay=(replayed) : {fails[:3]}")
                return 1
            return 0
        print("replay of this case kind is not supported; rerun ./check C12")
        return 0

    chk.prove()
    scratch = Path(tempfile.mkdtemp(prefix="c12_", dir=BUILD))
    try:
        cases: list[dict] = []
        # ---- 1. relative-path functions and CPython's rule
        cases += rel_cases(chk, 4000 if chk.thorough else 800, scratch)
        cases += add_import_cases(chk, 600 if chk.thorough else 150, scratch)
        n_rel = len(cases)

        # ---- 2. real packages
        layouts = LAYOUTS_QUICK + (LAYOUTS_MORE if chk.thorough else [])
        jobs = [(n, f(), p, c) for n, f in SPECS.items() for (p, c) in layouts]
        if not chk.thorough:  # quick: every spec on three layouts, the kitchen sink on all
            jobs = [j for j in jobs if j[0] == "kitchen_sink" or (j[2], j[3]) in (LAYOUTS_QUICK[1], LAYOUTS_QUICK[2], LAYOUTS_QUICK[3])]
        for c in load_corpus("C12"):
            i = c["input"]
            if i.get("k") == "layout":
                jobs.insert(0, (i["spec"], SPECS[i["spec"]](), i["package"], i["core_package"]))
        # generation is sequential (pipeline.generate redirects sys.stdout, which is process-global);
        # the subprocess imports and the scans run in parallel
        gens = [pipeline.generate(j[1], package=j[2], core_package=j[3]) for j in jobs]
        with ThreadPoolExecutor(max_workers=8) as ex:
            results = list(ex.map(lambda jg: run_layout(*jg[0], g=jg[1]), zip(jobs, gens)))

        seen_stmt: dict[str, dict] = {}
        dist = {"layouts": len(results), "files": 0, "statements": 0, "relative": 0, "nested_or_tc": 0,
                "modules_imported": 0}
        for r in results:
            inp = {"k": "layout", "spec": r["spec"], "package": r["package"], "core_package": r["core_package"]}
            if not r["ok"]:
                chk.violation({"input": inp, "obs": r["error"]}, f"generation failed for a curated spec: {r['error']}")
                continue
            for f, e in r["compile"].items():
                chk.violation({"input": inp, "obs": e}, f"emitted file does not compile: {f}: {e}")
            bad = {m: v for m, v in r["import"].items() if v != "ok"}
            dist["modules_imported"] += len(r["import"])
            if bad:
                chk.violation({"input": inp, "obs": bad},
                              "package does not import with the generator blocked: " + "; ".join(f"{m}: {v}" for m, v in sorted(bad.items())[:3]))
            for dst, h in r["sha"].items():
                if h["emitted"] != h["shipped"]:
                    chk.violation({"input": inp, "obs": {dst: h}}, f"core runtime file {dst} is not byte-identical to the shipped file")
            expected_core = sorted({d.split("/", 1)[1] for _, _, d in tables_C12.runtime_files()}
                                   | {"__init__.py", "auth/__init__.py", "config.py", "exception_aliases.py"})
            if r["core_files"] != expected_core:
                chk.broken.append({"kind": "correspondence", "name": "core module set (Model.generated_core_modules)",
                                   "first": {"input": inp, "obs": r["core_files"]}})
            files = set()
            for st in r["stmts"]:
                if "syntax_error" in st:
                    continue
                files.add(st["file"])
                dist["statements"] += 1
                dist["relative"] += st["level"] > 0
                dist["nested_or_tc"] += st["loc"] > 0
                fail = oracle_stmt(r["pkg"], r["core"], st)
                key = json.dumps([r["pkg"], r["core"], st["cur"], st["is_pkg"], st["level"], st["parts"], st["loc"]])
                if key not in seen_stmt:
                    seen_stmt[key] = {"input": {"k": "stmt", "pkg": r["pkg"], "core": r["core"], "cur": st["cur"],
                                                "is_pkg": st["is_pkg"], "level": st["level"], "parts": st["parts"],
                                                "loc": st["loc"], "from": inp},
                                      "obs": fail is None, "oracle_fail": [fail] if fail else []}
            dist["files"] += len(files)
            for dst, rows in r["core_rt"].items():
                cases.append({"input": {"k": "core", "file": dst[:-3].split("/")[1:], "layout": [r["package"], r["core_package"]]},
                              "obs": rows or [], "oracle_fail": []})
        stmt_cases = list(seen_stmt.values())
        cases += stmt_cases

        # ---- 2b. the translator's "Unreachable" verdicts (static import closure) against what the generations above loaded
        live = tables_C12.reachable_files()
        src = tables_C12._src().resolve()
        loaded_dead = sorted(
            name for name, mod in list(sys.modules.items())
            if name.startswith("pyopenapi_gen.") and getattr(mod, "__file__", None)
            and Path(mod.__file__).resolve().is_relative_to(src) and Path(mod.__file__).resolve() not in live)
        dist["unreachable_modules_loaded"] = loaded_dead
        if loaded_dead:
            chk.broken.append({"kind": "correspondence", "name": "tables_C12.reachable_files (static import closure)",
                               "first": {"input": "modules classified unreachable but loaded during generation", "obs": loaded_dead}})

        # ---- 3. histories over a pre-existing (stale / damaged) shared core
        hist = []
        for i, lay in enumerate(HISTORY_LAYOUTS if chk.thorough else HISTORY_LAYOUTS[:2]):
            hist += run_history(chk, lay, scratch, i)
        for h in hist:
            if h["oracle_fail"]:
                chk.violation(h, h["oracle_fail"][0])
        dist["history_generations_checked"] = len(hist)

        chk.cov["evaluations"] = len(cases)
        chk.cov["distinct_nontrivial"] = (
            len({json.dumps(c["input"], sort_keys=True) for c in cases[:n_rel]})
            + sum(1 for c in stmt_cases if c["input"]["level"] > 0 or c["input"]["parts"][0] not in STDLIB))
        dist.update({"relative_function_cases": n_rel, "distinct_statements": len(stmt_cases),
                     "oracle_failures": sum(1 for c in cases if c["oracle_fail"]),
                     "kinds": {k: sum(1 for c in cases if c["input"]["k"] == k) for k in ("calc", "mri", "res", "add", "stmt", "core")},
                     "calc_none": sum(1 for c in cases if c["input"]["k"] == "calc" and c["obs"] is None),
                     "calc_tdir": sum(1 for c in cases if c["input"]["k"] == "calc" and c["input"]["tdir"]),
                     "resolve_errors": sum(1 for c in cases if c["input"]["k"] == "res" and c["obs"] is None)})
        chk.cov["input_distribution"] = dist
        for c in cases[:2] + stmt_cases[:1] + stmt_cases[-1:]:
            chk.sample({"input": c["input"], "obs": c["obs"]})
        codes = None
        if chk.model_ok:
            codes = chk.coq_eval("From PG Require Import Lib.Strs Model.CoreImports Corr.C12.", "cin * cobs",
                                 [c_case(c) for c in cases], "run")
        chk.decide(cases, codes, {1: "F12a"},
                   "Corr.C12.run: calc_relative/make_relative_import/resolve_name/allowed_at/runtime_imports = implementation")
        return chk.finish(
            TRUSTED,
            rule="curated specs forcing every template (wrappers typed/untyped, discriminator mapping, multipart, overloads, "
                 "SSE/NDJSON/bytes streaming, mocks, enums, dates, error aliases) x core layouts; one case per distinct import "
                 "statement (package, core, file, level, module, location); random related module paths for the relative-path "
                 "functions; non-trivial = relative or non-stdlib statement, or any relative-path case; distinct by JSON",
            explanation="PARTIAL: finite-table theorems over translator inventories + for-all theorems for the relative-path "
                        "computation and the verbatim copy; absence of foreign imports in ALL outputs rests on inventory "
                        "completeness (see trusted base).")
    finally:
        shutil.rmtree(scratch, ignore_errors=True)
