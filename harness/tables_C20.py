"""Translator plug-in for C20: literal tables used by NameSanitizer / EnumGenerator, read with `ast` (fail-closed).

Emits coq/Gen/T_C20.v:
  reserved_names      NameSanitizer.RESERVED_NAMES (sorted; membership is all the code uses)
  s_unnamed_class     the fallback literal of sanitize_class_name
  s_unnamed           the empty-name fallback literal of sanitize_method_name / _module_name / _tag_attr_name
  s_client            the suffix literal of sanitize_tag_class_name
  s_member_*, s_value_*  the literals of the enum member naming functions
"""
from __future__ import annotations

import ast

from tables import TranslatorError, _find_class, _find_func, _parse, cstr

OUT_NAME = "T_C20.v"


def _str_consts(fn: ast.AST) -> list[str]:
    out = []
    for n in ast.walk(fn):
        if isinstance(n, ast.Constant) and isinstance(n.value, str):
            out.append(n.value)
    return out


def render() -> str:
    mod = _parse("core/utils.py")
    ns = _find_class(mod, "NameSanitizer")
    reserved = None
    for n in ns.body:
        if isinstance(n, ast.Assign) and any(isinstance(t, ast.Name) and t.id == "RESERVED_NAMES" for t in n.targets):
            reserved = n.value
    if not isinstance(reserved, ast.Set):
        raise TranslatorError("NameSanitizer.RESERVED_NAMES is not a set literal")
    names = []
    for e in reserved.elts:
        if not (isinstance(e, ast.Constant) and isinstance(e.value, str)):
            raise TranslatorError("RESERVED_NAMES has a non-string element")
        names.append(e.value)
    names = sorted(set(names))
    if not names:
        raise TranslatorError("RESERVED_NAMES is empty")

    cls_fn = _find_func(ns, "sanitize_class_name")
    # `if not cls_name: cls_name = "<fallback>"`
    unnamed = [n.body[0].value.value for n in ast.walk(cls_fn)
               if isinstance(n, ast.If) and isinstance(n.test, ast.UnaryOp) and isinstance(n.test.op, ast.Not)
               and isinstance(n.test.operand, ast.Name) and n.test.operand.id == "cls_name"
               and len(n.body) == 1 and isinstance(n.body[0], ast.Assign)
               and isinstance(n.body[0].value, ast.Constant) and isinstance(n.body[0].value.value, str)]
    if len(unnamed) != 1:
        raise TranslatorError(f"sanitize_class_name: expected one fallback class-name literal, found {unnamed}")
    # `cls_name in ("Protocol", "Union")`: class names suffixed as they are (case-sensitive); absent before F01k
    exact: list[str] = []
    for n in ast.walk(cls_fn):
        if (isinstance(n, ast.Compare) and isinstance(n.left, ast.Name) and n.left.id == "cls_name"
                and len(n.ops) == 1 and isinstance(n.ops[0], ast.In) and isinstance(n.comparators[0], (ast.Tuple, ast.List, ast.Set))):
            elts = n.comparators[0].elts
            if not all(isinstance(e, ast.Constant) and isinstance(e.value, str) for e in elts):
                raise TranslatorError("sanitize_class_name: non-literal element in the exact-name tuple")
            exact += [e.value for e in elts]
    other_str = [c for c in _str_consts(cls_fn) if c.isidentifier() and c[:1].isupper() and c not in unnamed + exact]
    if other_str:
        raise TranslatorError(f"sanitize_class_name: class-name literal(s) without a model: {other_str}")
    tag_fn = _find_func(ns, "sanitize_tag_class_name")
    ret = [n for n in ast.walk(tag_fn) if isinstance(n, ast.Return)]
    if not (len(ret) == 1 and isinstance(ret[0].value, ast.BinOp) and isinstance(ret[0].value.op, ast.Add)
            and isinstance(ret[0].value.right, ast.Constant) and isinstance(ret[0].value.right.value, str)):
        raise TranslatorError("sanitize_tag_class_name: return is not `<expr> + <literal>`")
    client = ret[0].value.right.value

    # the empty-name fallback of the snake-case sanitisers (`if not name: name = "<lit>"` / `<expr> or "<lit>"`)
    def empty_fallback(fn_name: str) -> str:
        fn = _find_func(ns, fn_name)
        lits = []
        for n in ast.walk(fn):
            if (isinstance(n, ast.If) and isinstance(n.test, ast.UnaryOp) and isinstance(n.test.op, ast.Not)
                    and len(n.body) == 1 and isinstance(n.body[0], ast.Assign)
                    and isinstance(n.body[0].value, ast.Constant) and isinstance(n.body[0].value.value, str)):
                lits.append(n.body[0].value.value)
            if (isinstance(n, ast.BoolOp) and isinstance(n.op, ast.Or) and len(n.values) == 2
                    and isinstance(n.values[1], ast.Constant) and isinstance(n.values[1].value, str)):
                lits.append(n.values[1].value)
        if len(lits) != 1:
            raise TranslatorError(f"{fn_name}: expected exactly one empty-name fallback literal, found {lits}")
        return lits[0]

    fallbacks = {f: empty_fallback(f) for f in ("sanitize_method_name", "sanitize_module_name", "sanitize_tag_attr_name")}
    if len(set(fallbacks.values())) != 1:
        raise TranslatorError(f"empty-name fallbacks differ between the snake-case sanitisers: {fallbacks}")
    snake_fallback = fallbacks["sanitize_method_name"]

    # IRSchema.__post_init__: does it keep a name that already is sanitiser output (re.fullmatch on the output shape)?
    irmod = _parse("ir.py")
    post = _find_func(_find_class(irmod, "IRSchema"), "__post_init__")
    calls = [n for n in ast.walk(post) if isinstance(n, ast.Call) and isinstance(n.func, ast.Attribute)
             and n.func.attr == "sanitize_class_name"]
    if len(calls) != 1:
        raise TranslatorError(f"IRSchema.__post_init__: expected one sanitize_class_name call, found {len(calls)}")
    shapes = [n.args[0].value for n in ast.walk(post) if isinstance(n, ast.Call) and isinstance(n.func, ast.Attribute)
              and n.func.attr == "fullmatch" and n.args and isinstance(n.args[0], ast.Constant)]
    if shapes not in ([], [r"_?(?:[A-Z][a-z]*|[0-9]+)+_?"]):
        raise TranslatorError(f"IRSchema.__post_init__: unexpected name-shape pattern(s) {shapes}")
    keeps_output = bool(shapes)

    emod = _parse("visit/model/enum_generator.py")
    eg = _find_class(emod, "EnumGenerator")
    sfn = _find_func(eg, "_generate_member_name_for_string_enum")
    ifn = _find_func(eg, "_generate_member_name_for_integer_enum")

    def fstr_prefixes(fn: ast.AST) -> list[str]:
        out = []
        for n in ast.walk(fn):
            if isinstance(n, ast.JoinedStr) and n.values and isinstance(n.values[0], ast.Constant) \
                    and isinstance(n.values[0].value, str) and len(n.values) == 2:
                out.append(n.values[0].value)
        return out

    s_pref = sorted(set(p for p in fstr_prefixes(sfn) if p.isupper() or "_" in p and p.upper() == p))
    i_pref = sorted(set(p for p in fstr_prefixes(ifn) if p.upper() == p and not p.startswith("Generated")))
    if s_pref != ["MEMBER_"]:
        raise TranslatorError(f"string enum member prefixes changed: {s_pref}")
    if i_pref != ["ENUM_MEMBER_", "ENUM_MEMBER_UNKNOWN_", "VALUE_", "VALUE_NEG_"]:
        raise TranslatorError(f"integer enum member prefixes changed: {i_pref}")
    empties = [s for s in _str_consts(sfn) if s.startswith("MEMBER_") and len(s) > len("MEMBER_")]
    if empties != ["MEMBER_EMPTY_STRING"]:
        raise TranslatorError(f"string enum empty-name literal changed: {empties}")
    dot = [s for s in _str_consts(ifn) if "DOT" in s]
    if dot != ["_DOT_"]:
        raise TranslatorError(f"integer enum '.' replacement literal changed: {dot}")

    lines = [
        "(* GENERATED by harness/tables_C20.py from src/pyopenapi_gen/core/utils.py and",
        "   visit/model/enum_generator.py — do not edit *)",
        "From Coq Require Import List NArith.", "Import ListNotations.", "Open Scope N_scope.", "",
        "Definition reserved_names : list (list N) := [" + "; ".join(cstr(k) for k in names) + "].",
        f"Definition s_unnamed_class : list N := {cstr(unnamed[0])}.",
        "Definition class_exact_names : list (list N) := [" + "; ".join(cstr(k) for k in exact) + "].",
        f"Definition s_client : list N := {cstr(client)}.",
        f"Definition s_unnamed : list N := {cstr(snake_fallback)}.",
        f"Definition post_init_keeps_output : bool := {'true' if keeps_output else 'false'}.",
        f"Definition s_member_ : list N := {cstr('MEMBER_')}.",
        f"Definition s_member_empty : list N := {cstr('MEMBER_EMPTY_STRING')}.",
        f"Definition s_value_ : list N := {cstr('VALUE_')}.",
        f"Definition s_value_neg_ : list N := {cstr('VALUE_NEG_')}.",
        f"Definition s_enum_member_ : list N := {cstr('ENUM_MEMBER_')}.",
        f"Definition s_enum_member_unknown_ : list N := {cstr('ENUM_MEMBER_UNKNOWN_')}.",
        f"Definition s_dot_ : list N := {cstr('_DOT_')}.",
        "",
    ]
    return "\n".join(lines)
