"""Shared pipeline helper: OpenAPI document (dict) -> real generator -> package on disk ->
import / drive it in a *fresh* subprocess under httpx.MockTransport -> JSON observables.

All scratch lives under build/pipeline/<token>/ inside this /verif tree and is removed by
`Generated.cleanup()` (or the context manager).  /repo is never written.
"""
from __future__ import annotations

import contextlib
import io
import json
import os
import shutil
import subprocess
import sys
import tempfile
import textwrap
from dataclasses import dataclass, field
from pathlib import Path
from typing import Any

from framework import BUILD, PY, repo_env

SCRATCH = BUILD / "pipeline"


def base_spec(paths: dict | None = None, schemas: dict | None = None, title: str = "T") -> dict:
    """A minimal valid document.  NOTE: a document without any operation generates a broken
    mock_client.py (finding F01e), so callers normally supply at least one path."""
    d: dict[str, Any] = {"openapi": "3.0.3", "info": {"title": title, "version": "1.0"},
                         "paths": paths if paths is not None else
                         {"/ping": {"get": {"operationId": "ping", "responses": {"204": {"description": "ok"}}}}}}
    if schemas is not None:
        d["components"] = {"schemas": schemas}
    return d


@dataclass
class Generated:
    root: Path                      # project root (on sys.path of the driver subprocess)
    package: str                    # dotted output package
    core_package: str | None
    ok: bool
    error: str | None = None        # repr of the exception raised by generate_client
    files: list[str] = field(default_factory=list)  # relative paths of every file under root
    log: str = ""                   # captured stdout/stderr/logging of the generator

    @property
    def pkg_dir(self) -> Path:
        return self.root / self.package.replace(".", "/")

    def read(self, rel: str) -> str:
        return (self.root / rel).read_text()

    def py_files(self) -> list[Path]:
        return sorted(p for p in self.root.rglob("*.py"))

    def cleanup(self) -> None:
        shutil.rmtree(self.root, ignore_errors=True)

    def __enter__(self) -> "Generated":
        return self

    def __exit__(self, *a: Any) -> None:
        self.cleanup()


def generate(spec: dict | str, *, package: str = "client", core_package: str | None = None, force: bool = True,
             root: Path | None = None, as_yaml: bool = False, raw_text: str | None = None,
             naming_strategy: str | None = None, in_process: bool = True, hashseed: str = "0") -> Generated:
    """Run the real generator.  `spec` is a dict (dumped as JSON, or YAML when as_yaml) or raw text via raw_text.
    in_process=True calls generate_client in this interpreter (fast, ~0.1-0.3 s); False uses a fresh
    subprocess with the given PYTHONHASHSEED (needed for determinism experiments)."""
    SCRATCH.mkdir(parents=True, exist_ok=True)
    if root is None:
        root = Path(tempfile.mkdtemp(prefix="g_", dir=SCRATCH))
    spec_dir = Path(tempfile.mkdtemp(prefix="spec_", dir=SCRATCH))
    try:
        if raw_text is not None:
            spec_path = spec_dir / ("spec.yaml" if as_yaml else "spec.json")
            spec_path.write_text(raw_text)
        elif as_yaml:
            import yaml
            spec_path = spec_dir / "spec.yaml"
            spec_path.write_text(yaml.safe_dump(spec, sort_keys=False))
        else:
            spec_path = spec_dir / "spec.json"
            spec_path.write_text(json.dumps(spec))
        g = Generated(root=root, package=package, core_package=core_package, ok=False)
        if in_process:
            from pyopenapi_gen import generate_client
            from pyopenapi_gen.ir import NamingStrategy
            kw: dict[str, Any] = {}
            if naming_strategy is not None:
                kw["naming_strategy"] = NamingStrategy(naming_strategy)
            buf = io.StringIO()
            import logging
            h = logging.StreamHandler(buf)
            logging.getLogger().addHandler(h)
            try:
                with contextlib.redirect_stdout(buf), contextlib.redirect_stderr(buf):
                    import warnings
                    with warnings.catch_warnings(record=True) as w:
                        warnings.simplefilter("always")
                        generate_client(str(spec_path), str(root), package, core_package=core_package, force=force,
                                        no_postprocess=True, verbose=False, **kw)
                    for x in w:
                        buf.write(f"WARNING: {x.message}\n")
                g.ok = True
            except BaseException as e:  # noqa: BLE001  (RecursionError, SystemExit … are observations too)
                if isinstance(e, KeyboardInterrupt):
                    raise
                g.error = f"{type(e).__name__}: {e}"[:2000]
            finally:
                logging.getLogger().removeHandler(h)
            g.log = buf.getvalue()
        else:
            code = textwrap.dedent(f"""
                import sys, json
                from pyopenapi_gen import generate_client
                from pyopenapi_gen.ir import NamingStrategy
                kw = {{}}
                ns = {naming_strategy!r}
                if ns is not None: kw['naming_strategy'] = NamingStrategy(ns)
                try:
                    generate_client({str(spec_path)!r}, {str(root)!r}, {package!r}, core_package={core_package!r},
                                    force={force!r}, no_postprocess=True, verbose=False, **kw)
                    print('@@OK')
                except BaseException as e:
                    print('@@ERR ' + type(e).__name__ + ': ' + str(e)[:1500].replace('\\n', ' '))
            """)
            p = subprocess.run([PY, "-c", code], env=repo_env(hashseed), capture_output=True, text=True, timeout=300)
            g.log = p.stdout + p.stderr
            g.ok = "@@OK" in p.stdout
            if not g.ok:
                m = [l for l in p.stdout.splitlines() if l.startswith("@@ERR")]
                g.error = m[0][6:] if m else f"exit {p.returncode}: {p.stderr[-500:]}"
        g.files = sorted(str(p.relative_to(root)) for p in root.rglob("*") if p.is_file() and "__pycache__" not in p.parts)
        return g
    finally:
        shutil.rmtree(spec_dir, ignore_errors=True)


def drive(g: Generated, script: str, arg: Any = None, timeout: int = 120, block_generator: bool = True) -> dict:
    """Run `script` (Python source; it must define `def main(arg): -> json-able`) in a FRESH interpreter whose
    sys.path has only g.root + site-packages; with block_generator the import of `pyopenapi_gen` is made to fail,
    so the package is exercised as a user without the generator installed would.  Returns
    {"ok": True, "result": …} or {"ok": False, "error": "Type: message", "traceback": …}."""
    prelude = textwrap.dedent("""
        import sys, json, traceback
        class _Block:
            def find_spec(self, name, path=None, target=None):
                if name == 'pyopenapi_gen' or name.startswith('pyopenapi_gen.'):
                    raise ModuleNotFoundError("pyopenapi_gen is not installed in this interpreter (verif blocker)")
                return None
        if %r:
            sys.meta_path.insert(0, _Block())
        sys.path.insert(0, %r)
    """) % (block_generator, str(g.root))
    epilogue = textwrap.dedent("""
        if __name__ == '__main__':
            _arg = json.loads(sys.stdin.read() or 'null')
            try:
                _r = {'ok': True, 'result': main(_arg)}
            except BaseException as e:
                _r = {'ok': False, 'error': type(e).__name__ + ': ' + str(e)[:1500], 'traceback': traceback.format_exc()[-3000:]}
            sys.stdout.write('\\n@@RESULT ' + json.dumps(_r, default=repr) + '\\n')
    """)
    env = dict(os.environ)
    env.pop("PYTHONPATH", None)
    env["PYTHONHASHSEED"] = "0"
    env["PYTHONDONTWRITEBYTECODE"] = "1"
    try:
        p = subprocess.run([PY, "-c", prelude + script + epilogue], input=json.dumps(arg), env=env,
                           capture_output=True, text=True, timeout=timeout, cwd=str(g.root))
    except subprocess.TimeoutExpired:
        return {"ok": False, "error": "Timeout", "traceback": ""}
    for line in reversed(p.stdout.splitlines()):
        if line.startswith("@@RESULT "):
            return json.loads(line[9:])
    return {"ok": False, "error": f"driver died rc={p.returncode}", "traceback": (p.stdout + p.stderr)[-3000:]}


IMPORT_ALL = """
import importlib, pkgutil
def main(arg):
    pkgs = arg['packages']
    out = {}
    for top in pkgs:
        try:
            m = importlib.import_module(top)
        except BaseException as e:
            out[top] = type(e).__name__ + ': ' + str(e)[:300]
            continue
        out[top] = 'ok'
        if hasattr(m, '__path__'):
            for mi in pkgutil.walk_packages(m.__path__, top + '.'):
                try:
                    importlib.import_module(mi.name)
                    out[mi.name] = 'ok'
                except BaseException as e:
                    out[mi.name] = type(e).__name__ + ': ' + str(e)[:300]
    return out
"""


def import_all(g: Generated) -> dict:
    """import every module of the generated package (and the core package if separate) in a fresh interpreter"""
    pk = [g.package] + ([g.core_package] if g.core_package and not g.core_package.startswith(g.package + ".") else [])
    return drive(g, IMPORT_ALL, {"packages": pk})


def compile_all(g: Generated) -> dict[str, str]:
    """compile() every emitted .py file; returns {relative path: error} for failures"""
    bad = {}
    for p in g.py_files():
        try:
            compile(p.read_text(), str(p), "exec")
        except SyntaxError as e:
            bad[str(p.relative_to(g.root))] = f"{type(e).__name__}: {e}"
    return bad


def cleanup_all() -> None:
    shutil.rmtree(SCRATCH, ignore_errors=True)
