"""C16 — bundled converter obeys round-trip laws for any mapped dataclass; serialiser terminates on cycles.

Cases are JSON (replayable):
  converter case  {"kind": "conv", "classes": [cls...], "plan": [step...]}
  serialiser case {"kind": "ser", "heap": [obj...], "root": n, "typed": bool}
Tagged values (JSON documents and Python instances alike):
  ["n"] None  ["b",x] bool  ["i",n] int  ["f",n] float(n)  ["s",str]  ["l",[..]]  ["m",[[k,v]..]] dict
  ["y",[bytes]]  ["dt",iso] datetime  ["d",iso] date  ["D",cid,[[attr,v]..]] dataclass instance
Types: "str" "int" "float" "bool" "bytes" "datetime" "date" "uuid" "time" "any"
       ["list",t] ["dict",t] ["opt",t] ["data",cid] ["fwd",cid]
"""
from __future__ import annotations

import base64
import dataclasses
import importlib
import json
import os
import sys
import types
import typing
from datetime import date, datetime, time
from typing import Any
from uuid import UUID

from framework import Check, clist, copt, cpair, cstr, load_corpus

TRUSTED = [
    "Coq 8.16.1 kernel + vm_compute (witness theorems and correspondence evaluation)",
    "hand-written Gallina models coq/Model/Converter.v (cattrs_converter.py as it drives cattrs) and "
    "coq/Model/Serializer.v (DataclassSerializer on a heap), tied to the code by this run's cases",
    "section hypotheses of the round-trip proofs: base64 decode(encode b) = b; fromisoformat(x.isoformat()) "
    "re-prints identically and has no 'Z' (validated on every string of every case through the oracle tables)",
    "cattrs 26.x structuring/unstructuring of primitives, lists, dicts, Optional as transcribed in the model",
    "floats: integral values only; int()/float()/str() of foreign JSON given to the model as finite tables from CPython",
]

SCALARS = ["str", "int", "float", "bool", "bytes", "datetime", "date", "any", "uuid", "time"]
STRS = ["", "a", "abc", "5", "-3", "007", "QUJD", "AB", "2020-01-02", "2020-01-02T03:04:05",
        "2020-01-02T03:04:05Z", "2020-01-02T03:04:05+00:00", "2021-12-31T23:59:59.123456+02:00",
        "Zed", "None", "x_y", "xY", "id", "é", "1e3", "true", "12345678123456781234567812345678", "10:20",
        "12345678-1234-5678-1234-567812345678", "10:20:30"]
UUIDS = ["12345678-1234-5678-1234-567812345678", "00000000-0000-0000-0000-000000000000", "abcdef01-2345-6789-abcd-ef0123456789"]
TIMES = ["10:20:30", "23:59:59.123456", "00:00:00"]
DTS = ["2020-01-02T03:04:05", "2020-01-02T03:04:05+00:00", "2021-12-31T23:59:59.123456+02:00", "1999-01-01T00:00:00"]
DATES = ["2020-01-02", "1999-12-31"]
BYTES = [b"", b"A", b"AB", b"ABC", b"\x00\xff\x10", b"hello world", b"\xfb\xff", b"\xff\xef\xbe"]
PYNAMES = ["id_", "class_", "type_", "user_id", "userid", "name", "x_y", "value", "items_", "a", "b", "from_", "data", "n1"]
WIRE = ["id", "class", "type", "userId", "userid", "UserId", "USERID", "user-id", "user_id", "name", "xY", "x_y", "X_Y",
        "from", "a", "A", "b", "items", "", " ", "$ref", "data", "value", "n1"]
DKEYS = ["k", "a", "id", "userId", "x-y", ""]


# ================================================================== generators
def gen_ty(rng, ncls: int, cid: int, depth: int, allow_back: bool) -> Any:
    r = rng.random()
    if depth <= 0 or r < 0.45:
        if ncls > cid + 1 and rng.random() < 0.35:
            return ["data", rng.randrange(cid + 1, ncls)]
        if rng.random() < 0.04:
            return rng.choice(["uuid", "time"])
        return rng.choice(SCALARS)
    if r < 0.62:
        return ["list", gen_ty(rng, ncls, cid, depth - 1, allow_back)]
    if r < 0.74:
        return ["dict", gen_ty(rng, ncls, cid, depth - 1, allow_back)]
    if r < 0.92:
        inner = gen_ty(rng, ncls, cid, depth - 1, allow_back)
        if allow_back and rng.random() < 0.2:
            inner = ["data", rng.randrange(0, cid + 1)]      # self / backward reference (only under Optional or list)
        return inner if isinstance(inner, list) and inner[0] == "opt" else ["opt", inner]
    if allow_back and rng.random() < 0.5:
        return ["list", ["data", rng.randrange(0, cid + 1)]]
    return ["data", rng.randrange(cid + 1, ncls)] if ncls > cid + 1 else rng.choice(SCALARS)


def default_for(rng, t) -> Any:
    """None = required"""
    if isinstance(t, list):
        if t[0] == "opt":
            return ["n"] if rng.random() < 0.8 else None
        if t[0] == "list":
            return ["l", []] if rng.random() < 0.6 else None
        if t[0] == "dict":
            return ["m", []] if rng.random() < 0.6 else None
        return None
    if rng.random() < 0.15:
        return {"str": ["s", "dflt"], "int": ["i", 7], "float": ["f", 2], "bool": ["b", True]}.get(t)
    return None


def gen_classes(rng, malformed_maps: bool = False) -> list[dict]:
    ncls = rng.randint(1, 5)
    out = []
    for cid in range(ncls):
        nf = rng.choice([0, 1, 2, 2, 3, 3, 4, 5])
        names = rng.sample(PYNAMES, nf)
        style = rng.choice(["str", "obj", "obj"])
        fields = []
        for nm in names:
            t = gen_ty(rng, ncls, cid, 3, allow_back=(style == "str"))
            fields.append({"name": nm, "ty": t, "default": default_for(rng, t)})
        fields.sort(key=lambda f: f["default"] is not None)          # dataclass: required first
        mode = rng.random()
        load = dump = None
        if mode < 0.7 or malformed_maps:
            wires = rng.sample(WIRE, nf)
            if rng.random() < 0.3:                                   # partial map: some fields keep their own name
                wires = [w if rng.random() < 0.6 else f["name"] for w, f in zip(wires, fields)]
                if len(set(wires)) != len(wires):
                    wires = [f["name"] for f in fields]
            pairs = list(zip(wires, [f["name"] for f in fields]))
            pairs = [p for p in pairs if p[0] != p[1] or rng.random() < 0.5]
            rng.shuffle(pairs)
            load = [[w, p] for w, p in pairs]
            dump = [[p, w] for w, p in pairs]
            rng.shuffle(dump)
            if malformed_maps and pairs:
                k = rng.random()
                if k < 0.3:
                    load = None                                       # only a dump map
                elif k < 0.6:
                    dump = None
                elif k < 0.8 and len(pairs) >= 2:
                    load[0][1] = load[1][1]                           # two wire keys for one field
                else:
                    dump[0][1] = rng.choice(WIRE)                     # dump is not the inverse of load
        out.append({"id": cid, "fields": fields, "load": load, "dump": dump, "style": style})
    return out


def wire_of(c: dict, name: str) -> str:
    """wire key by the *documented* meaning of Meta (used by generators and the oracle, not the model)"""
    for w, p in (c["load"] or []):
        if p == name:
            return w
    return name


def bijective(c: dict) -> bool:
    names = [f["name"] for f in c["fields"]]
    if c["load"] is None and c["dump"] is None:
        return True
    if c["load"] is None or c["dump"] is None:
        return False
    l = {(w, p) for w, p in c["load"]}
    d = {(w, p) for p, w in c["dump"]}
    if l != d or len({w for w, _ in l}) != len(l) or len({p for _, p in l}) != len(l):
        return False
    wires = [wire_of(c, n) for n in names]
    return len(set(wires)) == len(wires) and all(p in names for _, p in l)


def gen_json(rng, depth=2) -> Any:
    r = rng.random()
    if depth <= 0 or r < 0.6:
        k = rng.randrange(5)
        return [["n"], ["b", rng.random() < 0.5], ["i", rng.randint(-3, 9)], ["f", rng.randint(-2, 4)], ["s", rng.choice(STRS)]][k]
    if r < 0.8:
        return ["l", [gen_json(rng, depth - 1) for _ in range(rng.randint(0, 3))]]
    ks = rng.sample(DKEYS, rng.randint(0, 3))
    return ["m", [[k, gen_json(rng, depth - 1)] for k in ks]]


def gen_doc(rng, classes, t, depth=4, nonnull=False) -> Any:
    """a JSON document conforming to annotation t (canonical leaf texts)"""
    if isinstance(t, str):
        if t == "str":
            return ["s", rng.choice(STRS)]
        if t == "int":
            return ["i", rng.randint(-5, 1000)]
        if t == "float":
            # a document written by hand / by another producer: a whole number need not carry a fraction ("ratio": 2)
            return ["f", rng.randint(-5, 50)] if rng.random() < 0.6 else ["i", rng.randint(-5, 50)]
        if t == "bool":
            return ["b", rng.random() < 0.5]
        if t == "bytes":
            return ["s", base64.b64encode(rng.choice(BYTES)).decode()]
        if t == "datetime":
            return ["s", rng.choice(DTS)]
        if t == "date":
            return ["s", rng.choice(DATES)]
        if t == "uuid":
            return ["s", rng.choice(UUIDS)]
        if t == "time":
            return ["s", rng.choice(TIMES)]
        j = gen_json(rng, 2)
        while nonnull and j == ["n"]:
            j = gen_json(rng, 2)
        return j
    k = t[0]
    if k == "list":
        return ["l", [gen_doc(rng, classes, t[1], depth - 1) for _ in range(rng.randint(0, 2 if depth > 1 else 0))]]
    if k == "dict":
        ks = rng.sample(DKEYS, rng.randint(0, 2 if depth > 1 else 0))
        return ["m", [[kk, gen_doc(rng, classes, t[1], depth - 1)] for kk in ks]]
    if k == "opt":
        if depth <= 0 or rng.random() < 0.3:
            return ["n"]
        return gen_doc(rng, classes, t[1], depth, nonnull=True)
    c = classes[t[1]]
    kvs = []
    for f in c["fields"]:
        if f["default"] is not None and (depth <= 1 or rng.random() < 0.4):
            continue
        kvs.append([wire_of(c, f["name"]), gen_doc(rng, classes, f["ty"], depth - 1)])
    rng.shuffle(kvs)
    return ["m", kvs]


def gen_val(rng, classes, t, depth=4, nonnull=False) -> Any:
    """a Python instance conforming to annotation t"""
    if isinstance(t, str):
        if t == "bytes":
            return ["y", list(rng.choice(BYTES))]
        if t == "datetime":
            return ["dt", rng.choice(DTS)]
        if t == "date":
            return ["d", rng.choice(DATES)]
        if t == "uuid":
            return ["u", rng.choice(UUIDS)]
        if t == "time":
            return ["t", rng.choice(TIMES)]
        if t == "float":
            return ["f", rng.randint(-5, 50)]
        return gen_doc(rng, classes, t, depth, nonnull)
    k = t[0]
    if k == "list":
        return ["l", [gen_val(rng, classes, t[1], depth - 1) for _ in range(rng.randint(0, 2 if depth > 1 else 0))]]
    if k == "dict":
        ks = rng.sample(DKEYS, rng.randint(0, 2 if depth > 1 else 0))
        return ["m", [[kk, gen_val(rng, classes, t[1], depth - 1)] for kk in ks]]
    if k == "opt":
        if depth <= 0 or rng.random() < 0.3:
            return ["n"]
        return gen_val(rng, classes, t[1], depth, nonnull=True)
    c = classes[t[1]]
    return ["D", c["id"], [[f["name"], gen_val(rng, classes, f["ty"], depth - 1)] for f in c["fields"]]]


def finite(classes, t, depth=6) -> bool:
    """can a conforming document of bounded depth exist (no required chain that never ends)?"""
    if isinstance(t, str) or t[0] in ("list", "dict", "opt"):
        return True
    if depth == 0:
        return False
    return all(f["default"] is not None or finite(classes, f["ty"], depth - 1) for f in classes[t[1]]["fields"])


def supported(classes, t, seen=()) -> bool:
    """annotation uses only types the converter has hooks for, with bijective maps"""
    if isinstance(t, str):
        return True
    if t[0] == "fwd":
        return False
    if t[0] in ("list", "dict", "opt"):
        return supported(classes, t[1], seen)
    if t[1] in seen:
        return True
    c = classes[t[1]]
    return bijective(c) and all(supported(classes, f["ty"], seen + (t[1],)) for f in c["fields"])


def any_leaf(classes, t, leaves, seen=()) -> bool:
    if isinstance(t, str):
        return t in leaves
    if t[0] in ("list", "dict", "opt"):
        return any_leaf(classes, t[1], leaves, seen)
    if t[1] in seen:
        return False
    return any(any_leaf(classes, f["ty"], leaves, seen + (t[1],)) for f in classes[t[1]]["fields"])


def has_opt_data(classes, t, seen=()) -> bool:
    if isinstance(t, str):
        return False
    if t[0] == "opt":
        u = t[1]
        return (isinstance(u, list) and u[0] == "data") or has_opt_data(classes, u, seen)
    if t[0] in ("list", "dict"):
        return has_opt_data(classes, t[1], seen)
    if t[1] in seen:
        return False
    return any(has_opt_data(classes, f["ty"], seen + (t[1],)) for f in classes[t[1]]["fields"])


def lawful(classes, t) -> bool:
    """the round-trip laws are claimed for dataclass roots whose reachable classes use supported leaf types,
    bijective maps and defaults that are None / empty containers (the tolerated reappearance)"""
    if not (isinstance(t, list) and t[0] == "data") or not supported(classes, t):
        return False
    seen, todo = set(), [t[1]]

    def refs(t):
        if isinstance(t, str):
            return []
        return [t[1]] if t[0] in ("data", "fwd") else refs(t[1])
    while todo:
        c = todo.pop()
        if c in seen:
            continue
        seen.add(c)
        for f in classes[c]["fields"]:
            if f["default"] not in (None, ["n"], ["l", []], ["m", []]):
                return False
            todo += refs(f["ty"])
    return True


def mutate_doc(rng, classes, t, doc) -> tuple[Any, str | None]:
    """make a conforming document non-conforming in one place; returns (doc, python name of the innermost
    dataclass field that holds the offence, or None when the offence is not inside a dataclass field)"""
    def bad_value(t):
        pool = [["n"], ["i", 5], ["s", "abc"], ["l", [["i", 1]]], ["m", [["zz", ["i", 1]]]], ["b", True], ["s", "2020-01-02T03:04:05Z"]]
        return rng.choice(pool)

    def go(t, d, field):
        if isinstance(t, list) and t[0] == "data" and d[0] == "m" and classes[t[1]]["fields"] and rng.random() < 0.8:
            c = classes[t[1]]
            f = rng.choice(c["fields"])
            w = wire_of(c, f["name"])
            present = [kv for kv in d[1] if kv[0] == w]
            if not present or rng.random() < 0.3:
                return ["m", [kv for kv in d[1] if kv[0] != w] + ([] if rng.random() < 0.6 else [[w, bad_value(f["ty"])]])], f["name"]
            sub, fld = go(f["ty"], present[0][1], f["name"])
            return ["m", [[k, (sub if k == w else v)] for k, v in d[1]]], fld
        if isinstance(t, list) and t[0] in ("list", "dict") and d[0] in ("l", "m") and d[1] and rng.random() < 0.7:
            i = rng.randrange(len(d[1]))
            if d[0] == "l":
                sub, fld = go(t[1], d[1][i], field)
                return ["l", [sub if k == i else v for k, v in enumerate(d[1])]], fld
            sub, fld = go(t[1], d[1][i][1], field)
            return ["m", [[kk, (sub if k == i else v)] for k, (kk, v) in enumerate(d[1])]], fld
        if isinstance(t, list) and t[0] == "opt" and d != ["n"] and rng.random() < 0.7:
            return go(t[1], d, field)
        return bad_value(t), field
    return go(t, doc, None)


def dedup(v):
    """documents are Python dicts: a repeated key (possible with non-bijective maps) keeps its first position and
    its last value — normalise so that the JSON form, the Python object and the Coq term denote the same document"""
    if v[0] == "l":
        return ["l", [dedup(x) for x in v[1]]]
    if v[0] == "m":
        d: dict = {}
        for k, x in v[1]:
            d[k] = dedup(x)
        return ["m", [[k, x] for k, x in d.items()]]
    if v[0] == "D":
        return ["D", v[1], [[k, dedup(x)] for k, x in v[2]]]
    return v


def gen_late_case(rng) -> dict:
    """class C0 refers to C1 through forward references inside generics; C0 is encoded / decoded once BEFORE C1 exists"""
    def mapped(names):
        wires = rng.sample(WIRE, len(names))
        return [[w, n] for w, n in zip(wires, names)], [[n, w] for w, n in zip(wires, names)]
    n1 = rng.sample(PYNAMES, rng.randint(1, 3))
    l1, d1 = mapped(n1)
    c1 = {"id": 1, "fields": [{"name": n, "ty": rng.choice(["int", "str", "bool", "date"]), "default": None} for n in n1],
          "load": l1, "dump": d1, "style": "obj"}
    refs = rng.sample([("e", ["opt", ["data", 1]], ["n"]), ("es", ["list", ["data", 1]], ["l", []]),
                       ("m", ["dict", ["data", 1]], ["m", []])], rng.randint(1, 3))
    flds = [{"name": "name", "ty": "str", "default": None}] + [{"name": n, "ty": t, "default": d} for n, t, d in refs]
    l0, d0 = mapped([f["name"] for f in flds])
    c0 = {"id": 0, "fields": flds, "load": l0, "dump": d0, "style": "obj"}
    classes = [c0, c1]
    wire_name = [w for w, p in l0 if p == "name"][0]
    empty = ["D", 0, [["name", ["s", "early"]]] + [[n, d] for n, _, d in refs]]
    early = [{"val": empty}, {"ty": ["data", 0], "doc": ["m", [[wire_name, ["s", "early"]]]]}]
    rng.shuffle(early)
    plan = []
    for _ in range(rng.randint(2, 3)):
        if rng.random() < 0.5:
            plan.append({"step": "decode_encode", "ty": ["data", 0], "doc": dedup(gen_doc(rng, classes, ["data", 0])), "conforming": True})
        else:
            plan.append({"step": "encode_decode", "ty": ["data", 0], "val": gen_val(rng, classes, ["data", 0])})
    return {"kind": "conv", "classes": classes, "plan": plan, "late": [1], "early": early}


def gen_conv_case(rng, malformed: bool, with_prehistory: bool = False) -> dict:
    classes = gen_classes(rng, malformed_maps=malformed and rng.random() < 0.5)
    n = len(classes)
    plan = []

    def any_ty():
        r = rng.random()
        t: Any = ["data", rng.randrange(n)]
        if r < 0.15:
            t = ["list", t]
        elif r < 0.25:
            t = ["dict", t]
        elif r < 0.33:
            t = ["opt", t]
        elif r < 0.4:
            t = gen_ty(rng, n, -1, 2, False)
        return t
    for _ in range(rng.randint(1, 4)):
        r = rng.random()
        t = any_ty()
        if not finite(classes, t):
            continue
        if r < 0.45:
            doc = gen_doc(rng, classes, t)
            if malformed and rng.random() < 0.8:
                doc, fld = mutate_doc(rng, classes, t, doc)
                plan.append({"step": "decode", "ty": t, "doc": doc, "conforming": False, "offending": fld})
            else:
                plan.append({"step": "decode_encode", "ty": t, "doc": doc, "conforming": True})
        elif r < 0.8:
            plan.append({"step": "encode_decode", "ty": t, "val": gen_val(rng, classes, t)})
        elif r < 0.9:
            # direct call on the exported converter (no registration): exercises the un-hooked branch of the model.
            # Not for classes with hook-less leaf types: cattrs then fails while *building* the default hooks of
            # un-hooked classes, a path structure_from_dict never takes and the model does not describe.
            # Nor for Optional[dataclass]: the Union hook registers the variant itself (a state change the model
            # does not thread through structure; irrelevant after structure_from_dict's own registration).
            if not has_opt_data(classes, t):
                doc = gen_doc(rng, classes, t)
                plan.append({"step": "raw", "ty": t, "doc": doc})
        else:
            # containers / Any holding dataclass instances at the root (registration is by declared types only)
            vals = [gen_val(rng, classes, ["data", rng.randrange(n)]) for _ in range(rng.randint(1, 2))]
            root = ["l", vals] if rng.random() < 0.5 else ["m", [[f"k{i}", v] for i, v in enumerate(vals)]]
            plan.append({"step": "encode", "val": root})
    if not plan:
        plan.append({"step": "decode_encode", "ty": "int", "doc": ["i", 1], "conforming": True})
    for st in plan:
        for key in ("doc", "val"):
            if key in st:
                st[key] = dedup(st[key])
    case = {"kind": "conv", "classes": classes, "plan": plan}
    if with_prehistory:
        pre = gen_conv_case(rng, malformed=False, with_prehistory=False)
        case["prehistory"] = {"classes": pre["classes"], "plan": pre["plan"]}
    return case


def gen_ser_case(rng, cyclic: bool, lists_only: bool = False, fwd: bool = False) -> dict:
    """heap objects: ["none"] ["scalar", v] ["list", refs] ["dict", [[k, ref]]] ["data", [[attr, ref]]] (attributes
    annotated Any: cattrs follows them) ["fwd", [[attr, ref]]] (attributes annotated with an unresolvable forward
    reference, Optional["X"] / List["X"] / Dict[str, "X"]: cattrs leaves them, _ensure_all_dicts finishes)"""
    n = rng.randint(1, 8)
    heap: list = []
    for i in range(n):
        r = rng.random()
        if lists_only and r >= 0.3:
            r = 0.4          # cycles through lists only: the one kind the visited set protects
        targets = list(range(n)) if cyclic else list(range(i))
        if r < 0.3 or (not targets and r < 0.5):
            heap.append(["none"] if rng.random() < 0.3 else ["scalar", rng.choice([["i", 3], ["s", "x"], ["b", False], ["f", 2], ["s", ""]])])
        elif r < 0.5:
            heap.append(["list", [rng.choice(targets) for _ in range(rng.randint(0, 3))] if targets else []])
        elif r < (0.6 if fwd else 0.7):
            ks = rng.sample(DKEYS, rng.randint(0, 3))
            heap.append(["dict", [[k, rng.choice(targets)] for k in ks] if targets else []])
        else:
            ks = rng.sample(["a", "b", "the_c", "x_y", "id_"], rng.randint(0, 3))   # attribute names (no Meta: see run_ser)
            kind = "fwd" if fwd and rng.random() < 0.85 else "data"
            heap.append([kind, [[k, rng.choice(targets)] for k in ks] if targets else []])
    return {"kind": "ser", "heap": heap, "root": n - 1 if not cyclic else rng.randrange(n)}


def fwd_shapes() -> list[dict]:
    """the cyclic shapes that work on the unchanged tree (forward-reference dataclasses, as in the project's tests):
    self reference, a/b pair, ring with a back edge inside a dict-typed attribute, parent/children with back pointers"""
    S = lambda v: ["scalar", ["s", v]]  # noqa: E731
    return [
        {"kind": "ser", "root": 0, "heap": [["fwd", [["name", 1], ["parent", 0]]], S("me")]},
        {"kind": "ser", "root": 0, "heap": [["fwd", [["name", 2], ["parent", 1]]], ["fwd", [["name", 3], ["parent", 0]]], S("a"), S("b")]},
        {"kind": "ser", "root": 0, "heap": [["fwd", [["parent", 1]]], ["fwd", [["parent", 2], ["idx", 3]]], ["fwd", [["parent", 0]]],
                                            ["dict", [["first", 0], ["other", 4]]], ["fwd", [["name", 5]]], S("leaf")]},
        {"kind": "ser", "root": 0, "heap": [["fwd", [["kids", 1], ["parent", 5]]], ["list", [2]], ["fwd", [["parent", 0], ["kids", 3]]],
                                            ["list", [4]], ["fwd", [["parent", 2], ["note", 5]]], ["none"]]},
        {"kind": "ser", "root": 2, "heap": [["fwd", [["idx", 1]]], ["dict", [["me", 0], ["n", 3]]], ["list", [0, 0]], ["none"]]},
        {"kind": "ser", "root": 0, "heap": [["data", [["x", 1]]], ["fwd", [["p", 2]]], ["fwd", [["q", 3]]], S("deep")]},
    ]


# ================================================================== building real Python objects
_case_no = [0]


def reference_converter():
    """an independent copy of the bundled converter module (its own cattrs.Converter, no history), used by the
    oracle to ask what a converter that has seen nothing returns"""
    import importlib.util
    import pyopenapi_gen.core.cattrs_converter as cc
    spec = importlib.util.spec_from_file_location("pyopenapi_gen.core._cattrs_converter_ref", cc.__file__)
    mod = importlib.util.module_from_spec(spec)
    spec.loader.exec_module(mod)
    return mod


def fresh_converter():
    """a fresh bundled converter module = a converter with empty history (the model's st0)"""
    import pyopenapi_gen.core.cattrs_converter as cc
    return importlib.reload(cc)


def ann_str(t, style_new: bool, quote: frozenset = frozenset()) -> str:
    if isinstance(t, str):
        return {"str": "str", "int": "int", "float": "float", "bool": "bool", "bytes": "bytes", "datetime": "datetime",
                "date": "date", "uuid": "UUID", "time": "time", "any": "Any"}[t]
    if t[0] == "list":
        return ("list[%s]" if style_new else "List[%s]") % ann_str(t[1], style_new, quote)
    if t[0] == "dict":
        return ("dict[str, %s]" if style_new else "Dict[str, %s]") % ann_str(t[1], style_new, quote)
    if t[0] == "opt":
        return ("%s | None" if style_new else "Optional[%s]") % ann_str(t[1], style_new, quote)
    return f'"C{t[1]}"' if t[1] in quote else f"C{t[1]}"      # a quoted name inside a generic = a ForwardRef


def build_classes(classes: list[dict], seed: int, modname: str | None = None, late: frozenset = frozenset(),
                  into: tuple | None = None) -> tuple[dict, Any]:
    """real dataclasses (dataclasses.make_dataclass + Meta) in a synthetic module so that string annotations and
    get_type_hints resolve; classes with style 'obj' get real type objects, 'str' fully quoted annotations.
    With an explicit modname the module of that name is REPLACED (a reloaded models module: new class objects,
    same module and qualified names)."""
    if into is not None:          # second phase: define the classes of `late` in the existing module
        built, mod = into
        modname = mod.__name__
        todo = [c for c in classes if c["id"] in late]
        late = frozenset()
    else:
        _case_no[0] += 1
        modname = modname or f"_c16_case_{_case_no[0]}"
        mod = types.ModuleType(modname)
        sys.modules[modname] = mod
        ns = {"Any": Any, "Optional": typing.Optional, "List": typing.List, "Dict": typing.Dict, "datetime": datetime,
              "date": date, "UUID": UUID, "time": time}
        mod.__dict__.update(ns)
        built = {}
        todo = [c for c in classes if c["id"] not in late]   # classes in `late` do not exist yet

    def refs_ok(t, cid):
        if isinstance(t, str):
            return True
        if t[0] in ("data", "fwd"):
            return t[1] in built or t[1] in late
        return refs_ok(t[1], cid)

    # 'obj' style needs every referenced class to exist already: build high ids first (references go upward)
    for c in sorted(todo, key=lambda c: -c["id"]):
        cid = c["id"]
        new_style = (cid + seed) % 2 == 0 and not late
        as_obj = c["style"] == "obj" and all(refs_ok(f["ty"], cid) for f in c["fields"])
        flds = []
        for f in c["fields"]:
            a: Any = ann_str(f["ty"], new_style, late)
            if as_obj:
                a = eval(a, dict(mod.__dict__))
            d = f["default"]
            if d is None:
                flds.append((f["name"], a))
            elif d in (["l", []], ["m", []]):
                flds.append((f["name"], a, dataclasses.field(default_factory=list if d[0] == "l" else dict)))
            else:
                flds.append((f["name"], a, dataclasses.field(default=to_py(d, built))))
        nsd: dict[str, Any] = {}
        if c["load"] is not None or c["dump"] is not None:
            meta: dict[str, Any] = {}
            if c["load"] is not None:
                meta["key_transform_with_load"] = {w: p for w, p in c["load"]}
            if c["dump"] is not None:
                meta["key_transform_with_dump"] = {p: w for p, w in c["dump"]}
            nsd["Meta"] = type("Meta", (), meta)
        k = dataclasses.make_dataclass(f"C{cid}", flds, namespace=nsd)
        k.__module__ = modname
        k.__qualname__ = f"C{cid}"
        built[cid] = k
        setattr(mod, f"C{cid}", k)
    return built, mod


def py_type(t, built, mod) -> Any:
    return eval(ann_str(t, False), dict(mod.__dict__))


def to_py(v, built) -> Any:
    k = v[0]
    if k == "n":
        return None
    if k in ("b", "i", "s"):
        return v[1]
    if k == "f":
        return float(v[1])
    if k == "l":
        return [to_py(x, built) for x in v[1]]
    if k == "m":
        return {a: to_py(b, built) for a, b in v[1]}
    if k == "y":
        return bytes(v[1])
    if k == "dt":
        return datetime.fromisoformat(v[1])
    if k == "d":
        return date.fromisoformat(v[1])
    if k == "u":
        return UUID(v[1])
    if k == "t":
        return time.fromisoformat(v[1])
    if k == "D":
        return built[v[1]](**{a: to_py(b, built) for a, b in v[2]})
    raise ValueError(v)


class NotModelled(Exception):
    pass


def canon(o, built_rev) -> Any:
    if o is None:
        return ["n"]
    if isinstance(o, bool):
        return ["b", o]
    if isinstance(o, int):
        return ["i", o]
    if isinstance(o, float):
        if o != o or o in (float("inf"), float("-inf")) or o != int(o):
            raise NotModelled(f"non-integral float {o!r}")
        return ["f", int(o)]
    if isinstance(o, str):
        return ["s", o]
    if isinstance(o, (bytes, bytearray)):
        return ["y", list(o)]
    if isinstance(o, datetime):
        return ["dt", o.isoformat()]
    if isinstance(o, date):
        return ["d", o.isoformat()]
    if isinstance(o, UUID):
        return ["u", str(o)]
    if isinstance(o, time):
        return ["t", o.isoformat()]
    if isinstance(o, list):
        return ["l", [canon(x, built_rev) for x in o]]
    if isinstance(o, dict):
        if not all(isinstance(k, str) for k in o):
            raise NotModelled("non-str dict key")
        return ["m", [[k, canon(x, built_rev)] for k, x in o.items()]]
    if dataclasses.is_dataclass(o) and type(o) in built_rev:
        return ["D", built_rev[type(o)], [[f.name, canon(getattr(o, f.name), built_rev)] for f in dataclasses.fields(o)]]
    raise NotModelled(f"object of {type(o).__name__}")


def is_json(v) -> bool:
    if v[0] in ("n", "b", "i", "f", "s"):
        return True
    if v[0] == "l":
        return all(is_json(x) for x in v[1])
    if v[0] == "m":
        return all(is_json(x) for _, x in v[1])
    return False


# ================================================================== implementation runner (+ law steps)
def run_prehistory(cc, pre: dict, modname: str) -> None:
    """earlier life of the same converter: other classes that happen to have the SAME module and qualified names
    (a reloaded models module, classes made by a factory, two clients side by side) are structured / unstructured.
    C16_history_free says this cannot matter; outcomes are not recorded."""
    built, _ = build_classes(pre["classes"], len(pre["plan"]), modname)
    for st in pre["plan"]:
        try:
            if "doc" in st:
                cc.structure_from_dict(to_py(st["doc"], built), py_type(st["ty"], built, sys.modules[modname]))
            elif "val" in st:
                cc.unstructure_to_dict(to_py(st["val"], built))
        except NotModelled:
            raise
        except BaseException:  # noqa: BLE001
            pass


def run_conv(case: dict) -> dict:
    cc = fresh_converter()
    modname = None
    if case.get("prehistory"):
        _case_no[0] += 1
        modname = f"_c16_case_{_case_no[0]}"
        run_prehistory(cc, case["prehistory"], modname)
    late = frozenset(case.get("late") or [])
    built, mod = build_classes(case["classes"], len(case["plan"]), modname, late=late)
    if late:
        # the converter touches the classes while the names they refer to are not defined yet (a module-level default
        # evaluated during a circular import); then the missing classes appear.  Outcomes of the early calls are not
        # recorded: the laws must hold afterwards irrespective of this history.
        for st in case.get("early", []):
            try:
                if "doc" in st:
                    cc.structure_from_dict(to_py(st["doc"], built), py_type(st["ty"], built, mod))
                else:
                    cc.unstructure_to_dict(to_py(st["val"], built))
            except NotModelled:
                raise
            except BaseException:  # noqa: BLE001
                pass
        build_classes(case["classes"], len(case["plan"]), late=late, into=(built, mod))
    rev = {k: cid for cid, k in built.items()}
    ops: list[dict] = []      # what the model replays: {"op","ty","doc"} / {"op","val"} + "obs"
    fails: list[str] = []
    stats = {"names_field": 0, "names_field_miss": 0}

    def do_structure(t, doc, raw=False):
        T = py_type(t, built, mod)
        data = to_py(doc, built)
        try:
            r = cc.converter.structure(data, T) if raw else cc.structure_from_dict(data, T)
            ob: Any = ["ok", canon(r, rev)]
            inst = r
        except NotModelled:
            raise
        except BaseException as e:  # noqa: BLE001
            if isinstance(e, ValueError) and not raw:
                ob, inst = ["ValueError", str(e)], None
            else:
                ob, inst = ["Other", type(e).__name__ + ": " + str(e)[:200]], None
        ops.append({"op": "raw" if raw else "structure", "ty": t, "doc": doc, "obs": ob})
        return ob, inst

    def do_unstructure(val, obj=None):
        obj = to_py(val, built) if obj is None else obj
        try:
            r = cc.unstructure_to_dict(obj)
            c = canon(r, rev)
            ob: Any = ["ok", c] if is_json(c) else ["Other", "non-JSON object in the output"]
        except NotModelled:
            raise
        except BaseException as e:  # noqa: BLE001
            ob = ["Other", type(e).__name__ + ": " + str(e)[:200]]
        ops.append({"op": "unstructure", "val": val, "obs": ob})
        return ob

    try:
        for st in case["plan"]:
            k = st["step"]
            if k in ("decode", "decode_encode"):
                ob, inst = do_structure(st["ty"], st["doc"])
                if ob[0] == "Other":
                    fails.append(f"structure_from_dict raised {ob[1]} (not ValueError)")
                if st["conforming"] and lawful(case["classes"], st["ty"]):
                    if ob[0] != "ok":
                        fails.append(f"conforming document rejected: {ob[1][:160]}")
                    else:
                        ob2 = do_unstructure(ob[1], inst)
                        if ob2[0] != "ok":
                            fails.append(f"decode then encode failed: {ob2[1][:160]}")
                        elif not json_eq_mod(st["doc"], ob2[1]):
                            fails.append(f"decode then encode changed the document: {untag(st['doc'])!r} -> {untag(ob2[1])!r}")
                elif ob[0] == "ok":
                    do_unstructure(ob[1], inst)
                if ob[0] == "ValueError" and st.get("offending"):
                    if st["offending"] in ob[1]:
                        stats["names_field"] += 1
                    else:
                        stats["names_field_miss"] += 1
            elif k == "encode_decode":
                ob = do_unstructure(st["val"])
                good = lawful(case["classes"], st["ty"]) and st["val"][0] == "D"
                if good and ob[0] != "ok":
                    fails.append(f"encoding a conforming instance failed: {ob[1][:160]}")
                if ob[0] == "ok":
                    try:
                        json.dumps(untag(ob[1]))
                    except Exception as e:  # noqa: BLE001
                        fails.append(f"encoded instance is not JSON-serialisable: {e}")
                    if st["val"][0] == "D":
                        ob2, _ = do_structure(["data", st["val"][1]], ob[1])
                        if ob2[0] == "Other":
                            fails.append(f"structure_from_dict raised {ob2[1]} (not ValueError)")
                        if good and ob2 != ["ok", st["val"]]:
                            fails.append(f"encode then decode does not return an equal instance: {st['val']!r} -> {ob2!r}"[:400])
            elif k == "raw":
                do_structure(st["ty"], st["doc"], raw=True)
            elif k == "encode":
                obj = to_py(st["val"], built)
                ob = do_unstructure(st["val"], obj)
                # the encoding must not depend on what this converter did before
                try:
                    ref = reference_converter().unstructure_to_dict(obj)
                    rc = canon(ref, rev)
                    rob: Any = ["ok", rc] if is_json(rc) else ["Other", "non-JSON"]
                except NotModelled:
                    raise
                except BaseException as e:  # noqa: BLE001
                    rob = ["Other", type(e).__name__]
                if rob[0] != ob[0] or (rob[0] == "ok" and rob[1] != ob[1]):
                    fails.append("encoding depends on the converter's history: a converter that has seen nothing gives "
                                 f"{json.dumps(untag(rob[1]))[:150] if rob[0] == 'ok' else rob} , this one "
                                 f"{json.dumps(untag(ob[1]))[:150] if ob[0] == 'ok' else ob}")
    finally:
        sys.modules.pop(mod.__name__, None)
    return {"input": case, "obs": ops, "oracle_fail": fails, "stats": stats}


def untag(v) -> Any:
    k = v[0]
    if k == "n":
        return None
    if k in ("b", "i", "s"):
        return v[1]
    if k == "f":
        return float(v[1])
    if k == "l":
        return [untag(x) for x in v[1]]
    if k == "m":
        return {a: untag(b) for a, b in v[1]}
    return v


def json_eq_mod(a, b) -> bool:
    """the property's 'returns that value': equality of JSON (numbers by value — 2 and 2.0 are the same JSON number —,
    bools apart, key order irrelevant) where a key absent from the input may reappear as null or an empty container"""
    if a[0] in ("i", "f") and b[0] in ("i", "f"):
        return a[1] == b[1]
    if a[0] != b[0]:
        return False
    if a[0] == "l":
        return len(a[1]) == len(b[1]) and all(json_eq_mod(x, y) for x, y in zip(a[1], b[1]))
    if a[0] == "m":
        da, db = dict(map(tuple, a[1])), dict(map(tuple, b[1]))
        if not set(da) <= set(db):
            return False
        for k, v in db.items():
            if k in da:
                if not json_eq_mod(da[k], v):
                    return False
            elif v not in (["n"], ["l", []], ["m", []]):
                return False
        return True
    return a == b


# ---------------------------------------------------------------- serialiser
SER_TIMEOUT = 0.6


class _Timeout(BaseException):
    pass


class _Deep(Exception):
    pass


def nesting_depth(o, limit: int) -> int | None:
    """depth of nested lists / dicts / tuples, computed without recursion; None when it exceeds `limit`"""
    best, stack = 0, [(o, 1)]
    while stack:
        x, d = stack.pop()
        if isinstance(x, dict):
            kids = list(x.values())
        elif isinstance(x, (list, tuple)):
            kids = list(x)
        else:
            continue
        if d > limit:
            return None
        best = max(best, d)
        stack.extend((k, d + 1) for k in kids)
    return best


def run_ser(case: dict) -> dict:
    cc = fresh_converter()
    import pyopenapi_gen.core.utils as U
    heap = case["heap"]
    objs: list[Any] = [None] * len(heap)
    classes: list[Any] = [None] * len(heap)
    for i, o in enumerate(heap):
        if o[0] == "none":
            objs[i] = None
        elif o[0] == "scalar":
            objs[i] = untag(o[1])
        elif o[0] == "list":
            objs[i] = []
        elif o[0] == "dict":
            objs[i] = {}
        elif o[0] == "data":
            # Any-typed attributes, no Meta: key renaming is the converter's business (exercised by the conv cases);
            # a class that is only reachable through Any is never registered, so it would keep its python names anyway
            k = dataclasses.make_dataclass(f"S{i}", [(kv[0], Any, None) for kv in o[1]])
            classes[i] = k
            objs[i] = k()
        else:
            # attributes annotated with a forward reference nobody can resolve (a locally defined class in real code)
            def ann(ref):
                kind = heap[ref][0] if ref < len(heap) else "none"
                if kind == "list":
                    return typing.List["Undefined_"]
                if kind == "dict":
                    return typing.Dict[str, "Undefined_"]
                return typing.Optional["Undefined_"]
            k = dataclasses.make_dataclass(f"F{i}", [(kv[0], ann(kv[1]), None) for kv in o[1]])
            classes[i] = k
            objs[i] = k()

    def get(r):
        return objs[r] if r < len(objs) else None
    for i, o in enumerate(heap):
        if o[0] == "list":
            objs[i].extend(get(r) for r in o[1])
        elif o[0] == "dict":
            for kk, r in o[1]:
                objs[i][kk] = get(r)
        elif o[0] in ("data", "fwd"):
            for nm, r in o[1]:
                setattr(objs[i], nm, get(r))
    fails = []
    import signal

    def on_alarm(signum, frame):
        raise _Timeout()
    old = signal.signal(signal.SIGALRM, on_alarm)
    try:
        signal.setitimer(signal.ITIMER_REAL, SER_TIMEOUT, 0.05)   # periodic: a tick that lands at the recursion limit
        # cannot even enter the handler (RecursionError, swallowed like the others); the next tick will
        try:
            r = U.DataclassSerializer.serialize(get(case["root"]))
        finally:
            signal.setitimer(signal.ITIMER_REAL, 0)
        # Outside guard_F16a the implementation may RETURN garbage instead of raising: when the RecursionError is
        # swallowed inside cattrs' dispatcher the cycle comes back unrolled a few hundred levels deep.  An object graph
        # of n objects cannot legitimately serialise deeper than ~2n: such a value becomes the observation "Deep"
        # (never walked recursively by this harness).
        if nesting_depth(r, limit=4 * len(heap) + 16) is None:
            raise _Deep()
        try:
            json.dumps(r)
            c = canon(r, {})
            if has_null_key(c):
                fails.append("serialize returned a null-valued key: " + json.dumps(untag(c))[:200])
            ob: Any = ["ok", c]
        except NotModelled:
            raise
        except Exception as e:  # noqa: BLE001
            fails.append(f"serialize returned data that is not JSON-serialisable: {type(e).__name__}: {e}"[:200])
            ob = ["Leak", type(e).__name__]
    except NotModelled:
        raise
    except _Deep:
        ob = ["Err", "Deep"]
        fails.append("serialize returned a structure nested deeper than the object graph allows (a reference cycle unrolled "
                     "until the recursion limit; the RecursionError was swallowed inside cattrs' dispatcher)")
    except _Timeout:
        ob = ["Err", "Timeout"]
        fails.append(f"serialize did not return within {SER_TIMEOUT}s (cattrs walks the cycle; RecursionError is swallowed "
                     "inside its dispatcher and the walk branches again)")
    except BaseException as e:  # noqa: BLE001
        ob = ["Err", type(e).__name__]
        fails.append(f"serialize raised {type(e).__name__}")
    finally:
        signal.signal(signal.SIGALRM, old)
    return {"input": case, "obs": ob, "oracle_fail": fails, "stats": {}}


def has_null_key(v) -> bool:
    if v[0] == "l":
        return any(has_null_key(x) for x in v[1])
    if v[0] == "m":
        return any(x == ["n"] or has_null_key(x) for _, x in v[1])
    return False


# ================================================================== Coq printers
def c_z(n: int) -> str:
    return f"({n})%Z"


def c_ty(t) -> str:
    if isinstance(t, str):
        return {"str": "TStr", "int": "TInt", "float": "TFloat", "bool": "TBool", "bytes": "TBytes", "datetime": "TDatetime",
                "date": "TDate", "uuid": "TUuid", "time": "TTime", "any": "TAny"}[t]
    k = {"list": "TList", "dict": "TDict", "opt": "TOpt"}.get(t[0])
    if k:
        return f"({k} {c_ty(t[1])})"
    return f"({'TData' if t[0] == 'data' else 'TFwd'} {t[1]})"


def c_json(v) -> str:
    k = v[0]
    if k == "n":
        return "JNull"
    if k == "b":
        return f"(JBool {'true' if v[1] else 'false'})"
    if k == "i":
        return f"(JInt {c_z(v[1])})"
    if k == "f":
        return f"(JFloat {c_z(v[1])})"
    if k == "s":
        return f"(JStr {cstr(v[1])})"
    if k == "l":
        return f"(JArr {clist(c_json(x) for x in v[1])})"
    if k == "m":
        return f"(JObj {clist(cpair(cstr(a), c_json(b)) for a, b in v[1])})"
    raise NotModelled(f"not JSON: {v!r}")


def c_val(v) -> str:
    k = v[0]
    if k == "n":
        return "VNone"
    if k == "b":
        return f"(VBool {'true' if v[1] else 'false'})"
    if k == "i":
        return f"(VInt {c_z(v[1])})"
    if k == "f":
        return f"(VFloat {c_z(v[1])})"
    if k == "s":
        return f"(VStr {cstr(v[1])})"
    if k == "y":
        return f"(VBytes {cstr(bytes(v[1]))})"
    if k == "dt":
        return f"(VDatetime {cstr(v[1])})"
    if k == "d":
        return f"(VDate {cstr(v[1])})"
    if k == "u":
        return f"(VUuid {cstr(v[1])})"
    if k == "t":
        return f"(VTime {cstr(v[1])})"
    if k == "l":
        return f"(VList {clist(c_val(x) for x in v[1])})"
    if k == "m":
        return f"(VDict {clist(cpair(cstr(a), c_val(b)) for a, b in v[1])})"
    if k == "W":
        return f"(VWrap {clist(cpair(cstr(a), c_val(b)) for a, b in v[1])})"
    return f"(VData {v[1]} {clist(cpair(cstr(a), c_val(b)) for a, b in v[2])})"


def c_cls(c: dict) -> str:
    fs = clist(f"{{| f_name := {cstr(f['name'])}; f_ty := {c_ty(f['ty'])}; f_default := {copt(f['default'], c_val)} |}}"
               for f in c["fields"])
    mp = lambda m: clist(cpair(cstr(a), cstr(b)) for a, b in m)  # noqa: E731
    return (f"{{| c_id := {c['id']}; c_fields := {fs}; c_load := {copt(c['load'], mp)}; "
            f"c_dump := {copt(c['dump'], mp)} |}}")


def strings_of(v, acc: set, nodes: list, byts: set) -> None:
    k = v[0]
    if k == "s":
        acc.add(v[1])
    elif k == "y":
        byts.add(bytes(v[1]))
    elif k == "l":
        for x in v[1]:
            strings_of(x, acc, nodes, byts)
    elif k in ("m", "W"):
        for a, b in v[1]:
            acc.add(a)
            strings_of(b, acc, nodes, byts)
    elif k == "D":
        for _, b in v[2]:
            strings_of(b, acc, nodes, byts)
    if k in ("n", "b", "i", "f", "l", "m") and is_json(v):
        nodes.append(v)


def tables_for(ops: list[dict]) -> str:
    acc: set[str] = set()
    nodes: list = []
    byts: set[bytes] = set()
    for o in ops:
        strings_of(o.get("doc") or o.get("val"), acc, nodes, byts)
    for s in list(acc):
        acc.update(s)                      # single characters (a str handed to List[...] is iterated)
        acc.add(s.replace("Z", "+00:00"))
    ss = sorted(acc)

    def opt(f, s):
        try:
            return f(s)
        except Exception:  # noqa: BLE001
            return None

    def fl(s):
        x = float(s)
        if x != x or x in (float("inf"), float("-inf")) or x != int(x):
            raise NotModelled(f"float({s!r}) is not integral")
        return int(x)
    b64 = {s: opt(base64.b64decode, s) for s in ss}
    for b in b64.values():
        if b is not None:
            byts.add(b)
    strs: dict[str, str] = {}
    for n in nodes:
        strs.setdefault(c_json(n), str(untag(n)))
    osome = lambda x, f: "None" if x is None else f"(Some {f(x)})"  # noqa: E731
    return ("{| tb_b64dec := " + clist(cpair(cstr(s), osome(b64[s], cstr)) for s in ss)
            + "; tb_b64enc := " + clist(cpair(cstr(b), cstr(base64.b64encode(b).decode())) for b in sorted(byts))
            + "; tb_dt := " + clist(cpair(cstr(s), osome(opt(lambda x: datetime.fromisoformat(x).isoformat(), s), cstr)) for s in ss)
            + "; tb_date := " + clist(cpair(cstr(s), osome(opt(lambda x: date.fromisoformat(x).isoformat(), s), cstr)) for s in ss)
            + "; tb_uuid := " + clist(cpair(cstr(s), osome(opt(lambda x: str(UUID(x)), s), cstr)) for s in ss)
            + "; tb_time := " + clist(cpair(cstr(s), osome(opt(lambda x: time.fromisoformat(x).isoformat(), s), cstr)) for s in ss)
            + "; tb_int := " + clist(cpair(cstr(s), osome(opt(int, s), c_z)) for s in ss)
            + "; tb_float := " + clist(cpair(cstr(s), osome(opt_float(s), c_z)) for s in ss)
            + "; tb_str := " + clist(cpair(j, cstr(t)) for j, t in strs.items()) + " |}")


def opt_float(s: str):
    try:
        x = float(s)
    except Exception:  # noqa: BLE001
        return None
    if x != x or x in (float("inf"), float("-inf")) or x != int(x):
        raise NotModelled(f"float({s!r}) is not integral")
    return int(x)


def c_outcome(ob, pr) -> str:
    if ob[0] == "ok":
        return f"(Returned {pr(ob[1])})"
    return "ValueError" if ob[0] == "ValueError" else "OtherError"


def c_case(r: dict) -> str:
    case = r["input"]
    if case["kind"] == "ser":
        objs = []
        for o in case["heap"]:
            if o[0] == "none":
                objs.append("SNone")
            elif o[0] == "scalar":
                objs.append(f"(SScalar {c_json(o[1])})")
            elif o[0] == "list":
                objs.append(f"(SList {clist(f'{x}%nat' for x in o[1])})")
            else:
                ctor = {"dict": "SDict", "data": "SData", "fwd": "SFwd"}[o[0]]
                objs.append(f"({ctor} {clist(cpair(cstr(k), f'{x}%nat') for k, x in o[1])})")
        ob = r["obs"]
        res = "(SOk " + c_json(ob[1]) + ")" if ob[0] == "ok" else "SFuel"   # a non-JSON return has no model counterpart any more
        return f"(InSer {clist(objs)} {case['root']}%nat, ObSer {res})"
    ops, obs = [], []
    for o in r["obs"]:
        if o["op"] == "unstructure":
            ops.append(f"(OpUnstructure {c_val(o['val'])})")
            obs.append(f"(ObsJ {c_outcome(o['obs'], c_json)})")
        else:
            ops.append(f"({'OpStructure' if o['op'] == 'structure' else 'OpRaw'} {c_ty(o['ty'])} {c_json(o['doc'])})")
            obs.append(f"(ObsV {c_outcome(o['obs'], c_val)})")
    return (f"(InConv {tables_for(r['obs'])} {clist(c_cls(c) for c in case['classes'])} {clist(ops)}, "
            f"ObConv {clist(obs)})")


# ================================================================== entry
def run_one(case: dict) -> dict | None:
    try:
        r = run_ser(case) if case["kind"] == "ser" else run_conv(case)
        r["coq"] = c_case(r)
        return r
    except NotModelled as e:
        return {"skipped": str(e), "input": case}
    except RecursionError:
        # an observation this harness cannot walk/print must never crash the run: it is recorded as such
        return {"skipped": "observation too deeply nested to canonicalise / print", "input": case, "unprintable": True}


def main(chk: Check, replay: dict | None = None) -> int:
    if replay is not None:
        r = run_one(replay["input"])
        print(json.dumps({k: v for k, v in r.items() if k != "coq"}, indent=1)[:6000])
        if r.get("oracle_fail"):
            print(f"VIOLATION property=C16 replay=(replayed) : {r['oracle_fail']}")
            return 1
        return 0
    if os.environ.get("VERIF_DEBUG"):
        import faulthandler, signal
        faulthandler.register(signal.SIGUSR1, all_threads=True)
    chk.prove()
    chk.say(f"[C16] proofs done at {__import__("time").time() - chk.t0:.1f}s")
    rng = chk.rng
    inputs = [c["input"] for c in load_corpus("C16")]
    n = 2500 if chk.thorough else 420
    for i in range(n):
        inputs.append(gen_conv_case(rng, malformed=(i % 3 == 2), with_prehistory=(i % 4 == 1)))
    for i in range(n // 14):
        inputs.append(gen_late_case(rng))
    inputs += fwd_shapes()
    for i in range(n // 3):
        inputs.append(gen_ser_case(rng, cyclic=(i % 4 >= 2), lists_only=(i % 4 == 2)))
    for i in range(n // 3):
        inputs.append(gen_ser_case(rng, cyclic=(i % 3 != 0), fwd=True))
    cases, skipped = [], 0
    for c in inputs:
        r = run_one(c)
        if "skipped" in r:
            skipped += 1
            if r.get("unprintable"):
                chk.say(f"[C16] note: one case skipped ({r['skipped']}): {json.dumps(r['input'])[:200]}")
            continue
        cases.append(r)
    chk.cov["evaluations"] = sum(len(c["obs"]) if c["input"]["kind"] == "conv" else 1 for c in cases)
    nontriv = {json.dumps(c["input"], sort_keys=True) for c in cases
               if (c["input"]["kind"] == "conv" and any(k["fields"] for k in c["input"]["classes"]))
               or (c["input"]["kind"] == "ser" and len(c["input"]["heap"]) > 1)}
    chk.cov["distinct_nontrivial"] = len(nontriv)
    dist: dict[str, int] = {"cases_conv": 0, "cases_ser": 0, "ops_structure": 0, "ops_unstructure": 0, "ops_raw": 0,
                            "result_ok": 0, "result_ValueError": 0, "result_Other": 0, "ser_RecursionError": 0,
                            "not_modelled_skipped": skipped, "oracle_failures": 0,
                            "error_names_innermost_field": 0, "error_does_not_name_innermost_field": 0,
                            "classes_with_maps": 0, "classes_without_maps": 0, "non_bijective_maps": 0, "max_type_depth": 0}

    def depth(t):
        return 0 if isinstance(t, str) else 1 + (depth(t[1]) if t[0] in ("list", "dict", "opt") else 0)
    for c in cases:
        if c["oracle_fail"]:
            dist["oracle_failures"] += 1
        if c["input"]["kind"] == "ser":
            dist["cases_ser"] += 1
            if c["obs"][0] == "Err":
                dist["ser_RecursionError"] += 1
            if c["obs"][0] == "Leak":
                dist["ser_not_json"] = dist.get("ser_not_json", 0) + 1
            if any(o[0] == "fwd" for o in c["input"]["heap"]):
                dist["ser_with_forward_ref_dataclass"] = dist.get("ser_with_forward_ref_dataclass", 0) + 1
            continue
        dist["cases_conv"] += 1
        dist["cases_with_late_defined_class"] = dist.get("cases_with_late_defined_class", 0) + bool(c["input"].get("late"))
        dist["cases_with_same_name_prehistory"] = dist.get("cases_with_same_name_prehistory", 0) + bool(c["input"].get("prehistory"))
        dist["error_names_innermost_field"] += c["stats"]["names_field"]
        dist["error_does_not_name_innermost_field"] += c["stats"]["names_field_miss"]
        for k in c["input"]["classes"]:
            dist["classes_with_maps" if k["load"] or k["dump"] else "classes_without_maps"] += 1
            if not bijective(k):
                dist["non_bijective_maps"] += 1
            for f in k["fields"]:
                dist["max_type_depth"] = max(dist["max_type_depth"], depth(f["ty"]))
        for o in c["obs"]:
            dist["ops_" + o["op"]] += 1
            dist["result_" + o["obs"][0]] += 1
    chk.cov["input_distribution"] = dist
    for c in cases[:1] + cases[len(cases) // 2:len(cases) // 2 + 1] + cases[-2:]:
        chk.sample({"input": c["input"], "obs": c["obs"]})
    codes = None
    if chk.model_ok:
        codes = chk.coq_eval("From PG Require Import Lib.Strs Model.Converter Model.Serializer Corr.C16.",
                             "c16_in * c16_obs", [c["coq"] for c in cases], "run", shard=60)
    for c in cases:
        c.pop("coq", None)
    if codes is not None:
        bad = [c for c, k in zip(cases, codes) if (k >> 3) & 1]
        if bad:
            chk.broken.append({"kind": "guard", "name": "reach (registration walk of the model) is not closed",
                               "mismatches": len(bad), "first": {"input": bad[0]["input"], "obs": None}})
    chk.decide(cases, codes, {1: "F16a", 4: "F16b"},
               "Corr.C16.run: run_ops / serialize_top (model) = structure_from_dict / unstructure_to_dict / "
               "DataclassSerializer.serialize observed on real dataclasses")
    return chk.finish(TRUSTED,
                      rule="corpus + seeded random class tables (1-5 dataclasses, fields 0-5, type depth <= 4, Meta maps: "
                           "bijective / partial / absent / malformed) x plans of 1-4 law steps (decode->encode on conforming "
                           "documents, encode->decode on conforming instances, mutated documents, raw converter calls, "
                           "container roots) each in a fresh converter + random heaps (acyclic and cyclic) for the serialiser; "
                           "non-trivial = a class has a field / heap has >1 object; distinct by JSON of the input")
