"""Translator plug-in for C04: the media-type literals and body-variable names the endpoint generators
branch on, read with `ast` from /repo (fail-closed).  Output: coq/Gen/T_C04.v

  visit/endpoint/processors/parameter_processor.py   process_parameters: if/elif chain
        "<media type>" in content_types  ->  body_param_name = "<var>"   (+ fallback var)
  visit/endpoint/generators/overload_generator.py     _get_content_type_param_info: if/elif chain
        content_type == "<media type>"   ->  return {"name": "<var>", ...} (+ fallback var)
        generate_implementation_signature: the trailing `content_type: str = ...` argument
"""
from __future__ import annotations

import ast

from tables import TranslatorError, _find_class, _find_func, _parse, cstr

OUT_NAME = "T_C04.v"


def _const_str(n: ast.AST) -> str | None:
    return n.value if isinstance(n, ast.Constant) and isinstance(n.value, str) else None


def _std_chain() -> tuple[list[tuple[str, str]], str]:
    mod = _parse("visit/endpoint/processors/parameter_processor.py")
    fn = _find_func(_find_class(mod, "EndpointParameterProcessor"), "process_parameters")
    chain: list[tuple[str, str]] = []
    fallback: str | None = None
    for top in ast.walk(fn):
        if not isinstance(top, ast.If):
            continue
        t = top.test
        if not (isinstance(t, ast.Compare) and len(t.ops) == 1 and isinstance(t.ops[0], ast.In)
                and _const_str(t.left) and isinstance(t.comparators[0], ast.Name)
                and t.comparators[0].id == "content_types"):
            continue
        node: ast.stmt | None = top
        while isinstance(node, ast.If):
            names = [_const_str(s.value) for s in node.body
                     if isinstance(s, ast.Assign) and isinstance(s.targets[0], ast.Name)
                     and s.targets[0].id == "body_param_name"]
            if len(names) != 1 or names[0] is None:
                raise TranslatorError("process_parameters: branch does not assign body_param_name exactly once")
            tt = node.test
            if (isinstance(tt, ast.Compare) and len(tt.ops) == 1 and isinstance(tt.ops[0], ast.In)
                    and _const_str(tt.left)):
                chain.append((_const_str(tt.left), names[0]))  # type: ignore[arg-type]
            elif isinstance(tt, ast.Name) and tt.id == "content_types":
                fallback = names[0]
            else:
                raise TranslatorError("process_parameters: unexpected test in the content-type chain")
            node = node.orelse[0] if len(node.orelse) == 1 else None
        break
    if [c for c, _ in chain] != ["multipart/form-data", "application/json", "application/x-www-form-urlencoded"] \
            or fallback is None:
        raise TranslatorError(f"process_parameters: content-type chain changed shape: {chain} / {fallback}")
    return chain, fallback


def _multi_chain() -> tuple[list[tuple[str, str]], str]:
    mod = _parse("visit/endpoint/generators/overload_generator.py")
    cls = _find_class(mod, "OverloadMethodGenerator")
    fn = _find_func(cls, "_get_content_type_param_info")

    def ret_name(body: list[ast.stmt]) -> str:
        for s in body:
            if isinstance(s, ast.Return) and isinstance(s.value, ast.Dict):
                for k, v in zip(s.value.keys, s.value.values):
                    if _const_str(k) == "name" and _const_str(v):
                        return _const_str(v)  # type: ignore[return-value]
        raise TranslatorError("_get_content_type_param_info: branch without return {'name': <literal>}")

    chain: list[tuple[str, str]] = []
    fallback: str | None = None
    for top in fn.body:
        node: ast.stmt | None = top if isinstance(top, ast.If) else None
        while isinstance(node, ast.If):
            tt = node.test
            if not (isinstance(tt, ast.Compare) and isinstance(tt.left, ast.Name) and tt.left.id == "content_type"
                    and len(tt.ops) == 1 and isinstance(tt.ops[0], ast.Eq) and _const_str(tt.comparators[0])):
                raise TranslatorError("_get_content_type_param_info: unexpected test shape")
            chain.append((_const_str(tt.comparators[0]), ret_name(node.body)))  # type: ignore[arg-type]
            if len(node.orelse) == 1 and isinstance(node.orelse[0], ast.If):
                node = node.orelse[0]
            else:
                fallback = ret_name(node.orelse)
                node = None
    if [c for c, _ in chain] != ["application/json", "multipart/form-data", "application/x-www-form-urlencoded"] \
            or fallback is None:
        raise TranslatorError(f"_get_content_type_param_info: chain changed shape: {chain} / {fallback}")
    sig = _find_func(cls, "generate_implementation_signature")
    lits = [_const_str(n) for n in ast.walk(sig) if _const_str(n)]
    if not any(x and x.startswith("content_type: str") for x in lits):
        raise TranslatorError("generate_implementation_signature: `content_type: str` argument not found")
    return chain, fallback


def render() -> str:
    std, std_fb = _std_chain()
    multi, multi_fb = _multi_chain()
    d_std, d_multi = dict(std), dict(multi)
    L = ["(* GENERATED by harness/tables_C04.py from /repo/src — do not edit *)",
         "From Coq Require Import List NArith.", "Import ListNotations.", "Open Scope N_scope.", "",
         f"Definition s_json : list N := {cstr('application/json')}.",
         f"Definition s_multipart : list N := {cstr('multipart/form-data')}.",
         f"Definition s_form : list N := {cstr('application/x-www-form-urlencoded')}.",
         "(* parameter_processor.process_parameters: body variable of the standard method *)",
         f"Definition v_std_json : list N := {cstr(d_std['application/json'])}.",
         f"Definition v_std_multipart : list N := {cstr(d_std['multipart/form-data'])}.",
         f"Definition v_std_form : list N := {cstr(d_std['application/x-www-form-urlencoded'])}.",
         f"Definition v_std_other : list N := {cstr(std_fb)}.",
         "(* overload_generator._get_content_type_param_info: body variable per content type (dispatch) *)",
         f"Definition v_multi_json : list N := {cstr(d_multi['application/json'])}.",
         f"Definition v_multi_multipart : list N := {cstr(d_multi['multipart/form-data'])}.",
         f"Definition v_multi_form : list N := {cstr(d_multi['application/x-www-form-urlencoded'])}.",
         f"Definition v_multi_other : list N := {cstr(multi_fb)}.",
         f"Definition v_content_type : list N := {cstr('content_type')}.",
         f"Definition v_self : list N := {cstr('self')}.",
         ""]
    return "\n".join(L)
