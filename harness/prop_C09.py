"""C09 — generation is deterministic; re-running on unchanged input is a no-op.

PARTIAL.  What is proof (Coq, Properties/C09.v): permutation invariance of every inventoried order-relevant
set-iteration site (full since the fix of F09a), soundness of the diff decision (full for *.py files since
the fix of F09b/F09f; whole trees: F09g open), agreement of the force path with the temp-dir path and the rerun corollary (full since the fixes of F09c/F09d/F09e).  What is NOT a theorem and is only a differential oracle here: byte-level determinism of the whole
generator across PYTHONHASHSEED values, fresh/warm processes and output roots (sha256 of every file), and
the end-to-end `generate; generate(no force)` / existing-tree-differs runs.

Streams of cases (each goes through chk.decide with its own guard map):
  det     document x {PYTHONHASHSEED 0,1,2,random in fresh subprocesses, warm in-process twice, second root}
  history one spec PATH rewritten in place between warm in-process generations (A -> B -> A) vs fresh-process
          generations of A and B; non-force run over A's output while the file holds B must fail
  modes   (document, options, prior registry) : force run then non-force rerun; model predicts outcome + files
  e2e     force run, mutate the existing tree, non-force rerun must fail; Diff model on the (abbreviated) trees
  diff    random pairs of small trees in temp dirs -> the real ClientGenerator._show_diffs vs Diff.show_diffs
  site1   EndpointParameterProcessor.process_parameters with extract_url_variables forced to two orders
  site2   RenderContext.add_typing_imports_for_type with the word set forced to two orders + rendered imports

The implementation under test is framework.REPO (VERIF_REPO_ROOT, default /repo).  Mutation self-tests:
`python harness/prop_C09.py mutant <name>` copies REPO/src to build/mut/<name>/src with one seeded edit; run
`VERIF_REPO_ROOT=build/mut/<name> ./check C09` on it.  /repo is never written.
"""
from __future__ import annotations

import contextlib
import hashlib
import io
import json
import os
import re
import shutil
import subprocess
import sys
import tempfile
import textwrap
from concurrent.futures import ThreadPoolExecutor
from pathlib import Path
from typing import Any

from framework import BUILD, PY, REPO, Check, cbool, clist, cpair, cstr, load_corpus

SCRATCH = BUILD / "c09"

TRUSTED = [
    "Coq 8.16.1 kernel + vm_compute (witness theorems and correspondence evaluation)",
    "hand-written Gallina models coq/Model/Sites.v (two order-relevant loops + ImportCollector rendering) and "
    "coq/Model/Diff.v (_show_diffs, force vs temp-dir path over abstract emitters), tied to the code by this run's cases",
    "translator harness/tables_C09.py: the set-iteration / id()-in-string SITE INVENTORY is a syntactic "
    "over-approximation built with ast; a construct that does not look like a site would be missed — the "
    "hash-seed differential is the backstop",
    "whole-generator byte determinism is NOT proved: it is the differential oracle of this run "
    "(sha256 of every file across PYTHONHASHSEED 0/1/2/random, fresh vs warm process, two roots)",
    "file contents are compared as bytes; the model compares the code points of the (UTF-8) text (validated by the diff stream)",
]


# =====================================================================================================
# running the real generator (fresh subprocess under a chosen PYTHONHASHSEED, or this warm interpreter)
def gen_env(hashseed: str) -> dict:
    env = dict(os.environ)
    env["PYTHONPATH"] = f"{REPO}/src:{Path(__file__).resolve().parent}"
    env["PYTHONHASHSEED"] = hashseed
    env["PYOPENAPI_GEN_VERIF"] = "1"
    env["PYTHONDONTWRITEBYTECODE"] = "1"
    return env


def new_root(prefix: str = "r_") -> Path:
    SCRATCH.mkdir(parents=True, exist_ok=True)
    return Path(tempfile.mkdtemp(prefix=prefix, dir=SCRATCH))


class Run:
    def __init__(self, ok: bool, error: str | None, log: str):
        self.ok, self.error, self.log = ok, error, log


def write_spec(text: str, yaml_: bool) -> Path:
    d = new_root("spec_")
    p = d / ("spec.yaml" if yaml_ else "spec.json")
    p.write_text(text)
    return p


def run_generator(spec_text: str | None, root: Path, *, package: str = "client", core_package: str | None = None,
                  force: bool = True, seed: str | None = None, yaml_: bool = False, spec_path: Path | None = None) -> Run:
    """seed=None: in this (warm) interpreter; otherwise a fresh subprocess under PYTHONHASHSEED=seed.
    spec_path: generate from that existing file (the caller owns it) instead of a fresh temporary one."""
    sp = spec_path if spec_path is not None else write_spec(spec_text or "", yaml_)
    try:
        if seed is None:
            from pyopenapi_gen import generate_client
            import logging
            import warnings
            buf = io.StringIO()
            h = logging.StreamHandler(buf)
            logging.getLogger().addHandler(h)
            ok, err = False, None
            try:
                with contextlib.redirect_stdout(buf), contextlib.redirect_stderr(buf):
                    with warnings.catch_warnings(record=True) as w:
                        warnings.simplefilter("always")
                        generate_client(str(sp), str(root), package, core_package=core_package, force=force,
                                        no_postprocess=True, verbose=False)
                    for x in w:
                        buf.write(f"WARNING: {x.message}\n")
                ok = True
            except BaseException as e:  # noqa: BLE001
                if isinstance(e, KeyboardInterrupt):
                    raise
                err = f"{type(e).__name__}: {e}"[:600]
            finally:
                logging.getLogger().removeHandler(h)
            return Run(ok, err, buf.getvalue())
        code = textwrap.dedent(f"""
            import sys, warnings
            warnings.simplefilter('always')
            from pyopenapi_gen import generate_client
            try:
                generate_client({str(sp)!r}, {str(root)!r}, {package!r}, core_package={core_package!r},
                                force={force!r}, no_postprocess=True, verbose=False)
                print('@@OK')
            except BaseException as e:
                print('@@ERR ' + type(e).__name__ + ': ' + str(e)[:600].replace('\\n', ' '))
        """)
        p = subprocess.run([PY, "-c", code], env=gen_env(seed), capture_output=True, text=True, timeout=300)
        ok = "@@OK" in p.stdout
        err = None
        if not ok:
            m = [l for l in p.stdout.splitlines() if l.startswith("@@ERR")]
            err = m[0][6:] if m else f"exit {p.returncode}: {p.stderr[-300:]}"
        return Run(ok, err, p.stdout + p.stderr)
    finally:
        if spec_path is None:
            shutil.rmtree(sp.parent, ignore_errors=True)


def snapshot(root: Path, with_mtime: bool = False) -> dict[str, Any]:
    out: dict[str, Any] = {}
    for p in sorted(root.rglob("*")):
        if p.is_file() and "__pycache__" not in p.parts:
            h = hashlib.sha256(p.read_bytes()).hexdigest()[:16]
            out[str(p.relative_to(root))] = [h, p.stat().st_mtime_ns] if with_mtime else h
    return out


def norm_err(e: str | None, root: Path) -> str | None:
    return None if e is None else e.replace(str(root), "<root>")


# =====================================================================================================
# structured document generator (shared with prop_C19)
PATH_POOL = ["/pets", "/pets/{petId}", "/owners/{ownerId}/pets/{petId}", "/a/{alpha}/{beta}/{gamma}",
             "/items/{item_id}/tags/{tagName}", "/store/orders", "/store/orders/{orderId}", "/health",
             "/x/{p}/{q}", "/files/{name}"]
TAG_POOL = ["pets", "store", "admin"]
QUERY_POOL = [("limit", {"type": "integer"}), ("offset", {"type": "integer"}), ("q", {"type": "string"}),
              ("verbose", {"type": "boolean"}), ("ids", {"type": "array", "items": {"type": "string"}}),
              ("since", {"type": "string", "format": "date-time"})]
SCHEMA_NAMES = ["Pet", "Tag", "Owner", "Order", "Item", "Shape", "Status", "Page"]
PROP_POOL = ["id", "name", "label", "count", "created_at", "kind", "items", "owner", "meta", "active", "price", "ref"]


def gen_prop(rng, earlier: list[str]) -> dict:
    r = rng.random()
    if r < 0.18:
        return {"type": "string"}
    if r < 0.30:
        return {"type": "integer"}
    if r < 0.38:
        return {"type": "boolean"}
    if r < 0.44:
        return {"type": "number"}
    if r < 0.52:
        return {"type": "string", "format": rng.choice(["date-time", "date"])}
    if r < 0.60:
        return {"type": "string", "enum": rng.sample(["a", "b", "c", "dd"], rng.randint(1, 3))}
    if r < 0.72 and earlier:
        return {"$ref": f"#/components/schemas/{rng.choice(earlier)}"}
    if r < 0.82:
        it = {"$ref": f"#/components/schemas/{rng.choice(earlier)}"} if earlier and rng.random() < 0.6 else {"type": "string"}
        return {"type": "array", "items": it}
    if r < 0.90:
        return {"type": "object", "additionalProperties": {"type": rng.choice(["string", "integer"])}}
    if r < 0.96:
        return {"type": "object", "properties": {"x": {"type": "integer"}, "y": {"type": "string"}}}
    return {"type": "string", "nullable": True}


def gen_schemas(rng, n: int, cycles: bool = False, aliases: bool = True) -> dict:
    names = rng.sample(SCHEMA_NAMES, n)
    out: dict[str, Any] = {}
    for i, nm in enumerate(names):
        earlier = names[:i]
        r = rng.random()
        if r < 0.12 and earlier:
            out[nm] = {"allOf": [{"$ref": f"#/components/schemas/{rng.choice(earlier)}"},
                                 {"type": "object", "properties": {"extra": {"type": "string"}}}]}
        elif r < 0.20 and len(earlier) >= 2:
            a, b = rng.sample(earlier, 2)
            out[nm] = {"oneOf": [{"$ref": f"#/components/schemas/{a}"}, {"$ref": f"#/components/schemas/{b}"}]}
        elif r < 0.27:
            out[nm] = {"type": "string", "enum": ["on", "off", "idle"]}
        elif r < 0.32 and earlier:
            out[nm] = {"type": "array", "items": {"$ref": f"#/components/schemas/{rng.choice(earlier)}"}}
        elif r < 0.42 and earlier and aliases:
            out[nm] = {"$ref": f"#/components/schemas/{rng.choice(earlier)}"}   # top-level alias (registered under its own name)
        else:
            props = rng.sample(PROP_POOL, rng.randint(1, 5))
            sch: dict[str, Any] = {"type": "object", "properties": {p: gen_prop(rng, earlier) for p in props}}
            req = [p for p in props if rng.random() < 0.4]
            if req:
                sch["required"] = req
            if cycles and rng.random() < 0.15:
                sch["properties"]["parent"] = {"$ref": f"#/components/schemas/{nm}"}
            out[nm] = sch
    return out


def gen_operation(rng, path: str, method: str, opid: str, schemas: list[str], p_declared: float,
                  tags_mode: str = "any", skip_vars: bool = False, comp_refs: list[str] | None = None,
                  sse: float = 0.0, body_ref: str | None = None, tag_pool: list[str] | None = None,
                  multi2xx: float = 0.0) -> tuple[dict, list]:
    """returns (operation node, path-level parameter list contribution).  skip_vars: the path variables are
    declared at path level; comp_refs: names of components.parameters to reference; sse: probability of a
    text/event-stream success response (the only thing that puts two plain imports into one module)"""
    vars_ = [] if skip_vars else re.findall(r"{([^}]+)}", path)
    op: dict[str, Any] = {"operationId": opid}
    pool = tag_pool or TAG_POOL
    if tags_mode == "any":
        r = rng.random()
        if r < 0.55:
            op["tags"] = [rng.choice(pool)]
        elif r < 0.65:
            op["tags"] = rng.sample(TAG_POOL, 2)
    elif tags_mode == "single":
        if rng.random() < 0.7:
            op["tags"] = [rng.choice(TAG_POOL)]
    params = []
    for v in vars_:
        if rng.random() < p_declared:
            params.append({"name": v, "in": "path", "required": True,
                           "schema": {"type": rng.choice(["string", "integer"])}})
    for nm, sch in rng.sample(QUERY_POOL, rng.randint(0, 2)):
        params.append({"name": nm, "in": "query", "required": rng.random() < 0.3, "schema": sch})
    if rng.random() < 0.2:
        params.append({"name": "X-Trace-Id", "in": "header", "required": False, "schema": {"type": "string"}})
    for ref in comp_refs or []:
        params.append({"$ref": f"#/components/parameters/{ref}"})
    rng.shuffle(params)
    if params:
        op["parameters"] = params
    if body_ref is not None:
        op["requestBody"] = {"$ref": f"#/components/requestBodies/{body_ref}"}
    elif method in ("post", "put", "patch") and rng.random() < 0.8:
        r = rng.random()
        if r < 0.6 and schemas:
            body = {"application/json": {"schema": {"$ref": f"#/components/schemas/{rng.choice(schemas)}"}}}
        elif r < 0.75:
            body = {"application/json": {"schema": {"type": "object", "properties": {"v": {"type": "integer"}}}}}
        elif r < 0.88:
            body = {"multipart/form-data": {"schema": {"type": "object",
                                                       "properties": {"f": {"type": "string", "format": "binary"}}}}}
        else:
            body = {"application/x-www-form-urlencoded": {"schema": {"type": "object",
                                                                     "properties": {"a": {"type": "string"}}}}}
        op["requestBody"] = {"required": rng.random() < 0.7, "content": body}
    resps: dict[str, Any] = {}
    r = rng.random()
    if rng.random() < sse:
        resps["200"] = {"description": "event stream",
                        "content": {"text/event-stream": {"schema": rng.choice([{"type": "string"}, {"type": "object", "properties": {"msg": {"type": "string"}}}])}}}
    elif r < 0.25:
        resps["204"] = {"description": "no content"}
    else:
        code = "201" if method == "post" and rng.random() < 0.5 else "200"
        rr = rng.random()
        if rr < 0.5 and schemas:
            sch = {"$ref": f"#/components/schemas/{rng.choice(schemas)}"}
        elif rr < 0.7 and schemas:
            sch = {"type": "array", "items": {"$ref": f"#/components/schemas/{rng.choice(schemas)}"}}
        elif rr < 0.85:
            sch = {"type": "string"}
        else:
            sch = {"type": "object", "properties": {"ok": {"type": "boolean"}}}
        resps[code] = {"description": "ok", "content": {"application/json": {"schema": sch}}}
    if "text/event-stream" not in json.dumps(resps) and rng.random() < multi2xx:
        # two or more success codes with DIFFERENT bodies, written out of the 200 > 201 > 202 > 204 priority order
        bodies = [{"type": "string"}, {"type": "integer"}, {"type": "object", "properties": {"ok": {"type": "boolean"}}}]
        if schemas:
            bodies.append({"$ref": f"#/components/schemas/{schemas[0]}"})
        codes2 = rng.sample(["200", "201", "202"], rng.randint(2, 3))
        codes2.sort(reverse=rng.random() < 0.7)
        rng.shuffle(bodies)
        resps = {c: {"description": "ok " + c, "content": {"application/json": {"schema": b}}} for c, b in zip(codes2, bodies)}
        if rng.random() < 0.3:
            resps = {"204": {"description": "no content"}, **resps}
    for c in rng.sample(["400", "401", "404", "409", "422", "500", "503"], rng.randint(0, 3)):
        resps[c] = {"description": "error"}
    if rng.random() < 0.15:
        resps["default"] = {"description": "fallback"}
    op["responses"] = resps
    return op, []


COMPONENT_PARAMS = {
    # inline complex schemas: the parser promotes them to models named after the operation that uses them
    "Filter": {"name": "filter", "in": "query", "style": "deepObject", "explode": True,
               "schema": {"type": "object", "properties": {"status": {"type": "string"}, "min_age": {"type": "integer"}}}},
    "Sort": {"name": "sort", "in": "query",
             "schema": {"type": "array", "items": {"type": "string", "enum": ["name", "-name", "created"]}}},
    "PageSize": {"name": "page_size", "in": "query", "schema": {"type": "integer"}},
}


def gen_spec(rng, *, p_declared: float = 0.85, cycles: bool = False, collide: float = 0.0,
             tags_mode: str = "any", n_paths: tuple[int, int] = (1, 4), shared_params: float = 0.0,
             path_level: float = 0.0, sse: float = 0.0, shared_bodies: float = 0.0, spelled_tags: float = 0.0,
             multi2xx: float = 0.0) -> dict:
    """shared_params: probability that the document has components.parameters (with inline object / array-of-inline-enum
    schemas) referenced from operations of at least two different paths; path_level: probability per path (with
    template variables) that the variables and a header are declared as path-level `parameters`"""
    schemas = gen_schemas(rng, rng.randint(0, 4), cycles=cycles)
    names = list(schemas)
    paths: dict[str, Any] = {}
    k = 0
    used_ids: list[str] = []
    # one tag group written in two EQUALLY scored spellings on different operations (underscore vs hyphen, same case)
    tag_pool = TAG_POOL + ["order_items", "order-items", "order_items", "order-items"] if rng.random() < spelled_tags else None
    use_shared = rng.random() < shared_params
    # components.requestBodies (one with an inline object schema, one with a $ref schema) referenced by write
    # operations of at least two different paths: the promoted body model is named after the referencing operation
    use_bodies = rng.random() < shared_bodies
    if use_shared or use_bodies:
        n_paths = (max(2, n_paths[0]), max(2, n_paths[1]))
    chosen = rng.sample(PATH_POOL, rng.randint(*n_paths))
    for pi, path in enumerate(chosen):
        item: dict[str, Any] = {}
        vars_ = re.findall(r"{([^}]+)}", path)
        plevel = bool(vars_) and rng.random() < path_level
        if plevel:
            item["parameters"] = [{"name": v, "in": "path", "required": True, "schema": {"type": "integer"}} for v in vars_] + \
                                 [{"name": "X-Tenant", "in": "header", "required": rng.random() < 0.5, "schema": {"type": "string"}}]
        methods = rng.sample(["get", "post", "put", "delete"], rng.randint(1, 2))
        if use_bodies and pi < 2 and not ({"post", "put"} & set(methods)):
            methods[0] = ["post", "put"][pi]
        for mi, method in enumerate(methods):
            k += 1
            if used_ids and rng.random() < collide:
                opid = rng.choice(used_ids + [u + "_2" for u in used_ids])
            else:
                opid = rng.choice(["get", "list", "create", "update", "remove", "fetch"]) + rng.choice(
                    ["Pet", "Order", "Thing", "_item", "Owner"]) + (str(k) if rng.random() < 0.7 else "")
                while opid in used_ids:
                    opid += "X"
            used_ids.append(opid)
            refs: list[str] = []
            if use_shared:
                if mi == 0 and pi < 2:
                    refs = ["Filter", "Sort"] if rng.random() < 0.7 else [rng.choice(["Filter", "Sort"])]
                elif rng.random() < 0.4:
                    refs = rng.sample(list(COMPONENT_PARAMS), rng.randint(1, 2))
            bref = None
            if use_bodies and method in ("post", "put") and (pi < 2 or rng.random() < 0.5):
                bref = "WidgetBody" if (pi < 2 or not names or rng.random() < 0.6) else "RefBody"
            op, _ = gen_operation(rng, path, method, opid, names, p_declared, tags_mode, skip_vars=plevel,
                                  comp_refs=refs, sse=sse, body_ref=bref, tag_pool=tag_pool, multi2xx=multi2xx)
            item[method] = op
        paths[path] = item
    d: dict[str, Any] = {"openapi": "3.0.3", "info": {"title": "T", "version": "1.0"}, "paths": paths}
    comps: dict[str, Any] = {}
    if schemas:
        comps["schemas"] = schemas
    if use_shared:
        comps["parameters"] = json.loads(json.dumps(COMPONENT_PARAMS))
    if use_bodies:
        comps["requestBodies"] = {"WidgetBody": {"required": True, "content": {"application/json": {"schema": {
            "type": "object", "required": ["name"], "properties": {"name": {"type": "string"}, "size": {"type": "integer"}}}}}}}
        if names:
            comps["requestBodies"]["RefBody"] = {"required": False, "content": {"application/json": {"schema": {
                "$ref": f"#/components/schemas/{names[0]}"}}}}
    if comps:
        d["components"] = comps
    return d


# ----- abstraction of a document for the F09a guard (per operation: declared names, path variables)
def body_param_name(op: dict) -> str | None:
    rb = op.get("requestBody")
    if not isinstance(rb, dict):
        return None
    cts = list((rb.get("content") or {}).keys())
    if "multipart/form-data" in cts:
        return "files"
    if "application/json" in cts:
        return "body"
    if "application/x-www-form-urlencoded" in cts:
        return "form_data"
    return "bytes_content" if cts else None


def san(name: str) -> str:
    from pyopenapi_gen.core.utils import NameSanitizer
    return NameSanitizer.sanitize_method_name(name)


def abstract_ops(spec: dict) -> list[dict]:
    out = []
    for path, item in (spec.get("paths") or {}).items():
        if not isinstance(item, dict):
            continue
        for method, op in item.items():
            if method.upper() not in ("GET", "POST", "PUT", "DELETE", "PATCH", "HEAD", "OPTIONS", "TRACE") or not isinstance(op, dict):
                continue
            cp = ((spec.get("components") or {}).get("parameters") or {})
            raw = list(item.get("parameters", [])) + list(op.get("parameters", []))
            ps = [cp.get(p["$ref"].split("/")[-1], {}) if isinstance(p, dict) and "$ref" in p else p for p in raw]
            ps = [p for p in ps if isinstance(p, dict) and "name" in p]
            declared = [[san(p["name"]), bool(p.get("required", False))] for p in ps]
            b = body_param_name(op)
            if b and b not in [d[0] for d in declared]:
                declared.append([b, bool(op["requestBody"].get("required", False))])
            vars_ = list(dict.fromkeys(re.findall(r"{([^}]+)}", path)))
            out.append({"declared": declared, "vars": vars_, "san": [[v, san(v)] for v in vars_]})
    return out


# =====================================================================================================
# stream det: whole-generator determinism (differential; NOT a theorem)
VARIANTS_QUICK = [("seed0", "0"), ("seed1", "1"), ("seed2", "2"), ("seedR", "random")]


def run_det(spec: dict, extra_seeds: list[str] | None = None, package: str = "client",
            core_package: str | None = None) -> dict:
    text = json.dumps(spec)
    variants = list(VARIANTS_QUICK) + [(f"seed{s}", s) for s in (extra_seeds or [])]
    roots = {name: new_root("det_") for name, _ in variants}
    # distinct parent depth for the second output root
    deep = new_root("det_") / "another" / "place"
    deep.mkdir(parents=True)
    snaps: dict[str, Any] = {}
    status: dict[str, Any] = {}
    try:
        with ThreadPoolExecutor(max_workers=8) as ex:
            futs = {name: ex.submit(run_generator, text, roots[name], seed=s, package=package, core_package=core_package)
                    for name, s in variants}
            for name, f in futs.items():
                r = f.result()
                status[name] = "ok" if r.ok else norm_err(r.error, roots[name])
                snaps[name] = snapshot(roots[name])
        for name, root in (("warm1", new_root("det_")), ("warm2_otherroot", deep)):
            roots[name] = root
            r = run_generator(text, root, seed=None, package=package, core_package=core_package)
            status[name] = "ok" if r.ok else norm_err(r.error, root)
            snaps[name] = snapshot(root)
        ref = "seed0"
        fails: list[str] = []
        soft: list[str] = []
        differing: dict[str, list[str]] = {}
        for name in snaps:
            if name == ref:
                continue
            if status[name] != status[ref]:
                fails.append(f"outcome differs: {ref}={status[ref]!r} {name}={status[name]!r}")
                continue
            d = sorted(k for k in set(snaps[ref]) | set(snaps[name]) if snaps[ref].get(k) != snaps[name].get(k))
            if d:
                differing[name] = d
                fails.append(f"files differ between {ref} and {name}: {d[:6]}")
        return {"status": status, "differing": differing, "hard": fails, "soft": soft,
                "n_files": len(snaps[ref])}
    finally:
        for r in roots.values():
            shutil.rmtree(r, ignore_errors=True)
        shutil.rmtree(deep.parent.parent, ignore_errors=True)


# =====================================================================================================
# stream history: ONE spec path rewritten between generations in this warm process (A -> B -> A); each result must
# equal the fresh-process generation of the same document, and a non-force run over A's output once the file holds
# B must fail.  No model: every failure here is a violation.
def make_B(spec_a: dict) -> dict:
    b = json.loads(json.dumps(spec_a))
    b["paths"]["/history_extra"] = {"get": {"operationId": "historyExtra", "responses": {"200": {"description": "ok"}, "418": {"description": "teapot"}}}}
    b["info"]["title"] = "T (edited)"
    return b


def run_history_case(inp: dict) -> dict:
    A, B = inp["A"], make_B(inp["A"])
    base = new_root("hist_")
    P = base / "api.json"
    roots = {n: new_root("hist_") for n in ("freshA", "freshB", "warmA", "warmB", "warmA2")}
    try:
        with ThreadPoolExecutor(max_workers=2) as ex:
            fa = ex.submit(run_generator, json.dumps(A), roots["freshA"], seed="0")
            fb = ex.submit(run_generator, json.dumps(B), roots["freshB"], seed="0")
            ra, rb = fa.result(), fb.result()
        P.write_text(json.dumps(A))
        w1 = run_generator(None, roots["warmA"], spec_path=P)
        s_warmA = snapshot(roots["warmA"])
        P.write_text(json.dumps(B))
        w2 = run_generator(None, roots["warmB"], spec_path=P)
        before = snapshot(roots["warmA"], with_mtime=True)
        stale = run_generator(None, roots["warmA"], spec_path=P, force=False)
        after = snapshot(roots["warmA"], with_mtime=True)
        P.write_text(json.dumps(A))
        w3 = run_generator(None, roots["warmA2"], spec_path=P)
        sA, sB = snapshot(roots["freshA"]), snapshot(roots["freshB"])
        fails = []
        status = {"freshA": ra.ok, "freshB": rb.ok, "warmA": w1.ok, "warmB": w2.ok, "warmA2": w3.ok}
        for name, snap, ref, okw, okf in (("A (first)", s_warmA, sA, w1.ok, ra.ok), ("B (after A at the same path)", snapshot(roots["warmB"]), sB, w2.ok, rb.ok),
                                          ("A (after B at the same path)", snapshot(roots["warmA2"]), sA, w3.ok, ra.ok)):
            if okw != okf:
                fails.append(f"history: generation of {name} {'succeeded' if okw else 'failed'} in the warm process but not in a fresh one")
            else:
                d = sorted(k for k in set(snap) | set(ref) if snap.get(k) != ref.get(k))
                if d:
                    fails.append(f"history: output for document {name} differs from a fresh-process generation of the same document: {d[:6]}")
        common_differs = sorted(k for k in set(sA) & set(sB) if k.endswith(".py") and sA[k] != sB[k])
        if ra.ok and rb.ok and common_differs and stale.ok:
            fails.append(f"history: the spec file now holds B, the existing output is A's (common *.py files differ: {common_differs[:4]}), "
                         f"but the non-force run succeeded")
        if before != after:
            fails.append("history: the non-force run modified the existing tree")
        return {"input": {"kind": "history", **inp}, "obs": {"status": status, "stale_rerun_ok": stale.ok, "common_differs": common_differs[:6]},
                "oracle_fail": fails}
    finally:
        for r in list(roots.values()) + [base]:
            shutil.rmtree(r, ignore_errors=True)


def decide_oracle_only(chk: Check, cases: list[dict], relation: str) -> None:
    """streams without a model: every oracle failure is a failing input (a violation).  The shared decide() treats
    `codes=None` as 'model could not be evaluated' and then does not present oracle failures as failing inputs, so an
    explicit all-zero code list is passed (no mismatch bit, no guard bit) and the cases are not counted as validated."""
    chk.decide(cases, [0] * len(cases), {}, relation)
    chk.cov["traces_validated_against_impl"] -= len(cases)


def c_params(ps: list) -> str:
    return clist(cpair(cstr(n), cbool(r)) for n, r in ps)


# =====================================================================================================
# stream modes: force run, then non-force rerun; the model predicts (outcome, reported files)
def differing_from_log(log: str, root: Path) -> list[str]:
    out = set()
    for m in re.finditer(r"^Only in (newly generated|existing) output: (\S+)", log, re.M):
        out.add(("only-new:" if m.group(1).startswith("newly") else "only-old:") + m.group(2))
    for m in re.finditer(r"^(?:--- |Files differ only in line endings: )(\S+)", log, re.M):
        p = m.group(1)
        try:
            out.add(str(Path(p).relative_to(root.resolve())))
        except ValueError:
            out.add(p)
    return sorted(out)


def mode_abstract(spec: dict, package: str, core_package: str | None, found: list) -> dict:
    ops = []
    codes = set()
    for path, item in spec["paths"].items():
        for method, op in item.items():
            tags = op.get("tags") or ["default"]
            ops.append([tags[0], op["operationId"]])
            for c in op.get("responses", {}):
                if str(c).isdigit() and 400 <= int(c) <= 599:
                    codes.add(int(c))
    core = (core_package or package + ".core").split(".")
    return {"client": package, "out": package.split("."), "core": core, "core_given": bool(core_package),
            "shared": True,  # since the fix of F11a every core below the project root is shared
            "ops": ops, "codes": sorted(codes), "found": found}


def gen_mode_case(rng) -> dict:
    """documents restricted to what Diff.v's abstraction covers: one tag per operation (a lower-case module
    name), snake_case operation ids (sanitize_method_name is the identity on them)"""
    n = rng.randint(1, 4)
    ids = []
    for i in range(n):
        if ids and rng.random() < 0.35:
            ids.append(rng.choice(ids + [x + "_2" for x in ids]))
        else:
            ids.append(rng.choice(["foo", "bar", "get_it", "list_all"]) + (str(i) if rng.random() < 0.5 else ""))
    paths = {}
    for i, opid in enumerate(ids):
        op: dict[str, Any] = {"operationId": opid, "responses": {"200": {"description": "ok"}}}
        for c in rng.sample(["400", "404", "409", "500"], rng.randint(0, 2)):
            op["responses"][c] = {"description": "e"}
        if rng.random() < 0.6:
            op["tags"] = [rng.choice(TAG_POOL)]
        paths[f"/r{i}"] = {"get": op}
    spec = {"openapi": "3.0.3", "info": {"title": "T", "version": "1"}, "paths": paths}
    r = rng.random()
    if r < 0.45:
        cfg = {"package": "client", "core_package": None, "others": []}
    elif r < 0.55:
        cfg = {"package": "pkg.sub.client", "core_package": None, "others": []}
    elif r < 0.70:
        cfg = {"package": "client", "core_package": "client.core", "others": []}
    elif r < 0.85:
        cfg = {"package": "ca", "core_package": "shared.core", "others": []}
    elif r < 0.93:
        cfg = {"package": "ca", "core_package": "shared.core",
               "others": [{"package": "cb", "codes": rng.sample(["403", "404", "410", "502"], rng.randint(1, 2))}]}
    elif r < 0.96:  # core nested two packages inside the client, another client of that core generated in between (F09h)
        cfg = {"package": "c1", "core_package": "c1.x.core", "others": [],
               "between": [{"package": "c2", "codes": rng.sample(["403", "404", "410", "502"], rng.randint(1, 2))}] if rng.random() < 0.7 else []}
    else:  # a core three levels deep is shared too (and keeps a registry) since the fix of F11a
        cfg = {"package": "ca", "core_package": "libs.common.core",
               "others": [{"package": "cb", "codes": rng.sample(["403", "404", "410", "502"], rng.randint(1, 2))}] if rng.random() < 0.6 else []}
    return {"spec": spec, **cfg}


def run_mode_case(inp: dict) -> dict:
    root = new_root("mode_")
    try:
        for o in inp.get("others", []):
            ospec = {"openapi": "3.0.3", "info": {"title": "O", "version": "1"},
                     "paths": {"/o": {"get": {"operationId": "other_op",
                                              "responses": {"200": {"description": "ok"},
                                                            **{c: {"description": "e"} for c in o["codes"]}}}}}}
            r0 = run_generator(json.dumps(ospec), root, package=o["package"], core_package=inp["core_package"])
            assert r0.ok, r0.error
        core_dir = root.joinpath(*(inp["core_package"] or inp["package"] + ".core").split("."))
        regp = core_dir / ".exception_registry.json"
        found = []
        if regp.exists():
            found = [[k, v] for k, v in json.loads(regp.read_text()).items()]
        text = json.dumps(inp["spec"])
        r1 = run_generator(text, root, package=inp["package"], core_package=inp["core_package"], force=True)
        for o in inp.get("between", []):   # another client of the same core, generated after this client and before its rerun
            ospec = {"openapi": "3.0.3", "info": {"title": "O", "version": "1"},
                     "paths": {"/o": {"get": {"operationId": "other_op",
                                              "responses": {"200": {"description": "ok"},
                                                            **{c: {"description": "e"} for c in o["codes"]}}}}}}
            r0 = run_generator(json.dumps(ospec), root, package=o["package"], core_package=inp["core_package"])
            assert r0.ok, r0.error
        if inp.get("between") and regp.exists():
            found = [[k, v] for k, v in json.loads(regp.read_text()).items()]
        before = snapshot(root, with_mtime=True)
        r2 = run_generator(text, root, package=inp["package"], core_package=inp["core_package"], force=False)
        after = snapshot(root, with_mtime=True)
        out_rel = inp["package"].replace(".", "/")
        core_rel = (inp["core_package"] or inp["package"] + ".core").replace(".", "/")
        reported = []
        for x in differing_from_log(r2.log, root):   # one-sided files are printed relative to the compared directory
            if x.startswith(("only-old:", "only-new:")):
                rel = x.split(":", 1)[1]
                base = out_rel if (x.startswith("only-new:") or (root / out_rel / rel).exists()) else core_rel
                x = f"{base}/{rel}"
            reported.append(x)
        reported = sorted(set(reported))
        obs = {"first_ok": r1.ok, "rerun_ok": r2.ok, "rerun_error": norm_err(r2.error, root), "reported": reported,
               "untouched": before == after}
        fails = []
        if not r1.ok:
            fails.append(f"first (force) generation failed: {r1.error}")
        else:
            if not r2.ok:
                fails.append(f"rerun without force over an up-to-date output failed: {obs['rerun_error']}")
            if reported:
                fails.append(f"rerun reported differences in {reported}")
            if before != after:
                ch = sorted(k for k in set(before) | set(after) if before.get(k) != after.get(k))
                fails.append(f"rerun touched files: {ch[:6]}")
        return {"input": {"kind": "modes", **inp}, "abs": {**mode_abstract(inp["spec"], inp["package"], inp["core_package"], found),
                                                          "touched": bool(inp.get("between"))},
                "obs": obs, "oracle_fail": fails}
    finally:
        shutil.rmtree(root, ignore_errors=True)


def c_path(p: list[str]) -> str:
    return clist(cstr(x) for x in p)


def c_mode_case(c: dict) -> str:
    a, o = c["abs"], c["obs"]
    g = (f"{{| g_client := {cstr(a['client'])}; g_out := {c_path(a['out'])}; g_core := {c_path(a['core'])}; "
         f"g_core_given := {cbool(a['core_given'])}; g_shared := {cbool(a['shared'])}; "
         f"g_ops := {clist(cpair(cstr(t), cstr(i)) for t, i in a['ops'])}; "
         f"g_codes := {clist(str(x) for x in a['codes'])} |}}")
    found = clist(cpair(cstr(k), clist(str(x) for x in v)) for k, v in a["found"])
    rep = clist(c_path(r.split("/")) for r in o["reported"])
    return f"(({g}, {found}, {cbool(a.get('touched', False))}), ({cbool(o['rerun_ok'])}, {rep}))"


# =====================================================================================================
# stream diff: the real _show_diffs on random pairs of small trees
NAMES = ["a.py", "b.py", "__init__.py", "c.txt", "py.typed", "d.pyi", ".py", "e.PY", "x.py.bak", "mod.py"]
DIRS = [[], ["sub"], ["sub", "deep"], ["pkg_py"], ["endpoints"]]  # (a DIRECTORY named *.py makes _show_diffs raise IsADirectoryError: outside the model)
FRAGS = ["x = 1", "y = 2", "", "def f():", "    pass", "# c", "z"]
SEPS = ["\n", "\n", "\n", "\r\n", "\r", "\x0b", "\x0c", "\x1c", "\x1d", "\x1e", "\x85", " ", " ", "\n\n"]


def gen_text(rng) -> str:
    n = rng.randint(0, 4)
    s = ""
    for i in range(n):
        s += rng.choice(FRAGS)
        if i < n - 1 or rng.random() < 0.7:
            s += rng.choice(SEPS)
    return s


def mutate_text(rng, s: str) -> str:
    r = rng.random()
    if r < 0.25:
        return s
    if r < 0.40:
        return s.replace("\n", "\r\n")
    if r < 0.50:
        return s.rstrip("\n")
    if r < 0.60:
        return s + "\n"
    if r < 0.70:
        return s.replace("\r\n", "\n").replace("\r", "\n")
    if r < 0.85:
        return s + rng.choice(FRAGS) + "\n"
    return gen_text(rng)


def gen_tree_pair(rng) -> dict:
    files = {}
    for _ in range(rng.randint(0, 5)):
        d = rng.choice(DIRS)
        n = rng.choice(NAMES)
        files["/".join(d + [n])] = gen_text(rng)
    # a file may not sit where a directory is
    files = {k: v for k, v in files.items() if not any(o != k and o.startswith(k + "/") for o in files)}
    old = dict(files)
    new = {}
    for k, v in files.items():
        r = rng.random()
        if r < 0.12:
            continue  # only in old
        new[k] = mutate_text(rng, v) if rng.random() < 0.6 else v
    for _ in range(rng.randint(0, 2)):
        k = "/".join(rng.choice(DIRS) + [rng.choice(NAMES)])
        if k not in old and not any(o.startswith(k + "/") or k.startswith(o + "/") for o in list(old) + list(new)):
            new[k] = gen_text(rng)
    if rng.random() < 0.15:
        for k in list(old):
            if rng.random() < 0.5 and k in new:
                pass
    return {"old": sorted(old.items()), "new": sorted(new.items())}


def write_tree(root: Path, files: list) -> None:
    for rel, text in files:
        p = root / rel
        p.parent.mkdir(parents=True, exist_ok=True)
        with open(p, "w", encoding="utf-8", newline="") as f:   # newline="": write the characters as they are
            f.write(text)


def real_show_diffs(old: list, new: list) -> tuple[bool, list[str]]:
    from pyopenapi_gen.generator.client_generator import ClientGenerator
    base = new_root("diff_")
    try:
        od, nd = base / "old", base / "new"
        od.mkdir()
        nd.mkdir()
        write_tree(od, old)
        write_tree(nd, new)
        buf = io.StringIO()
        with contextlib.redirect_stdout(buf):
            res = ClientGenerator(verbose=False)._show_diffs(str(od), str(nd))
        return bool(res), differing_from_log(buf.getvalue(), od)
    finally:
        shutil.rmtree(base, ignore_errors=True)


def diff_oracle(old: list, new: list, reported: bool) -> list[str]:
    """the property's own statement: no differences reported <=> the existing tree is what would be generated"""
    same = dict(old) == dict(new)
    if same and reported:
        return ["differences reported although the existing tree equals the new one byte for byte"]
    if not same and not reported:
        o, n = dict(old), dict(new)
        ch = sorted(k for k in set(o) | set(n) if o.get(k) != n.get(k))
        return [f"no differences reported although the existing tree differs from the new one in {ch[:5]}"]
    return []


def c_tree(files: list) -> str:
    return clist(cpair(c_path(rel.split("/")), cstr(text)) for rel, text in files)


def run_diff_case(inp: dict) -> dict:
    rep, which = real_show_diffs(inp["old"], inp["new"])
    return {"input": {"kind": "diff", **inp}, "obs": {"has_diff": rep, "reported": which},
            "oracle_fail": diff_oracle(inp["old"], inp["new"], rep)}


def c_diff_case(c: dict) -> str:
    i = c["input"]
    return f"(({c_tree(i['old'])}, {c_tree(i['new'])}), {cbool(c['obs']['has_diff'])})"


# =====================================================================================================
# stream e2e: force run, mutate the existing tree, non-force rerun must fail
E2E_MUTATIONS = ["modify_py", "delete_py", "stale_py", "crlf", "strip_final_nl", "nonpy_change", "nonpy_delete", "none",
                 "recreate_shuffled", "registry_garbage", "delete_root_init", "delete_root_init_and_edit", "extra_nonpy_dir"]


def read_tree(root: Path, sub: Path) -> dict[str, str]:
    out = {}
    for p in sorted(sub.rglob("*")):
        if p.is_file() and "__pycache__" not in p.parts:
            with open(p, encoding="utf-8", newline="") as f:
                out[str(p.relative_to(sub))] = f.read()
    return out


def run_e2e_case(inp: dict) -> dict:
    """inp: {spec, mutation, pick}.  Documents here satisfy the modes guard (default options, no colliding ids),
    so the pristine force output is what the temp-dir path regenerates (checked: mutation 'none' must pass)."""
    root = new_root("e2e_")
    try:
        text = json.dumps(inp["spec"])
        r1 = run_generator(text, root, force=True)
        assert r1.ok, r1.error
        out = root / "client"
        pristine = read_tree(root, out)
        small_py = sorted(k for k, v in pristine.items() if k.endswith(".py") and "\n" in v and len(v) < 2500
                          and "/core/" not in "/" + k)
        # (the registry is INPUT of the next run since the fix of F09d - it is copied into the temp tree and parsed -, so it
        #  is mutated only by the dedicated "registry_garbage" case)
        nonpy = sorted(k for k in pristine if not k.endswith(".py") and not k.endswith(".exception_registry.json"))
        mut = inp["mutation"]
        pick = inp["pick"]
        target = None
        if mut == "modify_py":
            target = small_py[pick % len(small_py)]
            (out / target).write_text(pristine[target] + "# edited by hand\n")
        elif mut == "delete_py":
            target = small_py[pick % len(small_py)]
            (out / target).unlink()
        elif mut == "stale_py":
            target = "models/stale_model.py"
            (out / target).write_text("x = 1\n")
        elif mut == "crlf":
            target = small_py[pick % len(small_py)]
            with open(out / target, "w", newline="") as f:
                f.write(pristine[target].replace("\n", "\r\n"))
        elif mut == "strip_final_nl":
            cands = [k for k in small_py if pristine[k].endswith("\n") and not pristine[k].endswith("\n\n")] or small_py
            target = cands[pick % len(cands)]
            with open(out / target, "w", newline="") as f:
                f.write(pristine[target][:-1])
        elif mut == "nonpy_change":
            target = nonpy[pick % len(nonpy)]
            (out / target).write_text(pristine[target] + "junk")
        elif mut == "nonpy_delete":
            target = nonpy[pick % len(nonpy)]
            (out / target).unlink()
        elif mut == "delete_root_init":
            target = "__init__.py"
            (out / target).unlink()
        elif mut == "delete_root_init_and_edit":
            target = small_py[pick % len(small_py)]
            (out / "__init__.py").unlink()
            (out / target).write_text(pristine[target] + "# edited by hand\n")
        elif mut == "extra_nonpy_dir":
            target = "notes/TODO.txt"
            (out / "notes").mkdir()
            (out / target).write_text("keep me\n")
        elif mut == "registry_garbage":
            target = "core/.exception_registry.json"
            (out / target).write_text(pristine[target] + "junk")
        elif mut == "recreate_shuffled":
            # same bytes, but the directory entries are created in a different order (file-system listing order differs
            # on file systems that list in creation / hash order): the rerun must still succeed and report nothing
            import random as _r
            rnd = _r.Random(pick)
            bak = root / "client_bak"
            out.rename(bak)
            files = sorted(p for p in bak.rglob("*") if p.is_file())
            rnd.shuffle(files)
            for p in files:
                dst = out / p.relative_to(bak)
                dst.parent.mkdir(parents=True, exist_ok=True)
                dst.write_bytes(p.read_bytes())
            shutil.rmtree(bak)
        existing = read_tree(root, out)
        before = snapshot(root, with_mtime=True)
        r2 = run_generator(text, root, force=False)
        after = snapshot(root, with_mtime=True)
        differs = existing != pristine
        fails = []
        if differs and r2.ok:
            fails.append(f"existing output differs from what would be generated ({mut} {target}) but the non-force run succeeded")
        if not differs and not r2.ok:
            fails.append(f"up-to-date output but the non-force run failed: {r2.error}")
        if before != after:
            fails.append("non-force run modified the existing tree")

        # abbreviated trees for the model: identical files are replaced by a short stand-in (equal bytes => equal lines)
        def abbr(t: dict[str, str], other: dict[str, str]) -> list:
            return sorted((k, ("=" + hashlib.sha256(v.encode()).hexdigest()[:8]) if other.get(k) == v else v)
                          for k, v in t.items())
        return {"input": {"kind": "e2e", **inp}, "target": target,
                "old": abbr(existing, pristine), "new": abbr(pristine, existing),
                "modelled": r2.ok or "Differences found" in (r2.error or ""),
                "obs": {"rerun_ok": r2.ok, "error": norm_err(r2.error, root), "has_diff": not r2.ok,
                        "reported": differing_from_log(r2.log, root)},
                "oracle_fail": fails}
    finally:
        shutil.rmtree(root, ignore_errors=True)


def c_e2e_case(c: dict) -> str:
    return f"(({c_tree(c['old'])}, {c_tree(c['new'])}), {cbool(c['obs']['has_diff'])})"


# =====================================================================================================
# stream site1: process_parameters with the url-variable set forced to two iteration orders
VAR_POOL = ["alpha", "beta", "gamma", "delta", "petId", "item-id", "tagName", "x", "owner_id", "class"]


def gen_site1(rng) -> dict:
    vars_ = rng.sample(VAR_POOL, rng.randint(0, 4))
    declared = []
    for v in vars_:
        if rng.random() < 0.55:
            declared.append([v, "path", True])
    for nm in rng.sample(["limit", "q", "verbose", "alpha", "X-Trace"], rng.randint(0, 2)):
        if nm not in [d[0] for d in declared]:
            declared.append([nm, rng.choice(["query", "header"]), rng.random() < 0.4])
    rng.shuffle(declared)
    o1 = list(vars_)
    o2 = list(vars_)
    rng.shuffle(o1)
    rng.shuffle(o2)
    return {"declared": declared, "order1": o1, "order2": o2, "body": rng.random() < 0.3}


def run_site1_case(inp: dict) -> dict:
    from pyopenapi_gen import HTTPMethod, IROperation, IRParameter, IRRequestBody, IRSchema
    from pyopenapi_gen.context.render_context import RenderContext
    from pyopenapi_gen.visit.endpoint.processors import parameter_processor as pp
    path = "/r" + "".join("/{%s}" % v for v in inp["order1"])
    outs = []
    orig = pp.extract_url_variables
    try:
        for order in (inp["order1"], inp["order2"]):
            assert set(orig(path)) == set(order)
            pp.extract_url_variables = lambda p, _o=order: list(_o)  # same elements, chosen iteration order
            rb = None
            if inp["body"]:
                rb = IRRequestBody(required=True, content={"application/json": IRSchema(name=None, type="object")})
            op = IROperation(operation_id="op", method=HTTPMethod.GET, path=path, summary=None, description=None,
                             parameters=[IRParameter(name=n, param_in=loc, required=req, schema=IRSchema(name=None, type="string"))
                                         for n, loc, req in inp["declared"]],
                             request_body=rb, responses=[], tags=[])
            ps, _, _ = pp.EndpointParameterProcessor().process_parameters(op, RenderContext())
            outs.append([p["name"] for p in ps])
    finally:
        pp.extract_url_variables = orig
    declared = [[san(n), req] for n, _, req in inp["declared"]]
    if inp["body"] and "body" not in [d[0] for d in declared]:
        declared.append(["body", True])
    fails = []
    if outs[0] != outs[1]:
        fails.append(f"signature order depends on set iteration order: {outs[0]} vs {outs[1]}")
    return {"input": {"kind": "site1", **inp}, "abs": {"declared": declared, "san": [[v, san(v)] for v in inp["order1"]]},
            "obs": outs, "oracle_fail": fails}


def c_site1_case(c: dict) -> str:
    i, a = c["input"], c["abs"]
    return (f"(({clist(cpair(cstr(x), cstr(y)) for x, y in a['san'])}, {c_params(a['declared'])}, "
            f"{clist(cstr(v) for v in i['order1'])}, {clist(cstr(v) for v in i['order2'])}), "
            f"({clist(cstr(x) for x in c['obs'][0])}, {clist(cstr(x) for x in c['obs'][1])}))")


# =====================================================================================================
# stream site2: add_typing_imports_for_type with the word set forced to two iteration orders
TYPE_ATOMS = ["str", "int", "Any", "Pet", "Tag", "Owner", "datetime.datetime", "datetime.date", "date", "bytes",
              "Literal", "Mapping", "Unknown", "UUID"]
TYPE_CTORS = ["List", "Optional", "Dict", "Union", "Sequence", "Tuple", "Set", "AsyncIterator"]


def gen_type_str(rng, depth: int = 0) -> str:
    if depth > 2 or rng.random() < 0.35:
        return rng.choice(TYPE_ATOMS)
    c = rng.choice(TYPE_CTORS)
    if c in ("Dict", "Union", "Tuple"):
        return f"{c}[{gen_type_str(rng, depth + 1)}, {gen_type_str(rng, depth + 1)}]"
    return f"{c}[{gen_type_str(rng, depth + 1)}]"


class _OrderedFake(list):
    def update(self, it):
        for x in it:
            if x not in self:
                self.append(x)

    def add(self, x):
        if x not in self:
            self.append(x)


def _collector_state(ctx) -> dict:
    ic = ctx.import_collector
    return {"abs": [[m, sorted(ns)] for m, ns in ic.imports.items()],
            "rel": [[m, sorted(ns)] for m, ns in ic.relative_imports.items()],
            "plain": sorted(ic.plain_imports)}


def _site2_ctx(current: str):
    from pyopenapi_gen import IRSchema
    from pyopenapi_gen.context.render_context import RenderContext
    base = "/proj"
    schemas = {}
    for nm in ("Pet", "Tag", "Owner"):
        s = IRSchema(name=nm, type="object")
        s.generation_name = nm
        s.final_module_stem = nm.lower()
        schemas[nm] = s
    ctx = RenderContext(core_package_name="client.core", package_root_for_generated_code=f"{base}/client",
                        overall_project_root=base, parsed_schemas=schemas, output_package_name="client")
    ctx.set_current_file(f"{base}/client/{current}")
    return ctx


def _run_site2(type_str: str, current: str, words_filter) -> tuple[dict, str]:
    import pyopenapi_gen.context.render_context as rc

    def fake_set(it=None):
        if it is None:
            return _OrderedFake()
        return _OrderedFake(words_filter(list(dict.fromkeys(it))))
    ctx = _site2_ctx(current)
    rc.set = fake_set  # module-global shadow of the builtin, only while this call runs
    try:
        ctx.add_typing_imports_for_type(type_str)
    finally:
        del rc.set
    return _collector_state(ctx), ctx.import_collector.get_formatted_imports()


def run_site2_case(inp: dict) -> dict:
    from pyopenapi_gen.context.import_collector import _is_stdlib
    ts, cur = inp["type"], inp["current"]
    words = list(dict.fromkeys(re.findall(r"\b([A-Za-z_][A-Za-z0-9_]*)\b", re.sub(r"\bdatetime\.(?:date|datetime)\b", "", ts))))
    o1 = sorted(words, key=lambda w: inp["perm1"].index(w) if w in inp["perm1"] else 99)
    o2 = sorted(words, key=lambda w: inp["perm2"].index(w) if w in inp["perm2"] else 99)
    c0, _ = _run_site2(ts, cur, lambda ws: [])
    table = []
    for w in words:
        st, _ = _run_site2(ts, cur, lambda ws, _w=w: [x for x in ws if x == _w])
        act = ["none"]
        for kind in ("abs", "rel"):
            before = {m: set(ns) for m, ns in c0[kind]}
            for m, ns in st[kind]:
                new = set(ns) - before.get(m, set())
                if new:
                    act = [kind, m, sorted(new)[0]]
        newp = set(st["plain"]) - set(c0["plain"])
        if newp:
            act = ["plain", sorted(newp)[0]]
        table.append([w, act])
    _, t1 = _run_site2(ts, cur, lambda ws: [x for x in o1 if x in ws])
    _, t2 = _run_site2(ts, cur, lambda ws: [x for x in o2 if x in ws])
    mods = {m for m, _ in c0["abs"]} | {a[1] for _, a in table if a[0] == "abs"}
    fails = []
    if t1 != t2:
        fails.append(f"rendered imports depend on set iteration order: {t1!r} vs {t2!r}")
    return {"input": {"kind": "site2", **inp}, "abs": {"c0": c0, "table": table, "o1": o1, "o2": o2,
                                                        "stdlib": sorted(m for m in mods if _is_stdlib(m))},
            "obs": [t1, t2], "oracle_fail": fails}


def c_dsets(d: list) -> str:
    return clist(cpair(cstr(m), clist(cstr(n) for n in ns)) for m, ns in d)


def c_action(a: list) -> str:
    if a[0] == "none":
        return "ANone"
    if a[0] == "abs":
        return f"(AAbs {cstr(a[1])} {cstr(a[2])})"
    if a[0] == "rel":
        return f"(ARel {cstr(a[1])} {cstr(a[2])})"
    return f"(APlain {cstr(a[1])})"


def c_site2_case(c: dict) -> str:
    a = c["abs"]
    c0 = (f"{{| c_abs := {c_dsets(a['c0']['abs'])}; c_rel := {c_dsets(a['c0']['rel'])}; "
          f"c_plain := {clist(cstr(x) for x in a['c0']['plain'])} |}}")
    tbl = clist(cpair(cstr(w), c_action(act)) for w, act in a["table"])
    return (f"(({clist(cstr(m) for m in a['stdlib'])}, {tbl}, {c0}, {clist(cstr(x) for x in a['o1'])}, "
            f"{clist(cstr(x) for x in a['o2'])}), ({cstr(c['obs'][0])}, {cstr(c['obs'][1])}))")


def gen_site2(rng) -> dict:
    ts = gen_type_str(rng)
    pool = TYPE_CTORS + ["str", "int", "Any", "Pet", "Tag", "Owner", "date", "datetime", "bytes", "Literal",
                         "Mapping", "Unknown", "UUID"]
    p1, p2 = list(pool), list(pool)
    rng.shuffle(p1)
    rng.shuffle(p2)
    return {"type": ts, "current": rng.choice(["endpoints/pets.py", "models/pet.py", "client.py"]),
            "perm1": p1, "perm2": p2}


# =====================================================================================================
# mutation self-tests (not part of ./check; run by hand:  python harness/prop_C09.py selftest)
MUTATIONS = {
    "imports_unsorted": ("context/import_collector.py",
                         "names = sorted(self.imports[module])\n            statements.append(f\"from {module} import {', '.join(names)}\")\n\n        # Then plain",
                         "names = list(self.imports[module])\n            statements.append(f\"from {module} import {', '.join(names)}\")\n\n        # Then plain"),
    "models_init_unsorted": ("emitters/models_emitter.py", "sorted(list(all_class_names_to_export))", "all_class_names_to_export"),
    "timestamp_in_output": ("emitters/endpoints_emitter.py", 'file_content = imports + "\\n\\n" + class_content',
                            'import time as _t\n            file_content = f"# generated {_t.time_ns()}\\n" + imports + "\\n\\n" + class_content'),
    "id_in_output": ("emitters/endpoints_emitter.py", 'file_content = imports + "\\n\\n" + class_content',
                     'file_content = f"# obj {id(self)}\\n" + imports + "\\n\\n" + class_content'),
    "diff_compares_fewer": ("generator/client_generator.py", 'for new_file in Path(new_dir).rglob("*.py"):',
                            'for new_file in Path(new_dir).glob("*.py"):'),
    "new_set_site": ("emitters/endpoints_emitter.py", "for cls, mod in sorted(unique_clients):", "for cls, mod in set(unique_clients):"),
}


def make_mutant(name: str, table: dict | None = None) -> Path:
    rel, old, new = (table or MUTATIONS)[name]
    dst = (BUILD / "mut" / name / "src").resolve()
    if dst.exists():
        shutil.rmtree(dst)
    shutil.copytree(REPO / "src", dst, ignore=shutil.ignore_patterns("__pycache__", "*.egg-info"))
    p = dst / "pyopenapi_gen" / rel
    t = p.read_text()
    assert t.count(old) >= 1, f"mutation {name}: anchor not found"
    p.write_text(t.replace(old, new, 1))
    return dst


# =====================================================================================================
def main(chk: Check, replay: dict | None = None) -> int:
    if replay is not None:
        inp = dict(replay["input"])
        kind = inp.pop("kind", None)
        fn = {"modes": run_mode_case, "diff": run_diff_case, "e2e": run_e2e_case, "site1": run_site1_case,
              "site2": run_site2_case, "history": run_history_case}.get(kind)
        if kind == "det":
            r = run_det(inp["spec"])
            r = {"obs": r, "oracle_fail": r["hard"]}
        else:
            r = fn(inp)
        print(json.dumps({"obs": r["obs"], "oracle_fail": r["oracle_fail"]}, indent=1, default=str)[:4000])
        if r["oracle_fail"]:
            print(f"VIOLATION property=C09 replay=(replayed) : {r['oracle_fail']}")
            return 1
        return 0

    shutil.rmtree(SCRATCH, ignore_errors=True)
    chk.prove()
    rng = chk.rng
    corpus = load_corpus("C09")
    imports = "From PG Require Import Lib.Strs Model.Sites Model.Diff Corr.C09."
    dist: dict[str, Any] = {}

    # ---------------- det
    det_specs = [c["input"]["spec"] for c in corpus if c["input"].get("kind") == "det"]
    n_det = 24 if chk.thorough else 7
    for i in range(n_det):
        det_specs.append(gen_spec(rng, p_declared=0.9 if i % 3 else 0.5, cycles=(i % 4 == 3), collide=0.15 if i % 5 == 4 else 0.0,
                                  shared_params=0.3, path_level=0.3, sse=0.35, shared_bodies=0.3, spelled_tags=0.5,
                                  multi2xx=0.2))
    det_cases = []
    for spec in det_specs:
        r = run_det(spec, extra_seeds=["3", "4", "5", "17"] if chk.thorough else None)
        det_cases.append({"input": {"kind": "det", "spec": spec}, "obs": r, "oracle_fail": r["hard"]})
    # no model of the whole generator and (since the fix of F09a) no known seed sensitivity: every failure is a violation
    decide_oracle_only(chk, det_cases, "det (no model)")
    dist["det"] = {"documents": len(det_specs), "generator_runs": sum(len(c["obs"]["status"]) for c in det_cases),
                   "generation_errors": sum(1 for c in det_cases if c["obs"]["status"]["seed0"] != "ok"),
                   "seed_sensitive": sum(1 for c in det_cases if c["obs"]["differing"]),
                   "files_hashed_per_run": [c["obs"]["n_files"] for c in det_cases][:12]}
    n_eval = len(det_cases)

    # ---------------- history (warm process, one spec path rewritten in place)
    hist_inputs = [{k: v for k, v in c["input"].items() if k != "kind"} for c in corpus if c["input"].get("kind") == "history"]
    hist_inputs += [{"A": gen_spec(rng, p_declared=1.0, sse=0.3, path_level=0.3)} for _ in range(6 if chk.thorough else 1)]
    hist_cases = [run_history_case(i) for i in hist_inputs]
    decide_oracle_only(chk, hist_cases, "history (no model)")
    dist["history"] = {"cases": len(hist_cases), "stale_rerun_rejected": sum(1 for c in hist_cases if not c["obs"]["stale_rerun_ok"])}
    n_eval += len(hist_cases)

    # ---------------- modes
    mode_inputs = [{k: v for k, v in c["input"].items() if k != "kind"} for c in corpus if c["input"].get("kind") == "modes"]
    mode_inputs += [gen_mode_case(rng) for _ in range(60 if chk.thorough else 14)]
    mode_cases = [run_mode_case(i) for i in mode_inputs]
    codes = chk.coq_eval(imports, "(gen_input * registry * bool) * (bool * list path)", [c_mode_case(c) for c in mode_cases],
                         "run_modes", tag="modes") if chk.model_ok else None
    chk.decide(mode_cases, codes, {},
               "modes: Diff.tree_force/tree_temp/rerun_differing = (rerun outcome, files reported by the real non-force run)")
    dist["modes"] = {"cases": len(mode_cases), "rerun_failed": sum(1 for c in mode_cases if not c["obs"]["rerun_ok"]),
                     "core_given": sum(1 for c in mode_cases if c["abs"]["core_given"]),
                     "with_other_clients": sum(1 for c in mode_cases if c["abs"]["found"])}
    n_eval += len(mode_cases)

    # ---------------- e2e
    e2e_inputs = [{k: v for k, v in c["input"].items() if k != "kind"} for c in corpus if c["input"].get("kind") == "e2e"]
    base_specs = [gen_spec(rng, p_declared=1.0, collide=0.0) for _ in range(6 if chk.thorough else 2)]
    for s in base_specs:
        for m in E2E_MUTATIONS:
            e2e_inputs.append({"spec": s, "mutation": m, "pick": rng.randint(0, 50)})
    e2e_cases = [run_e2e_case(i) for i in e2e_inputs]
    e2e_other = [c for c in e2e_cases if not c["modelled"]]      # the run failed for another reason than the diff verdict
    e2e_cases = [c for c in e2e_cases if c["modelled"]]
    decide_oracle_only(chk, e2e_other, "e2e (failure other than 'Differences found': oracle only)")
    codes = chk.coq_eval(imports, "(tree * tree) * bool", [c_e2e_case(c) for c in e2e_cases], "run_diff", tag="e2e") \
        if chk.model_ok else None
    chk.decide(e2e_cases, codes, {1: "F09g"},
               "e2e: Diff.show_diffs(existing, pristine) = the non-force run raised 'Differences found'")
    e2e_cases = e2e_cases + e2e_other
    dist["e2e"] = {"cases": len(e2e_cases), "failed_otherwise": [c["obs"]["error"][:60] for c in e2e_other], "by_mutation": {m: sum(1 for c in e2e_cases if c["input"]["mutation"] == m) for m in E2E_MUTATIONS}}
    n_eval += len(e2e_cases)

    # ---------------- diff
    diff_inputs = [{k: v for k, v in c["input"].items() if k != "kind"} for c in corpus if c["input"].get("kind") == "diff"]
    diff_inputs += [gen_tree_pair(rng) for _ in range(3000 if chk.thorough else 500)]
    diff_cases = [run_diff_case(i) for i in diff_inputs]
    codes = chk.coq_eval(imports, "(tree * tree) * bool", [c_diff_case(c) for c in diff_cases], "run_diff", tag="diff") \
        if chk.model_ok else None
    chk.decide(diff_cases, codes, {1: "F09g"},
               "diff: Diff.show_diffs = ClientGenerator._show_diffs on temp dirs")
    dist["diff"] = {"cases": len(diff_cases), "has_diff": sum(1 for c in diff_cases if c["obs"]["has_diff"]),
                    "oracle_failures": sum(1 for c in diff_cases if c["oracle_fail"])}
    n_eval += len(diff_cases)

    # ---------------- site1 / site2
    s1_inputs = [{k: v for k, v in c["input"].items() if k != "kind"} for c in corpus if c["input"].get("kind") == "site1"]
    s1_inputs += [gen_site1(rng) for _ in range(2500 if chk.thorough else 500)]
    s1_cases = [run_site1_case(i) for i in s1_inputs]
    codes = chk.coq_eval(imports, "site1_in * (list str * list str)", [c_site1_case(c) for c in s1_cases], "run_site1", tag="site1") \
        if chk.model_ok else None
    chk.decide(s1_cases, codes, {}, "site1: Sites.signature_order = process_parameters under a forced set order")
    s2_inputs = [{k: v for k, v in c["input"].items() if k != "kind"} for c in corpus if c["input"].get("kind") == "site2"]
    s2_inputs += [gen_site2(rng) for _ in range(1200 if chk.thorough else 250)]
    s2_cases = [run_site2_case(i) for i in s2_inputs]
    codes = chk.coq_eval(imports, "site2_in * (str * str)", [c_site2_case(c) for c in s2_cases], "run_site2", tag="site2") \
        if chk.model_ok else None
    chk.decide(s2_cases, codes, {}, "site2: Sites.typing_imports_render = add_typing_imports_for_type + get_formatted_imports")
    dist["site1"] = {"cases": len(s1_cases), "order_sensitive": sum(1 for c in s1_cases if c["oracle_fail"])}
    dist["site2"] = {"cases": len(s2_cases), "order_sensitive": sum(1 for c in s2_cases if c["oracle_fail"])}
    n_eval += len(s1_cases) + len(s2_cases)

    # ---------------- inventory summary (translator)
    try:
        import tables_C09
        sites, st = tables_C09.scan()
        inv: dict[str, int] = {}
        for s in sites:
            inv[s.cls] = inv.get(s.cls, 0) + 1
        dist["site_inventory"] = {"classes": inv, **st,
                                  "order_relevant": [f"{s.file}:{s.line} {s.func} -> {s.model}" for s in sites if s.cls == "order_relevant"]}
    except Exception as e:  # already reported by chk.prove() as a translator failure
        dist["site_inventory"] = {"error": str(e)[:300]}

    chk.cov["evaluations"] = n_eval
    allc = det_cases + hist_cases + mode_cases + e2e_cases + diff_cases + s1_cases + s2_cases
    nontrivial = set()
    for c in allc:
        k = c["input"]["kind"]
        if k == "diff" and not (c["input"]["old"] and c["input"]["new"]):
            continue
        if k == "site1" and len(c["input"]["order1"]) < 1:
            continue
        nontrivial.add(hashlib.sha256(json.dumps(c["input"], sort_keys=True).encode()).hexdigest())
    chk.cov["distinct_nontrivial"] = len(nontrivial)
    chk.cov["input_distribution"] = dist
    for c in (det_cases[:1] + mode_cases[:1] + diff_cases[:1] + s1_cases[:1]):
        chk.sample({"input": c["input"], "obs": c["obs"]} if c["input"]["kind"] != "det" else
                   {"input": {"kind": "det", "paths": list(c["input"]["spec"]["paths"])}, "obs": c["obs"]["status"]})
    shutil.rmtree(SCRATCH, ignore_errors=True)
    return chk.finish(
        TRUSTED,
        rule="corpus first; det: structured random documents x 4 hash seeds (fresh processes) + 2 warm in-process runs "
             "(one into a second root); modes: random (document, options, prior registry); e2e: 8 tree mutations per "
             "document; diff: random pairs of small trees; site1/site2: random inputs x two forced iteration orders. "
             "non-trivial = both trees non-empty (diff) / at least one path variable (site1) / every other case; "
             "distinct by JSON of the input",
        explanation="PARTIAL: site permutation-invariance, diff decision and mode agreement are Coq theorems on the models; "
                    "byte-level determinism of the whole generator is this run's differential oracle only")


if __name__ == "__main__":
    if len(sys.argv) > 1 and sys.argv[1] == "mutant":
        print(make_mutant(sys.argv[2]))
