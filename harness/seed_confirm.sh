#!/bin/bash
# Developer tool: confirm an independently written breaking change and store it under seeded/.
# usage: seed_confirm.sh <src dir with patch/demo/meta> <patch file> <demo file> <meta file> <name under seeded/>
# Confirms in the scratch worktree /tmp/seedrun/repo: demo passes clean, fails with the patch, suite has no new failures.
set -u
SRC=$1; PATCH=$2; DEMO=$3; META=$4; NAME=$5
S=/tmp/seedrun/repo
[ -d $S ] || git -C /repo worktree add -q --detach $S HEAD
git -C $S checkout -q --detach "$(git -C /repo rev-parse HEAD)"; git -C $S reset -q --hard; git -C $S clean -fdq
run_demo() { ( cd $S && PYTHONPATH=$S/src PYTHONHASHSEED=0 timeout 600 /venv/bin/python "$SRC/$DEMO" >/tmp/seedrun/demo.log 2>&1; echo $? ); }
case "$DEMO" in test_*) run_demo() { ( cd $S && PYTHONPATH=$S/src PYTHONHASHSEED=0 timeout 600 /venv/bin/python -m pytest -q -p no:cacheprovider "$SRC/$DEMO" >/tmp/seedrun/demo.log 2>&1; echo $? ); } ;; esac
A=$(run_demo)
git -C $S apply "$SRC/$PATCH" 2>/dev/null || { git -C $S reset -q --hard; git -C $S apply --3way "$SRC/$PATCH" >/dev/null 2>&1 && [ -z "$(git -C $S diff --name-only --diff-filter=U)" ] && git -C $S reset -q && git -C $S diff > /tmp/seedrun/rebased.diff && PATCH_REBASED=1 || { echo "$NAME: patch does not apply to HEAD (conflict)"; git -C $S reset -q --hard; exit 2; }; }
B=$(run_demo)
SUITE=$(cd /verif && VERIF_REPO_ROOT=$S /venv/bin/python harness/baseline_check.py -n 14 | head -1)
git -C $S reset -q --hard; git -C $S clean -fdq
echo "$NAME: demo clean exit=$A, demo patched exit=$B, suite: $SUITE"
if [ "$A" = 0 ] && [ "$B" != 0 ] && echo "$SUITE" | grep -q "missing=0"; then
  D=/verif/seeded/$NAME; mkdir -p $D
  if [ "${PATCH_REBASED:-0}" = 1 ]; then cp /tmp/seedrun/rebased.diff $D/patch.diff; cp "$SRC/$PATCH" $D/patch.orig.diff; else cp "$SRC/$PATCH" $D/patch.diff; fi; cp "$SRC/$DEMO" $D/$(case "$DEMO" in test_*) echo test_demo.py;; *) echo demo.py;; esac)
  python3 - "$SRC/$META" "$D/meta.json" "$A" "$B" "$SUITE" <<'PY'
import json,sys
m=json.load(open(sys.argv[1]))
m["confirmed_by_integrator"]={"demo_clean_exit":int(sys.argv[3]),"demo_patched_exit":int(sys.argv[4]),"suite_vs_baseline":sys.argv[5],
  "how":"harness/seed_confirm.sh in scratch worktree /tmp/seedrun/repo of /repo HEAD"}
json.dump(m,open(sys.argv[2],"w"),indent=1)
PY
  echo "stored $D"
else echo "NOT CONFIRMED"; tail -5 /tmp/seedrun/demo.log; fi
