"""C19 — output depends on the document's meaning, not its rendering.

PARTIAL.  Proof part (Properties/C19.v): unquoting a numeric YAML response key changes nothing for the operation
parser (full since the fix of F07b), invariance of the emitted (tag client, method, signature) set under
permutations of `paths` (no-collision guard), invariance of a dataclass' field list under permutations of
`properties`.  Differential part (NOT a theorem): the whole generator on one document rendered as JSON / YAML
block / YAML flow / YAML with unquoted numeric keys (file hashes must be equal) and under random permutations
of components.schemas, paths and properties (normalised package manifest must be equal).  Order
sensitivities of schema parsing on cyclic reference graphs (F02a, F02c) are attributed by the executable
graph guards of Model/Render.v; the parser itself is modelled for C02, not here.

Streams:
  render   document x {json, yaml block, yaml flow, yaml unquoted} + reorderings (components.schemas, paths random and
           reversed, properties, all, every mapping key-sorted, key order WITHIN path items / operations: `parameters`
           last, reversed; key order of `responses` maps reversed); documents include operations with several success codes
           and different bodies written out of priority order, components.parameters with inline object / array-of-enum schemas shared by
           operations of different paths, and path-level `parameters`; model = Render.emitted_by_tag
           of the parsed document (predicts which operations exist per tag client, in which order)
  keys     small documents with int/str response keys straight into load_ir_from_spec; yaml.safe_load of keys
  fields   object schemas with random (colliding) property names; model = Render.gen_fields
"""
from __future__ import annotations

import ast
import copy
import hashlib
import json
import re
import shutil
from pathlib import Path
from typing import Any

import yaml

from framework import Check, cbool, clist, cpair, cstr, load_corpus
from prop_C09 import SCRATCH, decide_oracle_only, gen_spec, new_root, run_generator, san, snapshot

TRUSTED = [
    "Coq 8.16.1 kernel + vm_compute (witness theorems and correspondence evaluation)",
    "hand-written Gallina model coq/Model/Render.v (key retyping, parse_operations/parse_response key handling, tag "
    "grouping after id de-duplication, dataclass field list, reference-graph guards), tied to the code by this run's cases",
    "whole-generator invariance under re-rendering and reordering is NOT proved: it is the differential oracle of this run "
    "(file hashes for pure re-renderings, normalised package manifest via ast for permutations)",
    "PyYAML safe_load resolves unquoted canonical decimals to int (validated on the keys used); other YAML 1.1 retypings "
    "(octal, bool words, null, floats, timestamps) are outside the model",
    "schema-parsing order sensitivity is attributed by graph guards only (no parser model here; see C02)",
]


# =====================================================================================================
# renderings
def render_variants(spec: dict) -> dict[str, tuple[str, bool]]:
    block = yaml.safe_dump(spec, sort_keys=False)
    flow = yaml.safe_dump(spec, sort_keys=False, default_flow_style=True, width=100000)
    unq = re.sub(r"^(\s*)'(0|[1-9][0-9]*)':", r"\1\2:", block, flags=re.M)
    assert yaml.safe_load(block) == spec and yaml.safe_load(flow) == spec
    return {"json": (json.dumps(spec), False), "yaml_block": (block, True), "yaml_flow": (flow, True),
            "yaml_unquoted": (unq, True)}


def permute_spec(spec: dict, rng, what: str) -> dict:
    s = copy.deepcopy(spec)

    def shuffled(d: dict) -> dict:
        items = list(d.items())
        rng.shuffle(items)
        return dict(items)

    def perm_props(node: Any) -> Any:
        if isinstance(node, dict):
            out = {}
            for k, v in node.items():
                v2 = perm_props(v)
                if k == "properties" and isinstance(v2, dict):
                    v2 = shuffled(v2)
                out[k] = v2
            return out
        if isinstance(node, list):
            return [perm_props(x) for x in node]
        return node
    def reorder_items(doc: dict, how: str) -> dict:
        """key order WITHIN path items and operations"""
        def re_map(m: dict) -> dict:
            items = list(m.items())
            if how == "reversed":
                items.reverse()
            elif how == "params_last":
                items = [kv for kv in items if kv[0] != "parameters"] + [kv for kv in items if kv[0] == "parameters"]
            return dict(items)
        for path in list(doc["paths"]):
            item = doc["paths"][path]
            if isinstance(item, dict):
                doc["paths"][path] = re_map({k: (re_map(v) if isinstance(v, dict) and "responses" in v else v) for k, v in item.items()})
        return doc
    if what == "responses_reversed":   # key order of every `responses` map
        for item in s["paths"].values():
            if isinstance(item, dict):
                for op in item.values():
                    if isinstance(op, dict) and isinstance(op.get("responses"), dict):
                        op["responses"] = dict(reversed(list(op["responses"].items())))
        return s
    if what == "paths_reversed":
        s["paths"] = dict(reversed(list(s["paths"].items())))
        return s
    if what == "keys_sorted":
        return json.loads(json.dumps(s, sort_keys=True))
    if what in ("item_params_last", "item_reversed"):
        return reorder_items(s, what[5:])
    if what in ("schemas", "all") and "components" in s and "schemas" in s["components"]:
        s["components"]["schemas"] = shuffled(s["components"]["schemas"])
    if what in ("paths", "all"):
        s["paths"] = shuffled(s["paths"])
    if what in ("properties", "all"):
        s = perm_props(s)
    return s


# =====================================================================================================
# normalised package manifest (ast on the generated files)
def manifest(root: Path, package: str = "client") -> dict:
    base = root.joinpath(*package.split("."))
    models: dict[str, Any] = {}
    mdir = base / "models"
    for f in sorted(mdir.glob("*.py")) if mdir.is_dir() else []:
        if f.name == "__init__.py":
            continue
        try:
            tree = ast.parse(f.read_text())
        except SyntaxError as e:
            models[f"<syntax error in {f.name}>"] = str(e)[:80]
            continue
        for node in tree.body:
            if isinstance(node, ast.ClassDef):
                fields = []
                for st in node.body:
                    if isinstance(st, ast.AnnAssign) and isinstance(st.target, ast.Name):
                        fields.append([st.target.id, ast.unparse(st.annotation), st.value is None])
                    elif isinstance(st, ast.Assign) and isinstance(st.targets[0], ast.Name):
                        fields.append([st.targets[0].id, ast.unparse(st.value), "member"])
                    elif isinstance(st, ast.ClassDef):
                        fields.append([f"class {st.name}", " ".join(sorted(ast.unparse(x) for x in st.body)), "nested"])
                models[node.name] = {"bases": sorted(ast.unparse(b) for b in node.bases), "fields": sorted(fields, key=str)}
            elif isinstance(node, ast.Assign) and isinstance(node.targets[0], ast.Name) and not node.targets[0].id.startswith("__"):
                models[node.targets[0].id] = {"alias": ast.unparse(node.value)}
            elif isinstance(node, ast.AnnAssign) and isinstance(node.target, ast.Name) and node.value is not None:
                models[node.target.id] = {"alias": ast.unparse(node.value)}
    clients: dict[str, Any] = {}
    order: dict[str, list[str]] = {}
    edir = base / "endpoints"
    for f in sorted(edir.glob("*.py")) if edir.is_dir() else []:
        if f.name == "__init__.py":
            continue
        try:
            tree = ast.parse(f.read_text())
        except SyntaxError as e:
            clients[f"<syntax error in {f.name}>"] = str(e)[:80]
            continue
        for node in tree.body:
            if isinstance(node, ast.ClassDef):
                sigs = []
                names = []
                for st in node.body:
                    if isinstance(st, (ast.FunctionDef, ast.AsyncFunctionDef)):
                        sigs.append([st.name, ast.unparse(st.args), ast.unparse(st.returns) if st.returns else ""])
                        if not st.name.startswith("_") and st.name not in names:
                            names.append(st.name)
                clients[node.name] = sorted(sigs, key=str)
                if not node.name.endswith("Protocol"):
                    order[f.stem] = names
    return {"models": models, "clients": clients, "method_order": order}


def manifest_diff(a: dict, b: dict) -> list[str]:
    out = []
    for part in ("models", "clients"):
        ka, kb = set(a[part]), set(b[part])
        if ka != kb:
            out.append(f"{part}: only in reference {sorted(ka - kb)[:5]}, only in variant {sorted(kb - ka)[:5]}")
        for k in sorted(ka & kb):
            if a[part][k] != b[part][k]:
                out.append(f"{part}.{k} differs: {json.dumps(a[part][k])[:160]} vs {json.dumps(b[part][k])[:160]}")
    return out[:6]


# =====================================================================================================
# abstraction of a loaded document for the model
METHODS = {"GET", "POST", "PUT", "PATCH", "DELETE", "OPTIONS", "HEAD", "TRACE"}


def doc_abstract(loaded: dict) -> list:
    d = []
    for path, item in (loaded.get("paths") or {}).items():
        ops = []
        if isinstance(item, dict):
            for method, op in item.items():
                if isinstance(method, str) and isinstance(op, dict) and method.upper() in METHODS:
                    ops.append([method, {"id": op.get("operationId", ""), "tags": list(op.get("tags", [])),
                                         "resps": list((op.get("responses") or {}).keys())}])
        d.append([path, ops])
    return d


def ref_graph(loaded: dict) -> list:
    schemas = ((loaded.get("components") or {}).get("schemas") or {})
    g = []

    def walk(node: Any, in_allof: bool, acc: list) -> None:
        if isinstance(node, dict):
            r = node.get("$ref")
            if isinstance(r, str) and r.startswith("#/components/schemas/"):
                acc.append([in_allof, r.split("/")[-1]])
            for k, v in node.items():
                if k == "allOf" and isinstance(v, list):
                    for x in v:
                        walk(x, True, acc)
                elif k != "$ref":
                    walk(v, False, acc)
        elif isinstance(node, list):
            for x in node:
                walk(x, False, acc)
    for name, sch in schemas.items():
        acc: list = []
        walk(sch, False, acc)
        g.append([name, acc])
    return g


def py_acyclic(g: list) -> bool:
    """no reference cycle through two or more schemas (self references are not an order hazard, as in Render.strip_self)"""
    adj = {n: [t for _, t in es if t != n] for n, es in g}
    state: dict[str, int] = {}

    def dfs(n: str) -> bool:
        state[n] = 1
        for t in adj.get(n, []):
            if state.get(t) == 1 or (state.get(t) is None and t in adj and not dfs(t)):
                return False
        state[n] = 2
        return True
    return all(state.get(n) == 2 or dfs(n) for n in adj)


def c_key(k: Any) -> str:
    if isinstance(k, bool) or not isinstance(k, (int, str)):
        return f"(KStr {cstr('<' + type(k).__name__ + '>')})"
    return f"(KInt {k})" if isinstance(k, int) else f"(KStr {cstr(k)})"


def c_doc(d: list) -> str:
    return clist(cpair(cstr(p), clist(cpair(cstr(m), f"{{| o_id := {cstr(o['id'])}; o_tags := {clist(cstr(t) for t in o['tags'])}; "
                                                     f"o_sig := []; o_resps := {clist(c_key(k) for k in o['resps'])} |}}")
                                      for m, o in ops)) for p, ops in d)


def c_graph(g: list) -> str:
    return clist(cpair(cstr(n), clist(cpair(cbool(a), cstr(t)) for a, t in es)) for n, es in g)


def tables_for(d: list) -> tuple[list, list]:
    from pyopenapi_gen.core.utils import NameSanitizer
    tags, ids = {"default"}, set()
    for _, ops in d:
        for _, o in ops:
            tags.update(o["tags"])
            ids.add(o["id"])
            ids.update(o["id"] + f"_{k}" for k in range(2, 5))
    return ([[t, NameSanitizer.normalize_tag_key(t)] for t in sorted(tags)], [[i, san(i)] for i in sorted(ids) if i])


# =====================================================================================================
# stream render
def run_render_doc(spec: dict, rng, n_perm: int) -> list[dict]:
    """one reference generation (json) + the other renderings + permutations; returns one case per variant"""
    from pyopenapi_gen.core.utils import NameSanitizer
    cases = []
    variants: list[tuple[str, str, bool, dict, str]] = []   # name, text, is_yaml, loaded dict, kind
    rv = render_variants(spec)
    for name, (text, isy) in rv.items():
        loaded = yaml.safe_load(text) if isy else json.loads(text)
        variants.append((name, text, isy, loaded, "rendering"))
    kinds = ["schemas", "paths", "properties", "all", "paths_reversed", "keys_sorted", "item_params_last", "item_reversed",
             "responses_reversed"]
    for i in range(n_perm):
        what = kinds[i % len(kinds)]
        p = permute_spec(spec, rng, what)
        variants.append((f"perm_{what}_{i}", json.dumps(p), False, p, "permutation"))
    ref_snap = ref_man = None
    roots = []
    try:
        for name, text, isy, loaded, kind in variants:
            root = new_root("c19_")
            roots.append(root)
            r = run_generator(text, root, yaml_=isy)
            snap = snapshot(root)
            man = manifest(root) if r.ok else {"models": {}, "clients": {}, "method_order": {}}
            if name == "json":
                ref_snap, ref_man, ref_ok = snap, man, r.ok
            fails = []
            if r.ok != ref_ok:
                fails.append(f"{name}: generation {'succeeded' if r.ok else 'failed: ' + str(r.error)[:120]} but the JSON rendering did not behave so")
            elif kind == "rendering":
                d = sorted(k for k in set(snap) | set(ref_snap) if snap.get(k) != ref_snap.get(k))
                if d:
                    fails.append(f"{name}: files differ from the JSON rendering of the same document: {d[:6]}")
            else:
                md = manifest_diff(ref_man, man)
                if md:
                    fails.append(f"{name}: package manifest differs from the original order: {md[:3]}")
            dabs = doc_abstract(loaded)
            tagtbl, santbl = tables_for(dabs)
            # the model speaks about tag keys; the files are named by module: same string for the tags used here
            # (a document whose generation fails - since the fix of F07f an unparsable operation is a ValueError, not a
            #  skipped operation - has no package to compare with the model: oracle only; it must fail in EVERY variant)
            usable = r.ok and all(NameSanitizer.sanitize_module_name(t) == k for t, k in tagtbl)
            cases.append({"input": {"kind": "render", "variant": name, "spec": spec if kind == "rendering" else loaded},
                          "abs": {"doc": dabs, "graph": ref_graph(loaded), "tags": tagtbl, "san": santbl, "usable": usable},
                          "obs": {"ok": r.ok, "error": r.error, "method_order": man["method_order"],
                                  "skipped": sum(1 for l in r.log.splitlines() if "Skipping operation parsing" in l)},
                          "oracle_fail": fails})
    finally:
        for r_ in roots:
            shutil.rmtree(r_, ignore_errors=True)
    return cases


def gen_family_spec(rng) -> dict:
    """<= 4 schemas: a self-referencing base, a schema derived from it through allOf, optionally a holder of the base and
    a plain schema - in a random declaration order (every order is then enumerated)"""
    R = "#/components/schemas/"
    base, derived = rng.choice([("Folder", "SharedFolder"), ("Node", "LeafNode"), ("Category", "TopCategory")])
    sch: dict[str, Any] = {
        base: {"type": "object", "required": ["name"], "properties": {
            "name": {"type": "string"}, "parent": {"$ref": R + base},
            "children": {"type": "array", "items": {"$ref": R + base}}}},
        derived: {"allOf": [{"$ref": R + base}, {"type": "object", "properties": {"owner": {"type": "string"}}}]},
    }
    if rng.random() < 0.7:
        sch["Drive"] = {"type": "object", "properties": {"root": {"$ref": R + base}, "label": {"type": "string"}}}
    if rng.random() < 0.7:
        sch["Stamp"] = {"type": "object", "properties": {"at": {"type": "string", "format": "date-time"}}}
    items = list(sch.items())
    rng.shuffle(items)
    return {"openapi": "3.0.3", "info": {"title": "T", "version": "1"},
            "paths": {"/things": {"get": {"operationId": "listThings", "responses": {"200": {"description": "ok", "content": {
                "application/json": {"schema": {"type": "array", "items": {"$ref": R + derived}}}}}}}}},
            "components": {"schemas": dict(items)}}


def run_schema_orders(spec: dict) -> list[dict]:
    """EVERY declaration order of components.schemas (<= 4 schemas): the manifest must equal that of the given order"""
    import itertools
    from pyopenapi_gen.core.utils import NameSanitizer
    names = list(spec["components"]["schemas"])
    assert len(names) <= 4
    cases, roots = [], []
    ref_man = None
    try:
        for i, order in enumerate(itertools.permutations(names)):
            s = copy.deepcopy(spec)
            s["components"]["schemas"] = {n: spec["components"]["schemas"][n] for n in order}
            root = new_root("c19o_")
            roots.append(root)
            r = run_generator(json.dumps(s), root)
            man = manifest(root) if r.ok else {"models": {}, "clients": {}, "method_order": {}}
            if i == 0:
                ref_man, ref_ok = man, r.ok
            fails = []
            if r.ok != ref_ok:
                fails.append(f"order {list(order)}: generation outcome differs from order {names}")
            else:
                md = manifest_diff(ref_man, man)
                if md:
                    fails.append(f"declaration order {list(order)} of components.schemas changes the package (vs {names}): {md[:3]}")
            dabs = doc_abstract(s)
            tagtbl, santbl = tables_for(dabs)
            cases.append({"input": {"kind": "render", "variant": f"perm_order_{i}", "spec": s},
                          "abs": {"doc": dabs, "graph": ref_graph(s), "tags": tagtbl, "san": santbl,
                                  "usable": r.ok and all(NameSanitizer.sanitize_module_name(t) == k for t, k in tagtbl)},
                          "obs": {"ok": r.ok, "error": r.error, "method_order": man["method_order"], "skipped": 0},
                          "oracle_fail": fails})
    finally:
        for r_ in roots:
            shutil.rmtree(r_, ignore_errors=True)
    return cases


def c_render_case(c: dict) -> str:
    a = c["abs"]
    obs = clist(cpair(cstr(m), clist(cstr(x) for x in names)) for m, names in sorted(c["obs"]["method_order"].items()))
    return (f"(({clist(cpair(cstr(x), cstr(y)) for x, y in a['tags'])}, {clist(cpair(cstr(x), cstr(y)) for x, y in a['san'])}, "
            f"{c_doc(a['doc'])}, {c_graph(a['graph'])}), {obs})")


# =====================================================================================================
# stream keys
KEY_POOL = ["200", "201", "204", "400", "404", "500", "default", "2XX", "4XX", "0", "1", "99", "12345", "3xx", "x200"]


def gen_keys_case(rng) -> dict:
    paths = {}
    n = 0
    for pi in range(rng.randint(1, 3)):
        item: dict[Any, Any] = {}
        for m in rng.sample(["get", "post", "put", "delete", "GET", "parameters", "summary", "x-ext"], rng.randint(1, 3)):
            if m in ("parameters",):
                item[m] = []
                continue
            if m == "summary":
                item[m] = "s"
                continue
            n += 1
            keys = rng.sample(KEY_POOL, rng.randint(0, 3))
            resps: dict[Any, Any] = {}
            for k in keys:
                kk: Any = ("#int:" + k) if (rng.random() < 0.4 and re.fullmatch(r"0|[1-9][0-9]*", k)) else k
                resps[kk] = {"description": "r"}
            item[m] = {"operationId": f"op{n}", "responses": resps}
            if rng.random() < 0.4:
                item[m]["tags"] = [rng.choice(["pets", "store"])]
        paths[f"/p{pi}"] = item
    return {"spec": {"openapi": "3.0.3", "info": {"title": "T", "version": "1"}, "paths": paths}}


def decode_int_keys(node: Any) -> Any:
    """inputs are kept JSON-safe: an int key n is written "#int:n" """
    if isinstance(node, dict):
        return {(int(k[5:]) if isinstance(k, str) and k.startswith("#int:") else k): decode_int_keys(v) for k, v in node.items()}
    if isinstance(node, list):
        return [decode_int_keys(x) for x in node]
    return node


def run_keys_case(inp: dict) -> dict:
    import logging
    import warnings
    from pyopenapi_gen.core.loader.loader import load_ir_from_spec
    spec = decode_int_keys(inp["spec"])
    logging.disable(logging.CRITICAL)
    try:
        with warnings.catch_warnings(record=True) as w:
            warnings.simplefilter("always")
            try:
                ir = load_ir_from_spec(copy.deepcopy(spec))
                obs: Any = [[op.path, op.method.value if hasattr(op.method, "value") else str(op.method), op.operation_id,
                             [r.status_code for r in op.responses]] for op in ir.operations]
            except Exception as e:  # noqa: BLE001
                obs = f"ERR {type(e).__name__}: {e}"[:200]
        skipped = sum(1 for x in w if "Skipping operation parsing" in str(x.message))
    finally:
        logging.disable(logging.NOTSET)
    # oracle: the document with every int key written as the equivalent string must parse to the same operations
    strspec = copy.deepcopy(spec)
    changed = False
    for item in strspec["paths"].values():
        for m, op in item.items():
            if isinstance(op, dict) and "responses" in op:
                new = {}
                for k, v in op["responses"].items():
                    if isinstance(k, int):
                        changed = True
                    new[str(k)] = v
                op["responses"] = new
    fails = []
    if changed:
        logging.disable(logging.CRITICAL)
        try:
            with warnings.catch_warnings():
                warnings.simplefilter("ignore")
                ir2 = load_ir_from_spec(strspec)
        finally:
            logging.disable(logging.NOTSET)
        ref = [[op.path, op.method.value if hasattr(op.method, "value") else str(op.method), op.operation_id,
                [r.status_code for r in op.responses]] for op in ir2.operations]
        if obs != ref:
            fails.append(f"unquoted numeric response keys change the parsed operations: {json.dumps(obs)[:200]} vs quoted {json.dumps(ref)[:200]}")
    return {"input": {"kind": "keys", **inp}, "abs": doc_abstract(spec), "obs": obs, "skipped": skipped, "oracle_fail": fails}


def c_keys_case(c: dict) -> str:
    obs = c["obs"]
    if isinstance(obs, str):
        o = "None"
    else:
        o = "(Some " + clist(cpair(cstr(p), cstr(m.upper()), cstr(i), clist(cstr(x) for x in codes)) for p, m, i, codes in obs) + ")"
    return f"({c_doc(c['abs'])}, {o})"


def yaml_key_cases() -> list[dict]:
    out = []
    for k in KEY_POOL + ["42", "7", "1000", "abc", "a1", "v2"]:
        v = list(yaml.safe_load(f"{k}: x").keys())[0]
        out.append({"input": {"kind": "yamlkey", "key": k}, "obs": v, "oracle_fail": []})
    return out


# =====================================================================================================
# stream fields
FIELD_POOL = ["id", "name", "a-b", "a_b", "aB", "a b", "class", "x", "X", "created_at", "createdAt", "created-at", "n1", "n_1", "zed"]


def gen_fields_doc(rng, n: int) -> dict:
    schemas = {}
    for i in range(n):
        names = rng.sample(FIELD_POOL, rng.randint(1, 6))
        props = {nm: {"type": rng.choice(["string", "integer", "boolean"])} for nm in names}
        req = [nm for nm in names if rng.random() < 0.4]
        s: dict[str, Any] = {"type": "object", "properties": props}
        if req:
            s["required"] = req
        schemas[f"Model{i}"] = s
    return {"openapi": "3.0.3", "info": {"title": "T", "version": "1"},
            "paths": {"/p": {"get": {"operationId": "ping", "responses": {"204": {"description": "ok"}}}}},
            "components": {"schemas": schemas}}


def run_fields_doc(spec: dict) -> list[dict]:
    root = new_root("c19f_")
    try:
        r = run_generator(json.dumps(spec), root)
        assert r.ok, r.error
        found: dict[str, list] = {}
        for f in (root / "client" / "models").glob("*.py"):
            tree = ast.parse(f.read_text())
            for node in tree.body:
                if isinstance(node, ast.ClassDef):
                    found[node.name] = [[st.target.id, st.value is None] for st in node.body
                                        if isinstance(st, ast.AnnAssign) and isinstance(st.target, ast.Name)]
        cases = []
        for name, sch in spec["components"]["schemas"].items():
            props = [[p, p in sch.get("required", [])] for p in sch["properties"]]
            obs = found.get(name)
            # the property's statement on the implementation: the field list must not depend on the order of properties
            cases.append({"input": {"kind": "fields", "schema": sch}, "abs": {"props": props, "san": [[p, san(p)] for p, _ in props]},
                          "obs": obs, "oracle_fail": [] if obs is not None else [f"no dataclass {name} generated"]})
        return cases
    finally:
        shutil.rmtree(root, ignore_errors=True)


def c_fields_case(c: dict) -> str:
    a = c["abs"]
    props = clist(cpair(cstr(p), cpair(cbool(r), "[]")) for p, r in a["props"])
    obs = clist(cpair(cstr(n), cbool(req)) for n, req in (c["obs"] or []))
    return f"(({clist(cpair(cstr(x), cstr(y)) for x, y in a['san'])}, {props}), {obs})"


# =====================================================================================================
def collision_free(spec: dict) -> bool:
    ids = [san(op.get("operationId", "")) for item in spec["paths"].values() for m, op in item.items() if isinstance(op, dict)]
    return len(ids) == len(set(ids))


def main(chk: Check, replay: dict | None = None) -> int:
    if replay is not None:
        inp = dict(replay["input"])
        kind = inp.pop("kind", None)
        if kind == "keys":
            r = run_keys_case(inp)
            fails = r["oracle_fail"]
        elif kind == "render":
            import random
            spec = inp["spec"]
            if inp.get("variant", "").startswith("perm_"):
                # the stored document is the permuted one: compare it with its own sorted-key normal form
                base = json.loads(json.dumps(spec, sort_keys=True))
                a, b = new_root("rp_"), new_root("rp_")
                ra, rb = run_generator(json.dumps(base), a), run_generator(json.dumps(spec), b)
                fails = manifest_diff(manifest(a), manifest(b)) if ra.ok and rb.ok else ([] if ra.ok == rb.ok else ["outcome differs"])
                shutil.rmtree(a, ignore_errors=True), shutil.rmtree(b, ignore_errors=True)
            else:
                cs = run_render_doc(spec, random.Random(0), 0)
                fails = [f for c in cs for f in c["oracle_fail"]]
        else:
            fails = []
        print(json.dumps(fails, indent=1))
        if fails:
            print(f"VIOLATION property=C19 replay=(replayed) : {fails[:2]}")
            return 1
        return 0

    shutil.rmtree(SCRATCH, ignore_errors=True)
    chk.prove()
    rng = chk.rng
    corpus = load_corpus("C19")
    imports = "From PG Require Import Lib.Strs Model.Sites Model.Diff Model.Render Corr.C19."
    dist: dict[str, Any] = {}

    # ---------------- render
    specs = [c["input"]["spec"] for c in corpus if c["input"].get("kind") == "render"]
    n_corpus_render = len(specs)
    n_docs = 40 if chk.thorough else 8
    tries = 0
    while len(specs) < n_corpus_render + n_docs and tries < 200:
        tries += 1
        s = gen_spec(rng, p_declared=1.0, cycles=False, collide=0.0, n_paths=(2, 4), shared_params=0.5, path_level=0.5, sse=0.1, shared_bodies=0.5, multi2xx=0.4)
        if collision_free(s):
            specs.append(s)
    render_cases: list[dict] = []
    for s in specs:
        render_cases += run_render_doc(s, rng, 18 if chk.thorough else 9)
    # every declaration order of small schema families (self-referencing base + allOf-derived schema)
    fam_specs = [c["input"]["spec"] for c in corpus if c["input"].get("kind") == "orders"]
    fam_specs += [gen_family_spec(rng) for _ in range(4 if chk.thorough else 1)]
    n_order_cases = 0
    for s in fam_specs:
        oc = run_schema_orders(s)
        n_order_cases += len(oc)
        render_cases += oc
    usable = [c for c in render_cases if c["abs"]["usable"]]
    codes = chk.coq_eval(imports, "render_in * list (str * list str)", [c_render_case(c) for c in usable], "run_render",
                         tag="render") if chk.model_ok else None
    chk.decide(usable, codes, {1: "F02a", 2: "F02c"},
               "render: Render.emitted_by_tag(parse_doc d) = methods per endpoints module of the generated package")
    decide_oracle_only(chk, [c for c in render_cases if not c["abs"]["usable"]],
                       "render (no model: generation failed, or tag/module names differ)")
    by_variant: dict[str, int] = {}
    for c in render_cases:
        v = re.sub(r"_\d+$", "", c["input"]["variant"])
        by_variant[v] = by_variant.get(v, 0) + 1
    dist["render"] = {"documents": len(specs),
                      "with_shared_component_parameters": sum(1 for s_ in specs if (s_.get("components") or {}).get("parameters")),
                      "with_path_level_parameters": sum(1 for s_ in specs if any(isinstance(i, dict) and "parameters" in i for i in s_["paths"].values())), "generations": len(render_cases),
                      "by_variant": by_variant,
                      "oracle_failures": sum(1 for c in render_cases if c["oracle_fail"]),
                      "generation_failed": sum(1 for c in render_cases if not c["obs"]["ok"]),
                      "exhaustive_schema_order_generations": n_order_cases,
                      "cyclic_documents": sum(1 for c in render_cases if not py_acyclic(c["abs"]["graph"]))}

    # ---------------- keys
    key_inputs = [{k: v for k, v in c["input"].items() if k != "kind"} for c in corpus if c["input"].get("kind") == "keys"]
    key_inputs += [gen_keys_case(rng) for _ in range(1500 if chk.thorough else 300)]
    key_cases = [run_keys_case(i) for i in key_inputs]
    codes = chk.coq_eval(imports, "doc * option (list (str * str * str * list str))", [c_keys_case(c) for c in key_cases],
                         "run_keys", tag="keys") if chk.model_ok else None
    chk.decide(key_cases, codes, {}, "keys: Render.parse_doc = load_ir_from_spec(...).operations (path, method, id, codes)")
    yk = yaml_key_cases()
    codes = chk.coq_eval(imports, "str * key", [f"({cstr(c['input']['key'])}, {c_key(c['obs'])})" for c in yk], "run_yamlkey",
                         tag="yamlkey") if chk.model_ok else None
    chk.decide(yk, codes, {}, "yamlkey: Render.retype_key = yaml.safe_load on an unquoted key")
    dist["keys"] = {"cases": len(key_cases), "with_int_keys": sum(1 for c in key_cases if c["oracle_fail"] or c["skipped"]),
                    "operations_skipped": sum(c["skipped"] for c in key_cases), "yaml_keys": len(yk)}

    # ---------------- fields
    field_cases: list[dict] = []
    for _ in range(6 if chk.thorough else 2):
        field_cases += run_fields_doc(gen_fields_doc(rng, 40))
    codes = chk.coq_eval(imports, "(list (str * str) * list prop) * list (str * bool)", [c_fields_case(c) for c in field_cases],
                         "run_fields", tag="fields") if chk.model_ok else None
    chk.decide(field_cases, codes, {}, "fields: Render.gen_fields = dataclass fields (name, required) in file order")
    dist["fields"] = {"schemas": len(field_cases),
                      "with_collisions": sum(1 for c in field_cases if len({y for _, y in c["abs"]["san"]}) < len(c["abs"]["san"]))}

    allc = render_cases + key_cases + yk + field_cases
    chk.cov["evaluations"] = len(allc)
    chk.cov["distinct_nontrivial"] = len({hashlib.sha256(repr([c["input"], c.get("abs")]).encode()).hexdigest()
                                          for c in allc if c["input"]["kind"] != "yamlkey"})
    chk.cov["input_distribution"] = dist
    for c in (render_cases[3:4] + key_cases[:1] + field_cases[:1]):
        chk.sample({"input": {k: v for k, v in c["input"].items() if k not in ("spec", "text")}, "obs": c["obs"]})
    shutil.rmtree(SCRATCH, ignore_errors=True)
    return chk.finish(
        TRUSTED,
        rule="corpus first; render: structured random collision-free acyclic documents x {json, yaml block, yaml flow, yaml "
             "unquoted numeric keys} + permutations of schemas/paths/properties/all; keys: random small documents with "
             "str/int response keys; fields: random object schemas over a pool of colliding property names. distinct by "
             "JSON of (input, abstraction); every case is non-trivial except the yaml key table",
        explanation="PARTIAL: key-retyping loss, path-order and property-order invariance are Coq theorems on Model/Render.v; "
                    "whole-generator invariance under re-rendering/reordering is this run's differential oracle only")


# mutation self-tests (by hand):  python harness/prop_C19.py mutant <name>;  VERIF_REPO_ROOT=build/mut/<name> ./check C19
MUTATIONS = {
    "fields_follow_property_order": ("visit/model/dataclass_generator.py",
                                     "sorted_props = sorted(schema.properties.items(), key=lambda item: (item[0] not in schema.required, item[0]))",
                                     "sorted_props = sorted(schema.properties.items(), key=lambda item: (item[0] not in schema.required))"),
    "yaml_loader_reorders_paths": ("core/spec_fetcher.py", "            data = yaml.safe_load(content)\n",
                                   "            data = yaml.safe_load(content)\n            if isinstance(data, dict) and isinstance(data.get('paths'), dict):\n                data['paths'] = dict(sorted(data['paths'].items()))\n"),
    "status_code_keyed_on_type": ("core/loader/responses/parser.py", '    if not isinstance(code, str):\n        raise TypeError("code must be a string")',
                                  '    if not isinstance(code, str):\n        code = f"{code:03d}x"'),
    "schemas_emitted_by_position": ("core/loader/operations/parser.py", "                    tags=list(node_op.get(\"tags\", [])),",
                                    "                    tags=list(node_op.get(\"tags\", [])) if len(ops) % 2 == 0 else [],"),
}

if __name__ == "__main__":
    import sys as _sys
    if len(_sys.argv) > 2 and _sys.argv[1] == "mutant":
        from prop_C09 import make_mutant
        print(make_mutant(_sys.argv[2], MUTATIONS))
