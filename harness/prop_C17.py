"""C17 — transport applies defaults, per-request headers and auth as documented."""
from __future__ import annotations

import asyncio
import itertools
import json
from typing import Any

import httpx

from framework import Check, cbool, cdict, clist, copt, cpair, cstr, load_corpus

TRUSTED = [
    "Coq 8.16.1 kernel + vm_compute (witness theorems and correspondence evaluation)",
    "hand-written Gallina model coq/Model/Transport.v of HttpxTransport._prepare_headers/request and the auth plugins, "
    "tied to the code by this run's correspondence cases",
    "translator harness/tables.py for the literals 'Authorization', 'Bearer ', 'header', 'query', 'cookie'",
    "httpx: a dict of headers is sent as one field per key, names lower-cased (modelled as on_wire_headers); "
    "params/cookies/content are sent as given (observed through httpx.MockTransport)",
]

HDR_POOL = ["X-D", "x-d", "X-Trace", "x-trace", "Authorization", "authorization", "X-API-Key", "x-api-key", "Accept-Lang"]
VAL_POOL = ["1", "2", "tok", "k3y", "v", "zz"]
NAME_POOL = ["api_key", "k", "X-API-Key", "x-api-key", "sid"]
LOCS = ["header", "query", "cookie", "header", "header", "body"]  # "body" = invalid location


# ---------------------------------------------------------------- generators
def gen_dict(rng, pool, lo=0, hi=3) -> list:
    n = rng.randint(lo, hi)
    keys = rng.sample(pool, min(n, len(pool)))
    return [[k, rng.choice(VAL_POOL)] for k in keys]


def gen_plugin(rng, depth=0) -> dict:
    kinds = ["bearer", "headers", "apikey", "oauth2"] + (["composite"] if depth < 2 else [])
    k = rng.choice(kinds)
    if k == "bearer":
        return {"k": k, "tok": rng.choice(VAL_POOL)}
    if k == "headers":
        return {"k": k, "hs": gen_dict(rng, HDR_POOL, 0, 3)}
    if k == "apikey":
        return {"k": k, "key": rng.choice(VAL_POOL), "loc": rng.choice(LOCS), "name": rng.choice(NAME_POOL + HDR_POOL[:4])}
    if k == "oauth2":
        tok = rng.choice(VAL_POOL)
        r = rng.random()
        if r < 0.3:
            refresh = None
        else:
            refresh = [[a, rng.choice(VAL_POOL + ["", ""])] for a in rng.sample(VAL_POOL, rng.randint(0, 4))]
        return {"k": k, "tok": tok, "refresh": refresh}
    return {"k": "composite", "ps": [gen_plugin(rng, depth + 1) for _ in range(rng.randint(0, 4))]}


def gen_case(rng) -> dict:
    r = rng.random()
    auth = gen_plugin(rng) if r < 0.8 else None
    return {
        "defaults": None if rng.random() < 0.25 else gen_dict(rng, HDR_POOL, 0, 3),
        "auth": auth,
        "bearer": rng.choice(VAL_POOL) if rng.random() < 0.4 else None,
        "requests": [
            {"headers": None if rng.random() < 0.3 else gen_dict(rng, HDR_POOL, 0, 3),
             "params": None if rng.random() < 0.5 else gen_dict(rng, NAME_POOL, 0, 2),
             "cookies": None if rng.random() < 0.6 else gen_dict(rng, ["sid", "c2"], 1, 2),
             "body": rng.choice(["", "{}", "abc"])}
            for _ in range(rng.randint(1, 3))],
    }


def enum_plugin_orders() -> list[dict]:
    """all ordered selections (length <= 3 quick) of the five plugin kinds, flat composite"""
    base = [
        {"k": "bearer", "tok": "tok"},
        {"k": "headers", "hs": [["X-Trace", "1"], ["Authorization", "zz"]]},
        {"k": "apikey", "key": "k3y", "loc": "header", "name": "X-API-Key"},
        {"k": "apikey", "key": "k3y", "loc": "query", "name": "api_key"},
        {"k": "apikey", "key": "k3y", "loc": "cookie", "name": "sid"},
        {"k": "oauth2", "tok": "1", "refresh": [["1", "2"], ["2", "v"]]},
    ]
    out = []
    for n in range(0, 4):
        for combo in itertools.permutations(base, n):
            out.append({"defaults": [["X-D", "1"], ["X-Trace", "0"]], "auth": {"k": "composite", "ps": list(combo)},
                        "bearer": "v",
                        "requests": [{"headers": [["X-D", "2"]], "params": [["k", "v"]], "cookies": None, "body": "abc"},
                                     {"headers": None, "params": None, "cookies": [["c2", "1"]], "body": ""}]})
    return out


# ---------------------------------------------------------------- implementation runner
def build_plugin(p: dict):
    from pyopenapi_gen.core.auth.base import CompositeAuth
    from pyopenapi_gen.core.auth.plugins import ApiKeyAuth, BearerAuth, HeadersAuth, OAuth2Auth
    k = p["k"]
    if k == "bearer":
        return BearerAuth(p["tok"])
    if k == "headers":
        return HeadersAuth(dict(p["hs"]))
    if k == "apikey":
        return ApiKeyAuth(p["key"], p["loc"], p["name"])
    if k == "oauth2":
        if p["refresh"] is None:
            return OAuth2Auth(p["tok"])
        table = dict(p["refresh"])

        async def cb(tok: str) -> str:
            return table.get(tok, "")
        return OAuth2Auth(p["tok"], cb)
    return CompositeAuth(*[build_plugin(q) for q in p["ps"]])


HTTPX_OWN = {"host", "accept", "accept-encoding", "connection", "user-agent", "content-length", "content-type", "cookie"}


async def run_impl_async(case: dict) -> list:
    from pyopenapi_gen.core.http_transport import HttpxTransport
    seen: list[httpx.Request] = []

    def handler(req: httpx.Request) -> httpx.Response:
        seen.append(req)
        return httpx.Response(200, json={})

    t = HttpxTransport("http://srv.test", auth=build_plugin(case["auth"]) if case["auth"] else None,
                       bearer_token=case["bearer"],
                       default_headers=dict(case["defaults"]) if case["defaults"] is not None else None)
    await t._client.aclose()
    t._client = httpx.AsyncClient(base_url="http://srv.test", transport=httpx.MockTransport(handler))
    obs = []
    for rq in case["requests"]:
        kw: dict[str, Any] = {"content": rq["body"].encode()}
        for key in ("headers", "params", "cookies"):
            if rq[key] is not None:
                kw[key] = dict(rq[key])
        n0 = len(seen)
        try:
            await t.request("POST", "/p", **kw)
        except ValueError:
            obs.append("ERR")
            continue
        assert len(seen) == n0 + 1
        r = seen[-1]
        hdrs = [[k, v] for k, v in r.headers.multi_items() if k not in HTTPX_OWN]
        params = [[k, v] for k, v in r.url.params.multi_items()]
        cookies = []
        for ch in r.headers.get_list("cookie"):
            for part in ch.split("; "):
                if part:
                    a, _, b = part.partition("=")
                    cookies.append([a, b])
        obs.append({"headers": hdrs, "params": params, "cookies": cookies, "body": r.content.decode()})
    await t.close()
    return obs


# ---------------------------------------------------------------- the property's own oracle
def oracle(case: dict, obs: list) -> list[str]:
    """Expected wire per the documentation, computed independently of the model:
    header names case-insensitive; defaults < request < plugin contributions in order; API key in its place."""
    fails = []
    state = json.loads(json.dumps(case["auth"]))  # plugin states (OAuth2 tokens) persist across requests

    def apply(p, hd, params, cookies):
        k = p["k"]
        if k == "bearer":
            hd["authorization"] = "Bearer " + p["tok"]
        elif k == "headers":
            for a, b in p["hs"]:
                hd[a.lower()] = b
        elif k == "apikey":
            if p["loc"] == "header":
                hd[p["name"].lower()] = p["key"]
            elif p["loc"] == "query":
                params[p["name"]] = p["key"]
            elif p["loc"] == "cookie":
                cookies[p["name"]] = p["key"]
            else:
                raise ValueError
        elif k == "oauth2":
            if p["refresh"] is not None:
                nt = dict(p["refresh"]).get(p["tok"], "")
                if nt and nt != p["tok"]:
                    p["tok"] = nt
            hd["authorization"] = "Bearer " + p["tok"]
        else:
            for q in p["ps"]:
                apply(q, hd, params, cookies)

    for i, (rq, o) in enumerate(zip(case["requests"], obs)):
        hd: dict[str, str] = {}
        for a, b in (case["defaults"] or []):
            hd[a.lower()] = b
        for a, b in (rq["headers"] or []):
            hd[a.lower()] = b
        params = dict(rq["params"] or [])
        cookies = dict(rq["cookies"] or [])
        try:
            if state is not None:
                apply(state, hd, params, cookies)
            elif case["bearer"] is not None:
                hd["authorization"] = "Bearer " + case["bearer"]
            exp: Any = {"headers": hd, "params": params, "cookies": cookies, "body": rq["body"]}
        except ValueError:
            exp = "ERR"
        if exp == "ERR" or o == "ERR":
            if exp != o:
                fails.append(f"request {i}: expected {'error' if exp == 'ERR' else 'a request'}, got {'error' if o == 'ERR' else 'a request'}")
            continue
        got_h: dict[str, list] = {}
        for a, b in o["headers"]:
            got_h.setdefault(a, []).append(b)
        if got_h != {a: [b] for a, b in hd.items()}:
            fails.append(f"request {i}: headers on the wire {got_h} != documented {hd}")
        if sorted(map(tuple, o["params"])) != sorted(params.items()):
            fails.append(f"request {i}: query {o['params']} != documented {params}")
        if sorted(map(tuple, o["cookies"])) != sorted(cookies.items()):
            fails.append(f"request {i}: cookies {o['cookies']} != documented {cookies}")
        if o["body"] != rq["body"]:
            fails.append(f"request {i}: body changed")
    return fails


# ---------------------------------------------------------------- Coq printers
def c_plugin(p: dict) -> str:
    k = p["k"]
    if k == "bearer":
        return f"(Bearer {cstr(p['tok'])})"
    if k == "headers":
        return f"(HeadersP {cdict(p['hs'])})"
    if k == "apikey":
        return f"(ApiKey {cstr(p['key'])} {cstr(p['loc'])} {cstr(p['name'])})"
    if k == "oauth2":
        return f"(OAuth2 {cstr(p['tok'])} {copt(p['refresh'], cdict)})"
    return f"(Composite {clist(c_plugin(q) for q in p['ps'])})"


def c_case(case: dict, obs: list) -> str:
    t = (f"{{| t_defaults := {copt(case['defaults'], cdict)}; t_auth := {copt(case['auth'], c_plugin)}; "
         f"t_bearer := {copt(case['bearer'], cstr)} |}}")
    kws = clist(f"{{| k_headers := {copt(r['headers'], cdict)}; k_params := {copt(r['params'], cdict)}; "
                f"k_cookies := {copt(r['cookies'], cdict)}; k_body := {cstr(r['body'])} |}}" for r in case["requests"])
    os_ = clist("Err" if o == "ERR" else
                f"(Ok ({cdict(o['headers'])}, {cdict(o['params'])}, {cdict(o['cookies'])}, {cstr(o['body'])}))" for o in obs)
    return f"(({t}, {kws}), {os_})"


def canon_dup_dict(d):
    """Python dict(...) drops duplicate keys; the generators never produce them, corpus might."""
    return d


# ---------------------------------------------------------------- entry
def run_one(case: dict) -> dict:
    obs = asyncio.run(run_impl_async(case))
    return {"input": case, "obs": obs, "oracle_fail": oracle(case, obs)}


def main(chk: Check, replay: dict | None = None) -> int:
    if replay is not None:
        r = run_one(replay["input"])
        print(json.dumps(r, indent=1))
        if r["oracle_fail"]:
            print(f"VIOLATION property=C17 replay=(replayed) : {r['oracle_fail']}")
            return 1
        return 0
    proved = chk.prove()
    inputs = [c["input"] for c in load_corpus("C17")]
    inputs += enum_plugin_orders() if chk.thorough else chk.rng.sample(enum_plugin_orders(), 40)
    n = 3000 if chk.thorough else 500
    inputs += [gen_case(chk.rng) for _ in range(n)]
    cases = [run_one(c) for c in inputs]
    chk.cov["evaluations"] = len(cases)
    distinct = {json.dumps(c["input"], sort_keys=True) for c in cases if c["input"]["auth"] or c["input"]["defaults"]}
    chk.cov["distinct_nontrivial"] = len(distinct)
    kinds: dict[str, int] = {}

    def count(p):
        if p is None:
            kinds["none"] = kinds.get("none", 0) + 1
            return
        kinds[p["k"]] = kinds.get(p["k"], 0) + 1
        for q in p.get("ps", []):
            count(q)
    for c in cases:
        count(c["input"]["auth"])
    chk.cov["input_distribution"] = {"plugin_kinds": kinds,
                                     "error_results": sum(1 for c in cases if "ERR" in c["obs"]),
                                     "requests": sum(len(c["input"]["requests"]) for c in cases),
                                     "oracle_failures": sum(1 for c in cases if c["oracle_fail"])}
    for c in cases[:2] + cases[-2:]:
        chk.sample({"input": c["input"], "obs": c["obs"]})
    codes = None
    if chk.model_ok:
        codes = chk.coq_eval("From PG Require Import Lib.Strs Model.Transport Corr.C17.",
                             "(transport * list kwargs) * list obs1",
                             [c_case(c["input"], c["obs"]) for c in cases], "run")
    chk.decide(cases, codes, {}, "Corr.C17.run: session(model) = wire observed under MockTransport")
    return chk.finish(TRUSTED,
                      rule="corpus + ordered selections of the plugin kinds + seeded random transports (defaults/auth tree/"
                           "bearer) x sessions of 1-3 requests; non-trivial = has auth or defaults; distinct by JSON of the input")
