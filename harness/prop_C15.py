"""C15 — spec text can never alter the structure of generated code.

Three correspondence relations, one oracle:
 (i)   lexer model (Model/Escape.v lex_str / lex_comment) vs CPython's tokenizer + literal decoder on random literals;
 (ii)  every modelled rendering site vs the REAL rendering function called directly with hostile / random text;
 (iii) pipeline: text-bearing position of a document x payload -> real generator -> every emitted file.
Oracle (independent of the model): the rendered fragment is one STRING token evaluating to the original text
(value sites) / one docstring statement / one physical comment line; and for (iii) every file parses, the AST
skeleton equals the benign baseline's, the payload is found as an evaluated string constant where it carries meaning.

Seeded changes are tested on a scratch checkout with VERIF_REPO_ROOT=<checkout> ./check C15 (/repo is never written).
"""
from __future__ import annotations

import ast
import contextlib
import copy
import io
import json
import os
import sys
import tokenize
import warnings
from pathlib import Path
from typing import Any, Callable

from framework import Check, cbool, clist, cpair, cstr, load_corpus  # noqa: E402

TRUSTED = [
    "Coq 8.16.1 kernel + vm_compute (witness theorems and correspondence evaluation)",
    "hand-written Gallina model coq/Model/Escape.v: (a) CPython 3.12 string-literal lexer/decoder and comment rule, "
    "validated on every run against tokenize + ast.literal_eval on random literals; DIFFERENTIAL NOTE: \\N{NAME} is deliberately "
    "modelled as an error (no Unicode name table): the model is conservative there - it never calls a literal inert that CPython "
    "rejects, but it rejects \\N{VALID NAME} which CPython accepts; such literals are skipped in relation (i) and counted "
    "(lexer_literals_skipped_named_escape), payloads containing \\N{ are skipped in the predicted-verdict relation; "
    "(b) one function per rendering site, validated on every run against the real rendering function",
    "textwrap (stdlib) inside DocumentationWriter is modelled by its law 'only white space is edited' (Escape.layoutb), "
    "checked against every real docstring rendered in the run",
    "site inventory harness/tables_C15.py (ast, fail-closed): every f-string/%/+/.format that places a value between quotes, "
    "after # or in a docstring template, in the generator's emitting modules, must be classified",
    "pipeline positions: one document shape (harness/prop_C15.py doc()); other shapes may reach a site through a different path",
]

SENT = "zqzsentzqz"
MAXCP = 0x10FFFF

# ---------------------------------------------------------------- hostile dictionary
HOSTILE = [
    'a"b', 'x"', '"', '""', '"""', '""""', 'x""', "'''", "it's", "'", 'c\\d', 'c\\n', '\\', 'ends\\', 'e\\\\', '\\x', '\\x4g',
    '\\x41', '\\u12', '\\u0041', '\\U0011', '\\U00110000', '\\N{DASH}', '\\N', '\\0', '\\777', '\\18', 'a\\"b', '\\\\"', '\\"""',
    '\\ z', 'a\nb', 'a\rb', 'a\r\nb', 'a\\\nb', 'a\x0cb', 'a\x0bb', 'a\x1cb', 'a\x1db', 'a\x1eb', 'a\x1fb', 'a\x85b', 'a\u2028b',
    'a\u2029b', '\u00e9', '\u00fc\u2013\u6f22', '\U0001f600', 'x\U0001f600y', '\uffff', '\U00010000', 'a\x00b', '\x00', '{x}', '{',
    '}', '{{}}', '%s', '%(a)s', '{0}', '#', 'a # b', '"; import os  #', 'x"""\nimport os\n"""', '\t', ' lead', 'trail ', 'a\x7fb',
    'A"B', 'plain', 'two words', 'a-b_c.d/e', 'x' * 100, 'word ' * 30, '"' * 7, '\\' * 5, 'a"""b"""c', "\r", "\n", 'q\\', '""\\',
    "10\n    injected: int = 1", "print('x')", "0 if True else __import__('os').getpid()", "10", "1e3", "-5", "true", "None",
    'a\x1ab', '\ufeff', 'a\\\r\nb', 'tab\there', '\\x4', '\\1', '\\08', 'nul\\0', 'a\u00a0b', 'ends with cr\r', '"\n', 'x\\"',
]
SITE_ONLY_HOSTILE = ['a\ud800b', '\udc00']  # lone surrogates: cannot be written to a file, only fed to render functions

POOL_CHARS = ['"', '"', '\\', '\\', "'", '\n', '\r', '\x0c', '\x85', '\u2028', ' ', ' ', 'a', 'b', 'n', 'x', 'u', 'U', 'N', '0', '1',
              '4', '7', '8', 'f', 'g', '{', '}', '%', '#', '\t', '\x00', '\u00e9', '\u6f22', '\U0001f600', '\x7f', '\x1b', '-', '.']


def rand_text(rng, lo=0, hi=12) -> str:
    n = rng.randint(lo, hi)
    r = rng.random()
    if r < 0.6:
        return "".join(rng.choice(POOL_CHARS) for _ in range(n))
    if r < 0.8:  # random Unicode scalar values
        out = []
        for _ in range(n):
            c = rng.choice([rng.randint(0, 0x7F), rng.randint(0x80, 0x7FF), rng.randint(0x800, 0xFFFF), rng.randint(0x10000, MAXCP)])
            if 0xD800 <= c <= 0xDFFF:
                c = 0x41
            out.append(chr(c))
        return "".join(out)
    return rng.choice(HOSTILE) + "".join(rng.choice(POOL_CHARS) for _ in range(rng.randint(0, 4)))


# ---------------------------------------------------------------- (i) CPython reference lexer
def _tr_nl(s: str) -> str:
    return s.replace("\r\n", "\n").replace("\r", "\n")


def py_lex(s: str):
    """(value, rest) of the string literal at the head of s as CPython reads it, else None.
    rest is given after CPython's newline translation (CR, CRLF -> LF)."""
    s2 = _tr_nl(s)
    try:
        with warnings.catch_warnings():
            warnings.simplefilter("ignore")
            tok = next(tokenize.generate_tokens(io.StringIO(s2).readline))
            if tok.type != tokenize.STRING or tok.start != (1, 0) or tok.string[0] not in "\"'" or tok.string.startswith("'''"):
                return None
            val = ast.literal_eval(tok.string)
    except (tokenize.TokenError, SyntaxError, ValueError, StopIteration, UnicodeError, IndentationError):
        return None
    if not isinstance(val, str):
        return None
    if not s2.startswith(tok.string):
        return None
    return val, s2[len(tok.string):]   # (tok.end columns are unreliable for multi-line tokens with astral characters)


LEX_ALPHA = ['"', '"', '"', '\\', '\\', '\\', "'", "'", 'n', 'r', 't', 'x', 'u', 'U', 'N', '{', '}', '0', '1', '7', '8', '9', 'a', 'f', 'F', 'g',
             'A', '4', '2', '2', '7', '4', '\n', '\r', ' ', '\u00e9', '\U0001f600', '\x0c', 'z', '#']


def gen_literal(rng) -> str:
    body = "".join(rng.choice(LEX_ALPHA) for _ in range(rng.randint(0, 10)))
    r = rng.random()
    rest = rng.choice(["", ",", ": 1", "\n", " # c", ")", " x", '"', "'"])
    if r < 0.12:   # single-quoted literal (the model runs the same machine with the apostrophe as quote character)
        return "'" + body.replace("\n", "n") + "'" + rest
    if r < 0.5:
        return '"' + body + '"' + rest
    if r < 0.85:
        return '"""' + body + '"""' + rest
    if r < 0.95:
        return body + rest
    return '"' + body  # unterminated


def lex_corpus() -> list[str]:
    return ['""', '"""', '""""', '"""a"""', '"a"b"', '"a\\"b"', '"c\\d"', '"\\x41"', '"\\x4"', '"\\u00e9"', '"\\U0001f600"',
            '"\\U00110000"', '"\\ud83d\\ude00"', '"\\N{DASH}"', '"\\777"', '"\\18"', '"\\0"', '"a\nb"', '"a\rb"', '"""a\rb"""',
            '"""a\r\nb"""', '"a\\\nb"', '"a\\\r\nb"', '"""a\\"""', '"""a\\""""', '"""a""""', '"""a"" """', '"a\x00b"', '"a',
            '"""a""', 'x"a"', '"" "', '"\\', '"""\\', '"\\\r"', '"""\\\r"""', '"\\8"', '"\\x4\n1"', '"\\U0010FFFF"', '"\\U0010ffff1"', '"a\ud800b"', '"\\ud800"',
            '"""\udfff"""', "'a'", "'a\\'b'", "'a\"b'", "'a'b'", "'\\x41\\u00e9'", "''", "'' x", "'a\nb'", "'\\\"'", "'\\47'", "'\\x27'", "'\\42\\x22\\u0027\\U00000022'", '"\\47\\42\\x27\\x22"', "'\"\"\\47\"#8{7'\n",
            "'\\t\\47'UA8': 1", '"""\\47\\42"""', "'\\047x'"]


def c_lex_case(s: str, exp) -> str:
    e = "None" if exp is None else f"(Some ({cstr(exp[0])}, {cstr(exp[1])}))"
    return f"({cstr(s)}, {e})"


# ---------------------------------------------------------------- (ii) the real rendering sites
@contextlib.contextmanager
def fixed_docwriter():
    """isolate a non-docstring site of PythonConstructRenderer: the class docstring (another site) is held fixed"""
    from pyopenapi_gen.core.writers import documentation_writer as dw
    orig = dw.DocumentationWriter.render_docstring
    dw.DocumentationWriter.render_docstring = lambda self, doc, indent=0: '"""D"""'
    try:
        yield
    finally:
        dw.DocumentationWriter.render_docstring = orig


def _ctx():
    from pyopenapi_gen.context.render_context import RenderContext
    return RenderContext(core_package_name="core")


def r_enum_value(t: str) -> str:
    from pyopenapi_gen.core.writers.python_construct_renderer import PythonConstructRenderer
    with fixed_docwriter():
        return PythonConstructRenderer().render_enum("E", "str", [("A", t)], None, _ctx())


def r_meta_key(t: str) -> str:
    from pyopenapi_gen.core.writers.python_construct_renderer import PythonConstructRenderer
    with fixed_docwriter():
        return PythonConstructRenderer().render_dataclass("C", [("f", "str", None, None)], None, _ctx(), field_mappings={t: "f"})


def r_disc_prop(t: str) -> str:
    from pyopenapi_gen.core.writers.python_construct_renderer import PythonConstructRenderer
    from pyopenapi_gen.ir import IRDiscriminator
    return PythonConstructRenderer().render_alias("U", "Union[A, B]", None, _ctx(),
                                                  IRDiscriminator(property_name=t, mapping={"v": "#/components/schemas/A"}))


def r_disc_value(t: str) -> str:
    from pyopenapi_gen.core.writers.python_construct_renderer import PythonConstructRenderer
    from pyopenapi_gen.ir import IRDiscriminator
    return PythonConstructRenderer().render_alias("U", "Union[A, B]", None, _ctx(),
                                                  IRDiscriminator(property_name="kind", mapping={t: "#/components/schemas/A"}))


def through_block(code: str) -> str:
    """endpoint_visitor passes every method's code through CodeWriter.write_block inside the class body"""
    from pyopenapi_gen.core.writers.code_writer import CodeWriter
    w = CodeWriter()
    w.indent()
    w.write_block(code)
    return w.get_code()


def _url_args(kind: str, required: bool) -> Callable[[str], str]:
    def r(t: str) -> str:
        from pyopenapi_gen.core.writers.code_writer import CodeWriter
        from pyopenapi_gen.visit.endpoint.generators.url_args_generator import EndpointUrlArgsGenerator
        w = CodeWriter()
        g = EndpointUrlArgsGenerator()
        p = [{"name": "p", "original_name": t, "param_in": kind, "required": required}]
        (g._write_query_params if kind == "query" else g._write_header_params)(w, None, p, _ctx())
        return through_block(w.get_code())
    return r


def r_media_overload(t: str) -> str:
    """overload_generator._generate_single_overload: content_type: Literal[…] = … (whole @overload stub, through write_block)"""
    from types import SimpleNamespace as NS
    from pyopenapi_gen.ir import IRSchema
    from pyopenapi_gen.visit.endpoint.generators.overload_generator import OverloadMethodGenerator
    import logging
    logging.disable(logging.CRITICAL)
    try:
        code = OverloadMethodGenerator({})._generate_single_overload(
            NS(parameters=[], operation_id="op"), t, IRSchema(name=None, type="string", format="binary"), _ctx(), NS(return_type="None"))
    finally:
        logging.disable(logging.NOTSET)
    return through_block(code)


def _eval_fstring_site(module, prefix: str, env: dict) -> str:
    src = Path(module.__file__).read_text()
    for n in ast.walk(ast.parse(src)):
        if isinstance(n, ast.JoinedStr):
            consts = "".join(v.value for v in n.values if isinstance(v, ast.Constant))
            if consts.startswith(prefix):
                return eval(compile(ast.Expression(n), "<site>", "eval"), dict(env))
    raise RuntimeError(f"{module.__name__}: f-string starting with {prefix!r} not found")


def r_media_repr(t: str) -> str:
    """url_args_generator: Content-Type of a raw bytes body, f'... {raw_content_type!r} ...' (evaluated in isolation: the
    template and the conversion are the real ones, no surrounding state is involved), then write_block"""
    from pyopenapi_gen.visit.endpoint.generators import url_args_generator as ug
    return through_block(_eval_fstring_site(ug, '    **({"Content-Type": ', {"raw_content_type": t}))


def r_default(t: str) -> str:
    from pyopenapi_gen.ir import IRSchema
    from pyopenapi_gen.core.writers.python_construct_renderer import PythonConstructRenderer
    from pyopenapi_gen.visit.model.dataclass_generator import DataclassGenerator
    g = DataclassGenerator(PythonConstructRenderer(), {})
    return "x: str = " + str(g._get_field_default(IRSchema(name=None, type="string", default=t), _ctx()))


def _typed_default(ty: str | None, name: str | None = None) -> Callable[[str], str]:
    def r(t: str) -> str:
        from pyopenapi_gen.ir import IRSchema
        from pyopenapi_gen.core.writers.python_construct_renderer import PythonConstructRenderer
        from pyopenapi_gen.visit.model.dataclass_generator import DataclassGenerator
        g = DataclassGenerator(PythonConstructRenderer(), {})
        return "x: Any = " + str(g._get_field_default(IRSchema(name=name, type=ty, default=t), _ctx()))
    return r


def r_enum_default(t: str) -> str:
    """string default on a property whose schema is a named enum: rendered as Name.MEMBER"""
    from pyopenapi_gen.ir import IRSchema
    from pyopenapi_gen.core.writers.python_construct_renderer import PythonConstructRenderer
    from pyopenapi_gen.visit.model.dataclass_generator import DataclassGenerator
    g = DataclassGenerator(PythonConstructRenderer(), {"Color": IRSchema(name="Color", type="string", enum=["a", "b"])})
    return "x: Color = " + str(g._get_field_default(IRSchema(name="Color", type="string", default=t), _ctx()))


def r_alias_doc(t: str) -> str:
    from pyopenapi_gen.core.writers.python_construct_renderer import PythonConstructRenderer
    return PythonConstructRenderer().render_alias("A", "str", t, _ctx())


def r_field_comment(opt: bool) -> Callable[[str], str]:
    def r(t: str) -> str:
        from pyopenapi_gen.core.writers.python_construct_renderer import PythonConstructRenderer
        with fixed_docwriter():
            return PythonConstructRenderer().render_dataclass("C", [("f", "str", '"d"' if opt else None, t)], None, _ctx())
    return r


def r_wrapper_doc(typed: bool) -> Callable[[str], str]:
    def r(t: str) -> str:
        from pyopenapi_gen.core.writers.python_construct_renderer import PythonConstructRenderer
        from pyopenapi_gen.visit.model.dataclass_generator import DataclassGenerator
        g = DataclassGenerator(PythonConstructRenderer(), {})
        if typed:
            return g._generate_typed_wrapper_class("W", "int", t, _ctx())
        return g._generate_untyped_wrapper_class("W", t, _ctx())
    return r


def r_client_desc(t: str) -> str:
    """client_visitor._generate_client_implementation: info.description inside the APIClient class docstring"""
    from pyopenapi_gen.ir import IRSpec
    from pyopenapi_gen.context.render_context import RenderContext
    from pyopenapi_gen.visit.client_visitor import ClientVisitor
    ctx = RenderContext(core_package_name="core", output_package_name="client")
    return ClientVisitor()._generate_client_implementation(IRSpec(title="T", version="1.0", description=t), ctx, [])


def _docwriter(role: str) -> Callable[[str], str]:
    def r(t: str) -> str:
        from pyopenapi_gen.core.writers.documentation_writer import DocumentationBlock, DocumentationWriter
        kw: dict[str, Any] = {"summary": "Sum."}
        if role == "summary":
            kw["summary"] = t
        elif role == "description":
            kw["description"] = t
        elif role == "argname":
            kw["args"] = [(t, "str", "Value for A")]
        elif role == "argdesc":
            kw["args"] = [("name", "str", t), ("other", "int", "d")]
        elif role == "returns":
            kw["returns"] = ("Item", t)
        elif role == "raises":
            kw["raises"] = [("HTTPError", t)]
        return DocumentationWriter(width=88).render_docstring(DocumentationBlock(**kw), indent=0)
    return r


# site table: id -> (number, kind, finding bit, real renderer, lead, trail)
#   kind 'dq'      : fragment = lead..trail around the text is the "…" literal, model = site function
#   kind 'doc'     : fragment is a docstring with fixed lead/trail template text, model = site function
#   kind 'block'   : fragment = the whole docstring around the text; pre/post are read from the sentinel render
#   kind 'docw'    : DocumentationWriter output (relational model)
#   kind 'comment' : fragment = "  # …" to the end of the output line
# F15a-l are FIXED in /repo: a failure at any text site is a VIOLATION
FIND: dict[str, int] = {}
SITES: dict[str, dict] = {
    "enum_value":     {"n": 1, "kind": "dq", "f": "F15a", "r": r_enum_value},
    "meta_key":       {"n": 2, "kind": "dq", "f": "F15b", "r": r_meta_key},
    "disc_prop":      {"n": 3, "kind": "dq", "f": "F15i", "r": r_disc_prop},
    "disc_value":     {"n": 4, "kind": "dq", "f": "F15i", "r": r_disc_value},
    "query_key":      {"n": 5, "kind": "dq", "f": "F15f", "r": _url_args("query", True)},
    "query_key_opt":  {"n": 5, "kind": "dq", "f": "F15f", "r": _url_args("query", False)},
    "header_key":     {"n": 6, "kind": "dq", "f": "F15f", "r": _url_args("header", True)},
    "header_key_opt": {"n": 6, "kind": "dq", "f": "F15f", "r": _url_args("header", False)},
    "media_type":     {"n": 7, "kind": "dq", "f": "F15j", "r": r_media_overload},
    "media_repr":     {"n": 20, "kind": "dq", "f": None, "r": r_media_repr},
    "default":        {"n": 8, "kind": "dq", "f": "F15h", "r": r_default},
    "default_int":    {"n": 8, "kind": "dq", "f": "F15h", "r": _typed_default("integer")},
    "default_num":    {"n": 8, "kind": "dq", "f": "F15h", "r": _typed_default("number")},
    "default_bool":   {"n": 8, "kind": "dq", "f": "F15h", "r": _typed_default("boolean")},
    "default_notype": {"n": 8, "kind": "dq", "f": "F15h", "r": _typed_default(None)},
    "default_named_obj": {"n": 8, "kind": "dq", "f": "F15h", "r": _typed_default("object", "Thing")},
    "enum_default":   {"n": 17, "kind": "dq", "f": None, "r": r_enum_default},
    "alias_doc":      {"n": 9, "kind": "doc", "f": "F15c", "r": r_alias_doc, "lead": len('"""Alias for '), "trail": 3, "skip_empty": True},
    "field_comment":  {"n": 10, "kind": "comment", "f": "F15e", "r": r_field_comment(False), "skip_empty": True},
    "field_comment_opt": {"n": 10, "kind": "comment", "f": "F15e", "r": r_field_comment(True), "skip_empty": True},
    "wrapper_doc":    {"n": 11, "kind": "block", "f": "F15k", "r": r_wrapper_doc(False)},
    "wrapper_doc_typed": {"n": 11, "kind": "block", "f": "F15k", "r": r_wrapper_doc(True)},
    "client_desc":    {"n": 16, "kind": "block", "f": None, "r": r_client_desc, "skip_empty": True},
    "docw_summary":   {"n": 12, "kind": "docw", "f": "F15d", "r": _docwriter("summary"), "skip_empty": True},
    "docw_description": {"n": 12, "kind": "docw", "f": "F15d", "r": _docwriter("description"), "skip_empty": True},
    "docw_argname":   {"n": 12, "kind": "docw", "f": "F15d", "r": _docwriter("argname")},
    "docw_argdesc":   {"n": 12, "kind": "docw", "f": "F15d", "r": _docwriter("argdesc")},
    "docw_returns":   {"n": 12, "kind": "docw", "f": "F15d", "r": _docwriter("returns")},
    "docw_raises":    {"n": 12, "kind": "docw", "f": "F15d", "r": _docwriter("raises")},
}
_BASE: dict[str, dict] = {}


def site_base(sid: str) -> dict:
    """render with the sentinel and derive the fixed surroundings of the site"""
    if sid in _BASE:
        return _BASE[sid]
    S = SITES[sid]
    base = S["r"](SENT)
    k = S["kind"]
    info: dict[str, Any] = {"base": base}
    if k == "ident":
        i = base.find(SENT.upper())
        if i < 0:
            raise RuntimeError(f"site {sid}: sentinel not found in the real rendering")
        info["parts"] = [base[:i], base[i + len(SENT):]]
        _BASE[sid] = info
        return info
    if SENT not in base:
        raise RuntimeError(f"site {sid}: sentinel not found in the real rendering")
    if k in ("dq", "doc", "comment"):
        lead = {"dq": 1, "comment": 4}.get(k, S.get("lead", 0))
        trail = {"dq": 1, "comment": 0}.get(k, S.get("trail", 0))
        parts, pos = [], 0
        while True:
            i = base.find(SENT, pos)
            if i < 0:
                break
            parts.append(base[pos:i - lead])
            pos = i + len(SENT) + trail
        parts.append(base[pos:])
        info["parts"] = parts
    elif k == "block":
        i = base.find(SENT)
        a = base.rfind('"""', 0, i)
        b = base.find('"""', i)
        info.update(pre_out=base[:a], post_out=base[b + 3:], pre=base[a + 3:i], post=base[i + len(SENT):b])
        info["parts"] = [info["pre"], info["post"]]
    else:  # docw: whole output is the docstring; source text = inner text with the sentinel replaced
        inner = base[3:-3]
        info["parts"] = inner.split(SENT)
    _BASE[sid] = info
    return info


def fragments(sid: str, out: str) -> list[str] | None:
    """the rendered site fragment(s) cut out of the real output using the fixed surroundings; None if they moved"""
    S, info = SITES[sid], site_base(sid)
    k = S["kind"]
    if k == "docw":
        return [out]
    if k == "ident":
        pre, post = info["parts"]
        if out.startswith(pre) and out.endswith(post) and len(out) >= len(pre) + len(post):
            return [out[len(pre): len(out) - len(post)]]
        return None
    if k == "block":
        if out.startswith(info["pre_out"]) and out.endswith(info["post_out"]) and len(out) >= len(info["pre_out"]) + len(info["post_out"]):
            return [out[len(info["pre_out"]): len(out) - len(info["post_out"])]]
        return None
    parts = info["parts"]
    n = len(parts) - 1
    tot = len(out) - sum(len(p) for p in parts)
    if n <= 0 or tot < 0 or tot % n:
        return None
    L = tot // n
    frag = out[len(parts[0]): len(parts[0]) + L]
    if frag.join(parts) != out:
        return None
    return [frag] * n


def _parse_ok(src: str):
    try:
        with warnings.catch_warnings():
            warnings.simplefilter("ignore")
            return ast.parse(src)
    except (SyntaxError, ValueError, UnicodeError, RecursionError, MemoryError):
        return None


def oracle_fragment(kind: str, frag: str, t: str) -> list[str]:
    """the property's statement on one rendered fragment, evaluated with CPython only"""
    if kind == "dq":
        m = _parse_ok("X = (" + frag + "\n)")
        if m is None:
            return ["value literal does not parse"]
        v = m.body[0].value if len(m.body) == 1 and isinstance(m.body[0], ast.Assign) else None
        if not (isinstance(v, ast.Constant) and isinstance(v.value, str)):
            return ["value literal is no longer a single string literal"]
        try:
            toks = [x for x in tokenize.generate_tokens(io.StringIO(_tr_nl(frag)).readline)
                    if x.type not in (tokenize.NEWLINE, tokenize.NL, tokenize.ENDMARKER)]
        except (tokenize.TokenError, SyntaxError, IndentationError):
            return ["value literal does not tokenize"]
        if len(toks) != 1 or toks[0].type != tokenize.STRING:
            return ["value literal is more than one token"]
        if v.value != t:
            return [f"value literal evaluates to {v.value!r:.60}, not the original text"]
        return []
    if kind in ("doc", "block", "docw"):
        if frag == "":
            return []
        m = _parse_ok(frag + "\nX = 1\n")
        if m is None:
            return ["docstring does not parse"]
        if not (len(m.body) == 2 and isinstance(m.body[0], ast.Expr) and isinstance(m.body[0].value, ast.Constant)
                and isinstance(m.body[0].value.value, str) and isinstance(m.body[1], ast.Assign)):
            return ["text escaped from the docstring (statements changed)"]
        return []
    if kind == "ident":
        m = _parse_ok("X = C." + frag + "\n")
        if m is None:
            return ["attribute name does not parse"]
        if not (len(m.body) == 1 and isinstance(m.body[0], ast.Assign) and isinstance(m.body[0].value, ast.Attribute)
                and isinstance(m.body[0].value.value, ast.Name)):
            return ["text escaped from the attribute name (expression/statements changed)"]
        return []
    if kind == "comment":
        m = _parse_ok("x = 1" + frag + "\ny = 2\n")
        if m is None:
            return ["comment line does not parse"]
        if ast.dump(m) != ast.dump(ast.parse("x = 1\ny = 2\n")):
            return ["text escaped from the comment (statements changed)"]
        return []
    raise ValueError(kind)


def run_site(sid: str, t: str) -> dict:
    S = SITES[sid]
    try:
        out = S["r"](t)
        err = None
    except Exception as e:  # noqa: BLE001
        out, err = None, f"{type(e).__name__}: {e}"[:200]
    case: dict[str, Any] = {"input": {"site": sid, "text": t}, "obs": out, "oracle_fail": []}
    if out is None:
        case["oracle_fail"] = [f"site {sid}: rendering raised {err}"]
        return case
    fr = fragments(sid, out)
    case["frags"] = fr
    if fr is None:
        # text changed the output outside the site: judge the whole output instead
        case["oracle_fail"] = [f"site {sid}: text altered the rendering outside the site's fragment"]
        return case
    for f in fr[:1]:
        case["oracle_fail"] += [f"site {sid}: {m}" for m in oracle_fragment(S["kind"], f, t)]
    return case


def c_site_case(case: dict) -> str:
    sid, t = case["input"]["site"], case["input"]["text"]
    S, info = SITES[sid], site_base(sid)
    out = case["obs"] if case["obs"] is not None else ""
    if S["kind"] == "block":
        fr = case.get("frags")
        out = fr[0] if fr else "\x01unisolated"
    parts = list(info["parts"])
    if S["kind"] == "ident":
        parts.append(t.upper())      # str.upper is Unicode-aware: supplied to the model for non-ASCII text
    if S["n"] == 20:                 # str.isprintable on the non-ASCII characters of t: Unicode data base oracle of repr
        parts.append("".join(sorted({ch for ch in t if ord(ch) >= 128 and ch.isprintable()})))
    return f"({S['n']}, ({cstr(t)}, ({clist(cstr(p) for p in parts)}, {cstr(out)})))"


# ---------------------------------------------------------------- (iii) pipeline
def doc(T: dict[str, str] | None = None) -> dict:
    T = T or {}
    g = lambda k: T.get(k, "zq" + k)  # noqa: E731
    return {
        "openapi": "3.0.3",
        "info": {"title": g("title"), "version": "1.0", "description": g("infodesc"), "termsOfService": g("tos"),
                 "contact": {"name": g("contact"), "url": "https://e.test/", "email": "a@e.test"},
                 "license": {"name": g("license")}},
        "servers": [{"url": "https://api.e.test/v1", "description": g("serverdesc")}],
        "externalDocs": {"description": g("extdocs"), "url": "https://e.test/docs"},
        "tags": [{"name": "zqtag", "description": g("tagdesc"), "externalDocs": {"description": g("tagextdocs"), "url": "https://e.test/t"}}],
        "paths": {"/items/{id}": {
            "get": {"operationId": "get_item", "tags": [g("tag")], "summary": g("summary"), "description": g("opdesc"),
                    "parameters": [
                        {"name": "id", "in": "path", "required": True, "schema": {"type": "string"}, "description": g("pdesc")},
                        {"name": g("qname"), "in": "query", "required": False, "description": g("qdesc"), "example": g("pexample"),
                         "schema": {"type": "string", "default": g("pdefault")}},
                        {"name": g("hname"), "in": "header", "required": True, "description": g("hdesc"), "schema": {"type": "string"}}],
                    "externalDocs": {"description": g("opextdocs"), "url": "https://e.test/o"},
                    "responses": {"200": {"description": g("respdesc"),
                                          "content": {"application/json": {"schema": {"$ref": "#/components/schemas/Item"}}}},
                                  "2XX": {"description": g("rangedesc")},
                                  "404": {"description": g("errdesc")},
                                  "default": {"description": g("defaultdesc"),
                                              "content": {"application/json": {"schema": {"$ref": "#/components/schemas/Item"}}}}}},
            "post": {"operationId": "put_item", "tags": [g("tag")], "summary": g("summary2"),
                     "parameters": [{"name": "id", "in": "path", "required": True, "schema": {"type": "string"}}],
                     "requestBody": {"description": g("bodydesc"), "required": True, "content": {
                         "application/json": {"schema": {"$ref": "#/components/schemas/Item"}},
                         g("media"): {"schema": {"type": "string", "format": "binary"}}}},
                     "responses": {"200": {"description": "ok", "content": {
                         "application/json": {"schema": {"$ref": "#/components/schemas/Item"}}}}}},
            "patch": {"operationId": "put_blob", "tags": [g("tag")], "summary": "Blob.",
                      "parameters": [{"name": "id", "in": "path", "required": True, "schema": {"type": "string"}}],
                      "requestBody": {"required": True, "content": {g("media2"): {"schema": {"type": "string", "format": "binary"}}}},
                      "responses": {"204": {"description": "ok"}}},
            "delete": {"operationId": "multi_item", "tags": [g("tag")], "summary": "Multi.",
                       "parameters": [{"name": "id", "in": "path", "required": True, "schema": {"type": "string"}}],
                       "responses": {"200": {"description": "ok", "content": {     # several response media types: the
                           "application/json": {"schema": {"$ref": "#/components/schemas/Item"}},   # handler dispatches on
                           g("rmedia"): {"schema": {"type": "string"}},                             # content_type == <literal>
                           "text/plain": {"schema": {"type": "integer"}}}}}},
            "put": {"operationId": "set_item", "tags": [g("tag")], "summary": "Set.",
                    "parameters": [{"name": "id", "in": "path", "required": True, "schema": {"type": "string"}}],
                    "requestBody": {"description": g("bodydesc"), "required": True, "content": {
                        "application/json": {"schema": {"$ref": "#/components/schemas/Item"}}}},
                    "responses": {"204": {"description": g("nocontentdesc")}}}}},
        "components": {"schemas": {
            "Item": {"type": "object", "description": g("schemadesc"), "required": ["name"], "example": {"name": g("schemaexample")},
                     "externalDocs": {"description": g("schemaextdocs"), "url": "https://e.test/s"}, "x-note": g("xfield"), "properties": {
                "name": {"type": "string", "description": g("propdesc"), "example": g("propexample")},
                g("propname"): {"type": "string"},
                "note": {"type": "string", "default": g("default"), "description": g("propdesc2")},
                "d_int": {"type": "integer", "default": g("dint")},
                "d_num": {"type": "number", "default": g("dnum")},
                "d_bool": {"type": "boolean", "default": g("dbool")},
                "d_arr": {"type": "array", "items": {"type": "string"}, "default": g("darr")},
                "d_obj": {"type": "object", "default": g("dobj")},
                "d_none": {"default": g("dnone")},
                "d_inlenum": {"type": "string", "enum": ["a", "b"], "default": g("dinlenum")},
                "d_allof": {"allOf": [{"$ref": "#/components/schemas/Color"}], "default": g("dallof")},
                "color": {"$ref": "#/components/schemas/Color"},
                "pet": {"$ref": "#/components/schemas/Pet"},
                "bag": {"$ref": "#/components/schemas/Bag"},
                "uid": {"$ref": "#/components/schemas/Uid"}}},
            "Color": {"type": "string", "description": g("enumdesc"), "enum": ["red", g("enumval")], "default": g("enumdefault")},
            "Uid": {"type": "string", "description": g("aliasdesc"), "default": g("aliasdefault")},
            "Bag": {"type": "object", "description": g("wrapdesc"), "additionalProperties": True},
            "Cat": {"type": "object", "properties": {"kind": {"type": "string"}, "m": {"type": "integer"}}},
            "Dog": {"type": "object", "properties": {"kind": {"type": "string"}, "w": {"type": "integer"}}},
            "Pet": {"oneOf": [{"$ref": "#/components/schemas/Cat"}, {"$ref": "#/components/schemas/Dog"}],
                    "description": g("uniondesc"),
                    "discriminator": {"propertyName": g("discprop"),
                                      "mapping": {g("discval"): "#/components/schemas/Cat", "dog": "#/components/schemas/Dog"}}}}},
    }


# position -> (value-carrying?, [(model site number, how the text reaches it)])   site numbers as in Corr/C15.v:
#   1..12 as SITES; 13 tag_doc ("""Client for 't' endpoints."""), 14 block docstring line (raw text on a line inside """),
#   15 client docstring title line (rstrip '"'), 16 client docstring description (""" -> ', ''' -> ', \ doubled, strip)
POSITIONS: dict[str, dict] = {
    "title":     {"value": False, "sites": [15]},
    "infodesc":  {"value": False, "sites": [16]},
    "tag":       {"value": False, "sites": [13, 12, 14]},
    "summary":   {"value": False, "sites": [12]},
    "opdesc":    {"value": False, "sites": [12]},
    "pdesc":     {"value": False, "sites": [12]},
    "qname":     {"value": True, "sites": [5, 12]},
    "hname":     {"value": True, "sites": [6, 12]},
    # every response description (per status code, the 2XX range, default, 204) and the other free-text fields of a document:
    # positions with no modelled site are predicted inert, so ANY effect of their text on the emitted files is a VIOLATION
    "rangedesc": {"value": False, "sites": []},
    "defaultdesc": {"value": False, "sites": []},
    "nocontentdesc": {"value": False, "sites": []},
    "qdesc":     {"value": False, "sites": [12]},
    "hdesc":     {"value": False, "sites": [12]},
    "pexample":  {"value": False, "sites": []},
    "propexample": {"value": False, "sites": []},
    "schemaexample": {"value": False, "sites": []},
    "xfield":    {"value": False, "sites": []},
    "tagdesc":   {"value": False, "sites": []},
    "tagextdocs": {"value": False, "sites": []},
    "extdocs":   {"value": False, "sites": []},
    "opextdocs": {"value": False, "sites": []},
    "schemaextdocs": {"value": False, "sites": []},
    "serverdesc": {"value": False, "sites": []},
    "contact":   {"value": False, "sites": []},
    "license":   {"value": False, "sites": []},
    "tos":       {"value": False, "sites": []},
    "respdesc":  {"value": False, "sites": [12]},
    "errdesc":   {"value": False, "sites": [12]},
    "summary2":  {"value": False, "sites": [14]},
    "bodydesc":  {"value": False, "sites": [12]},
    "media":     {"value": True, "sites": [7, 14, 12]},
    "media2":    {"value": True, "sites": [20, 12]},
    "rmedia":    {"value": True, "sites": [7]},      # response handler: elif content_type == python_string_literal(t.lower())
    "schemadesc": {"value": False, "sites": [12]},
    "propdesc":  {"value": False, "sites": [12, 10]},
    "propdesc2": {"value": False, "sites": [12, 10]},
    "propname":  {"value": True, "sites": [2, 12, 10]},
    "default":   {"value": True, "sites": [8]},
    "enumval":   {"value": True, "sites": [1, 12]},
    "enumdesc":  {"value": False, "sites": [12, 10]},
    "aliasdesc": {"value": False, "sites": [9, 12, 10]},
    "wrapdesc":  {"value": False, "sites": [14, 12, 10]},
    "uniondesc": {"value": False, "sites": [9, 12, 10]},
    # a STRING default on a property of every declared type (the unchanged generator json.dumps-escapes all of them,
    # drops it for arrays, and turns it into an attribute name for enum-typed properties); parameter defaults are not rendered
    "dint":      {"value": True, "sites": [8]},
    "dnum":      {"value": True, "sites": [8]},
    "dbool":     {"value": True, "sites": [8]},
    "dobj":      {"value": True, "sites": [8]},
    "dnone":     {"value": True, "sites": [8]},
    "dinlenum":  {"value": True, "sites": [8]},
    "dallof":    {"value": True, "sites": [8]},
    "aliasdefault": {"value": True, "sites": [8]},
    "darr":      {"value": False, "sites": []},
    "pdefault":  {"value": False, "sites": []},
    "enumdefault": {"value": True, "sites": [17]},
    "discprop":  {"value": True, "sites": [3]},
    "discval":   {"value": True, "sites": [4]},
}
def sites_for(pos: str, t: str) -> list[int]:
    return POSITIONS[pos]["sites"]


SITE_FINDING: dict[int, str] = {}


def skeleton(tree: ast.AST) -> str:
    """node types only: no identifiers, no constants (their Python type is kept), no docstring content"""
    def go(n: ast.AST) -> str:
        kids = ",".join(go(c) for c in ast.iter_child_nodes(n) if not isinstance(c, (ast.expr_context, ast.operator, ast.cmpop,
                                                                                      ast.boolop, ast.unaryop)))
        if isinstance(n, ast.ClassDef):   # fields are emitted sorted by (derived) name: order inside a class body is not structure
            kids = ",".join(sorted(go(c) for c in ast.iter_child_nodes(n)))
        nm = type(n).__name__
        if isinstance(n, ast.Constant):
            nm += ":" + type(n.value).__name__
        return f"{nm}({kids})" if kids else nm
    return go(tree)


def str_constants(tree: ast.AST) -> set[str]:
    return {n.value for n in ast.walk(tree) if isinstance(n, ast.Constant) and isinstance(n.value, str)}


def observe_package(spec: dict) -> dict:
    """generate with the real generator; parse every emitted file from its BYTES (as the interpreter would)"""
    from pipeline import generate
    g = generate(spec)
    try:
        if not g.ok:
            return {"gen_error": g.error}
        files: dict[str, Any] = {}
        consts: set[str] = set()
        bad = []
        for p in g.py_files():
            rel = str(p.relative_to(g.root))
            if "/core/" in rel:
                continue
            try:
                with warnings.catch_warnings():
                    warnings.simplefilter("ignore")
                    tree = ast.parse(p.read_bytes())
                files[rel] = skeleton(tree)
                consts |= str_constants(tree)
            except (SyntaxError, ValueError, UnicodeError) as e:
                bad.append(f"{rel}: {type(e).__name__}: {str(e)[:80]}")
        return {"skeletons": sorted(files.values()), "bad": sorted(bad), "consts": consts, "nfiles": len(files) + len(bad)}
    finally:
        g.cleanup()


_BASELINE: dict | None = None


def baseline() -> dict:
    global _BASELINE
    if _BASELINE is None:
        _BASELINE = observe_package(doc())
        if _BASELINE.get("gen_error") or _BASELINE.get("bad"):
            raise RuntimeError(f"benign baseline does not generate/parse: {_BASELINE}")
    return _BASELINE


NAME_POSITIONS = {"tag", "qname", "hname", "propname", "enumval", "discval"}
# positions whose text is ALSO turned into an identifier / sort key by the generator: the payload is prefixed with "zq" so
# that name derivation (property C20) yields a non-empty name sorting where the baseline's does; C15 is about the text sites


def payload_for(pos: str, p: str) -> str:
    return "zq" + p if pos in NAME_POSITIONS else p


def run_pipeline(pos: str, payload: str) -> dict:
    base = baseline()
    o = observe_package(doc({pos: payload}))
    fails: list[str] = []
    if o.get("gen_error"):
        obs: Any = {"gen_error": o["gen_error"][:200]}
        fails.append(f"position {pos}: the generator raised on this text: {o['gen_error'][:120]}")
    else:
        obs = {"bad": o["bad"], "skeleton_equal": o["skeletons"] == base["skeletons"], "nfiles": o["nfiles"],
               "value_found": (payload in o["consts"] or payload.lower() in o["consts"]) if POSITIONS[pos]["value"] else None}
        if o["bad"]:
            fails.append(f"position {pos}: emitted file does not parse: {o['bad'][0]}")
        elif not obs["skeleton_equal"]:
            fails.append(f"position {pos}: classes/functions/statements differ from the benign-text baseline")
        elif obs["value_found"] is False:
            fails.append(f"position {pos}: the text is not recovered as an evaluated string literal")
    return {"input": {"position": pos, "text": payload}, "obs": obs, "oracle_fail": fails}


def c_pipe_case(case: dict) -> str:
    pos, t = case["input"]["position"], case["input"]["text"]
    P = POSITIONS[pos]
    ok = not case["oracle_fail"]
    return f"(({clist(str(n) for n in sites_for(pos, t))}, {cstr(t)}), {cbool(ok)})"


# ---------------------------------------------------------------- (iv) names: text the generator turns into identifiers
# Un-prefixed non-ASCII / symbol names in every name-bearing position.  The oracle is the pipeline oracle (every file parses,
# same skeleton as benign).  Failures that exist on the unchanged tree are the C20 findings F20a/b/c/h/k; they are attributed
# by an executable predicate on the name (Corr.C15.name_guards, from C20's model of the sanitisers), so that a NEW class of
# bad name (e.g. a sanitiser that lets through a character identifiers reject) is a VIOLATION.
NAME_KINDS = {"propname": 1, "qname": 1, "hname": 1, "pathvar": 1, "opid": 1, "tag": 2, "schemaname": 3}
NAMES = ['$', '_', '\u00e9', '\U0001f600', '\u00b2', 'area_m\u00b2', '\u00bd', '\u2460x', '1st', '9', 'class', 'None', 'import', 'a b',
         'a-b', 'a.b', 'gr\u00f6\u00dfe', '\u540d\u524d', 'x\u00b2', 'user id', 'Global', 'def', 'a_b', 'aB', 'ab', 'true', '__x__', 'A',
         'lambda', '3d', 'x\u0301', 'm\u00b3_per_h', 'half\u00bd', 'n\u2460', "it's", 'x y-z.w', '\u0661\u0662', '\ufb01le', '\uff21b']
NAME_ALPHA = list("abzAZ019_-. $'") + ['\u00e9', '\u00df', '\u540d', '\u00b2', '\u00b3', '\u00bd', '\u2460', '\u0661', '\U0001f600', '\u0301']
_TAKEN = {"multi_item", "put_blob", "id", "body", "files", "form_data", "bytes_content", "self", "name", "note", "color", "pet", "bag", "uid", "content_type",
          "d_int", "d_num", "d_bool", "d_arr", "d_obj", "d_none", "d_inlenum", "d_allof", "zqqname", "zqhname", "zqpropname",
          "item", "cat", "dog", "item_d_obj", "item_d_none", "item_d_inlenum", "item_d_allof", "get_item", "put_item", "set_item"}


def name_usable(pos: str, name: str) -> bool:
    """avoid names that merely COLLIDE with another name of the document (collisions are C04/C07/C20 de-duplication findings)"""
    from pyopenapi_gen.core.utils import NameSanitizer
    try:
        m = NameSanitizer.sanitize_method_name(name)
        c = NameSanitizer.sanitize_class_name(name)
    except Exception:  # noqa: BLE001
        return True
    # the name also reaches raw text sites (dict keys, Meta keys, docstrings): those are the F15 sites exercised by run_pipe;
    # here the text must be harmless for them so that only the DERIVED IDENTIFIER is being judged
    if any(ch in '"\\' or not ch.isprintable() for ch in name):
        return False
    return m.lower() not in _TAKEN and c.lower() not in _TAKEN and c.lower() + "client" not in _TAKEN


def name_doc(pos: str, name: str) -> dict:
    if pos in ("propname", "qname", "hname", "tag"):
        return doc({pos: name})
    d = doc()
    if pos == "pathvar":
        d = json.loads(json.dumps(d).replace("{id}", "{" + json.dumps(name)[1:-1] + "}"))
        for m in d["paths"].values():
            for op in m.values():
                for p in op["parameters"]:
                    if p["in"] == "path":
                        p["name"] = name
    elif pos == "opid":
        d["paths"]["/items/{id}"]["get"]["operationId"] = name
    elif pos == "schemaname":
        d = json.loads(json.dumps(d).replace("#/components/schemas/Uid", "#/components/schemas/" + json.dumps(name)[1:-1]))
        d["components"]["schemas"][name] = d["components"]["schemas"].pop("Uid")
    return d


def run_name(pos: str, name: str) -> dict:
    base = baseline()
    o = observe_package(name_doc(pos, name))
    fails: list[str] = []
    if o.get("gen_error"):
        obs: Any = {"gen_error": o["gen_error"][:200]}
        fails.append(f"name position {pos}: the generator raised on this name: {o['gen_error'][:120]}")
    else:
        obs = {"bad": o["bad"], "skeleton_equal": o["skeletons"] == base["skeletons"], "nfiles": o["nfiles"]}
        if o["bad"]:
            fails.append(f"name position {pos}: emitted file does not parse: {o['bad'][0]}")
        elif not obs["skeleton_equal"]:
            fails.append(f"name position {pos}: classes/functions/statements differ from the benign-name baseline")
    return {"input": {"name_position": pos, "text": name}, "obs": obs, "oracle_fail": fails}


def c_name_case(case: dict) -> str:
    pos, t = case["input"]["name_position"], case["input"]["text"]
    py = True
    if NAME_KINDS[pos] == 2 and not t.isascii():   # Unicode identifier classification is an oracle for the model
        import keyword
        from pyopenapi_gen.core.utils import NameSanitizer
        m = NameSanitizer.sanitize_module_name(t)
        py = m.isidentifier() and not keyword.iskeyword(m)
    return f"((({NAME_KINDS[pos]}, {cstr(t)}), {cbool(py)}), {cbool(not case['oracle_fail'])})"


NAME_FIND = {3: "F20h", 5: "F20k"}   # bits 1, 2, 4 were F20b, F20c, F20a: fixed in /repo, no longer attributable


def pstarmap(fn: Callable, items: list[tuple]) -> list:
    """run the generator on many documents in forked worker processes (results in input order; no randomness in workers)"""
    if len(items) < 8:
        return [fn(*a) for a in items]
    import multiprocessing as mp
    baseline()   # computed once in the parent, inherited by the workers
    with mp.get_context("fork").Pool(min(8, os.cpu_count() or 2)) as pool:
        return pool.starmap(fn, items, chunksize=4)


# ---------------------------------------------------------------- entry
def guard_map() -> dict[int, str]:
    return {bit: fid for fid, bit in FIND.items()}


def main(chk: Check, replay: dict | None = None) -> int:
    if replay is not None:
        inp = replay["input"]
        if "site" in inp:
            r = run_site(inp["site"], inp["text"])
        elif "position" in inp:
            r = run_pipeline(inp["position"], inp["text"])
        elif "name_position" in inp:
            r = run_name(inp["name_position"], inp["text"])
        else:
            r = {"input": inp, "obs": py_lex(inp["literal"]), "oracle_fail": []}
        print(json.dumps({k: v for k, v in r.items() if k != "frags"}, indent=1, default=str)[:4000])
        if r["oracle_fail"]:
            print(f"VIOLATION property=C15 replay=(replayed) : {r['oracle_fail']}")
            return 1
        return 0

    chk.prove()
    rng = chk.rng
    imports = "From PG Require Import Lib.Strs Model.Escape Corr.C15."
    corpus = load_corpus("C15")

    # ---- (i) lexer model vs CPython
    lits = [c["input"]["literal"] for c in corpus if "literal" in c["input"]] + lex_corpus() + [gen_literal(rng) for _ in range(6000 if chk.thorough else 1500)]
    lits = [s for s in lits if ("\x00" not in s or s in lex_corpus()) and not s.startswith("'''")]
    lex_cases = []
    n_err = n_n = 0
    for s in lits:
        exp = py_lex(s)
        if "\\N{" in s:          # \N{name}: the model answers "error" by design (no Unicode name table)
            n_n += 1
            continue
        if exp is None:
            n_err += 1
        lex_cases.append({"input": {"literal": s}, "obs": exp, "oracle_fail": []})
    codes = None
    if chk.model_ok:
        codes = chk.coq_eval(imports, "str * option (str * str)", [c_lex_case(c["input"]["literal"], c["obs"]) for c in lex_cases],
                             "run_lex", tag="lex", shard=400)
    chk.decide(lex_cases, codes, {}, "Corr.C15.run_lex: lex_str(model) = CPython tokenize + literal_eval")

    # ---- (ii) sites
    site_cases = []
    for c in corpus:
        if "site" in c["input"]:
            site_cases.append(run_site(c["input"]["site"], c["input"]["text"]))
    nrand = 120 if chk.thorough else 12
    for sid, S in SITES.items():
        ts = list(HOSTILE) + (SITE_ONLY_HOSTILE if S["n"] in (5, 6, 7, 20) else []) + [rand_text(rng) for _ in range(nrand)] \
            + [rand_text(rng, 60, 200) for _ in range(3)]
        for t in ts:
            if t == "" and S.get("skip_empty"):
                continue
            site_cases.append(run_site(sid, t))
    codes = None
    if chk.model_ok:
        codes = chk.coq_eval(imports, "N * (str * (list str * str))", [c_site_case(c) for c in site_cases], "run_site", tag="site",
                             shard=250)
    for c in site_cases:
        c.pop("frags", None)
    chk.decide(site_cases, codes, guard_map(), "Corr.C15.run_site: site_k(model) = real rendering function")

    # ---- (iii) pipeline
    pipe_inputs: list[tuple[str, str]] = [(c["input"]["position"], c["input"]["text"]) for c in corpus if "position" in c["input"]]
    key_payloads = ['a"b', 'x"', '"""', 'c\\d', 'ends\\', '\\x', '\U0001f600', 'a\x0cb', 'a\u2028b', 'a\x00b', 'c\\n',
                    'x"""\nimport os\n"""', '{x}%s', "print('x')", "0 if True else __import__('os').getpid()"]
    positions = list(POSITIONS)
    if chk.thorough:
        for pos in positions:
            for p in HOSTILE:
                pipe_inputs.append((pos, payload_for(pos, p)))
            for _ in range(6):
                pipe_inputs.append((pos, payload_for(pos, rand_text(rng, 1, 10))))
    else:
        for i, pos in enumerate(positions):
            # CR and LF are harmless inside docstrings but break any comment or "…" literal: they expose a NEW raw site
            # CR/LF and the other str.splitlines() break characters: harmless in docstrings and escaped literals, fatal in a
            # comment or raw literal (endpoint code is re-split by write_block): they expose a NEW unescaped site
            for p in ('a\rb', 'a\nb', 'a\u2028b\x0cc\x85d\x1ce'):
                pipe_inputs.append((pos, payload_for(pos, p)))
            pipe_inputs.append((pos, payload_for(pos, key_payloads[i % len(key_payloads)])))
            pipe_inputs.append((pos, payload_for(pos, rng.choice(HOSTILE) if i % 2 else rand_text(rng, 1, 8))))
    # \N{name} escapes: the lexer model answers "error" by design (no Unicode name table), CPython accepts valid names;
    # such payloads are exercised at site level (string equality) but not in the predicted-verdict relation
    pipe_inputs = list(dict.fromkeys(p for p in pipe_inputs if p[1] != "" and "\\N{" not in p[1]))
    pipe_cases = pstarmap(run_pipeline, pipe_inputs)
    codes = None
    if chk.model_ok:
        codes = chk.coq_eval(imports, "(list N * str) * bool", [c_pipe_case(c) for c in pipe_cases], "run_pipe", tag="pipe", shard=200)
    chk.decide(pipe_cases, codes, guard_map(), "Corr.C15.run_pipe: all sites fed by the position inert (model) = files parse, same skeleton, "
                                               "value recovered (implementation)")

    # ---- (iv) names
    name_inputs: list[tuple[str, str]] = [(c["input"]["name_position"], c["input"]["text"]) for c in corpus if "name_position" in c["input"]]
    npos = list(NAME_KINDS)
    if chk.thorough:
        for pos in npos:
            name_inputs += [(pos, n) for n in NAMES]
            name_inputs += [(pos, "".join(rng.choice(NAME_ALPHA) for _ in range(rng.randint(1, 6)))) for _ in range(25)]
    else:
        for i, pos in enumerate(npos):
            picks = ['$', 'area_m\u00b2', 'half\u00bd'] + [NAMES[(i * 5 + j * 3) % len(NAMES)] for j in range(4)]
            name_inputs += [(pos, n) for n in picks]
            name_inputs.append((pos, "".join(rng.choice(NAME_ALPHA) for _ in range(rng.randint(1, 6)))))
    name_inputs = list(dict.fromkeys(x for x in name_inputs if x[1] != "" and "/" not in x[1] and "{" not in x[1] and "}" not in x[1]
                                     and name_usable(x[0], x[1])))
    name_cases = pstarmap(run_name, name_inputs)
    codes = None
    if chk.model_ok:
        codes = chk.coq_eval(imports, "((N * str) * bool) * bool", [c_name_case(c) for c in name_cases], "run_names", tag="names", shard=200)
    chk.decide(name_cases, codes, NAME_FIND, "Corr.C15.run_names: sanitised name valid (C20's model) = files parse, same skeleton (implementation)")
    pipe_cases = pipe_cases + name_cases

    if os.environ.get("VERIF_C15_DEBUG"):   # developer aid: list every model/implementation disagreement
        for c in lex_cases + site_cases + pipe_cases:
            if c.get("code") is not None and c["code"] & 1:
                print("MISMATCH", json.dumps(c["input"]), c["oracle_fail"], json.dumps(c["obs"], default=str)[:200])
    allc = lex_cases + site_cases + pipe_cases
    chk.cov["evaluations"] = len(allc)
    chk.cov["distinct_nontrivial"] = len({json.dumps(c["input"], sort_keys=True) for c in site_cases + pipe_cases
                                          if any(ch in c["input"]["text"] for ch in '"\\\r\n\x00$ ') or not c["input"]["text"].isascii()}) \
        + len({c["input"]["literal"] for c in lex_cases if "\\" in c["input"]["literal"]})
    chk.cov["input_distribution"] = {
        "lexer_literals": len(lex_cases), "lexer_literals_rejected_by_cpython": n_err, "lexer_literals_skipped_named_escape": n_n,
        "site_cases": len(site_cases), "sites": len(SITES), "site_cases_oracle_fail": sum(1 for c in site_cases if c["oracle_fail"]),
        "pipeline_cases": len(pipe_cases), "pipeline_positions": len(positions), "name_cases": len(name_cases),
        "name_positions": len(npos), "name_cases_oracle_fail": sum(1 for c in name_cases if c["oracle_fail"]),
        "pipeline_oracle_fail": sum(1 for c in pipe_cases if c["oracle_fail"]),
        "pipeline_generator_errors": sum(1 for c in pipe_cases if isinstance(c["obs"], dict) and "gen_error" in c["obs"]),
        "hostile_dictionary": len(HOSTILE),
    }
    for c in site_cases[:2] + pipe_cases[:2]:
        chk.sample({"input": c["input"], "oracle_fail": c["oracle_fail"]})
    return chk.finish(TRUSTED,
                      rule="(i) corpus + seeded random literals over an escape-heavy alphabet; (ii) every site x (hostile dictionary + "
                           "seeded random text incl. random Unicode scalars); (iii) positions x payloads through the real generator. "
                           "non-trivial = text contains a quote, backslash, CR/LF, NUL or non-ASCII (sites/pipeline) or a backslash "
                           "(literals); distinct by JSON of the input")
