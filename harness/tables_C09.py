"""C09 translator plug-in: SITE INVENTORY of hash-order / address dependent constructs in /repo/src/pyopenapi_gen.

Built with `ast` only.  A *site* is
  * a `for` statement or comprehension generator whose iterable is (syntactically) set-typed:
    `set(...)`/`frozenset(...)` call, set literal / set comprehension, a name or attribute annotated
    `Set[...]`/`set[...]` (directly, or reached through an annotated dict/list-of-sets by subscript / .get /
    .items() / .values()), a name assigned from such an expression, a call of a function annotated to
    return a set (or a tuple with a set component, through unpacking), a set operator (`| & - ^`,
    `.union` …) on one of those or on dict `.keys()`/`.items()` views;
  * an order-consuming call on such an expression (`list`, `tuple`, `str.join`, `enumerate`, `next(iter())`,
    `.pop()`, `str()/repr()`/f-string interpolation, `max`/`min` WITH a key function - ties go to the first element), or an order-free one (`sorted`, `len`, `any`, `all`, `sum`,
    `min`, `max`, `bool`, `in`) — the latter are not listed individually, only counted;
  * `id(...)` interpolated into a string (f-string, `str(id(..))`, `%`/`.format`);
  * a wall-clock / pid / uuid / random / hash() call (kind `clock`): never classified automatically.

Each site gets a class:
  sorted_wrapped      the iterable is `sorted(<set>)`
  order_irrelevant    the body only tests membership / accumulates into a set / counts / is an any()/all()-style
                      early `return <constant>` / only logs or raises (diagnostics, not emitted text)
  order_relevant      anything whose result can depend on the iteration order (append to a list, first match,
                      string building, dict insertion that is later iterated …)
  dead_value          (id-in-string only) the string is provably not used: see REVIEWED

Automatic classification covers the syntactically obvious shapes.  Everything else must be listed in
REVIEWED (keyed by file, enclosing function and the source text of the iterable — not by line number, so
unrelated edits do not invalidate it).  A site that is neither auto-classified nor reviewed raises
TranslatorError: the obligation cannot be rebuilt (fail closed).  An order_relevant site must name the
Gallina transcription in coq/Model/Sites.v (`model=`); Properties/C09.v proves permutation invariance for
every entry of the generated list, and an unknown model name maps to the identity function on lists, which
is not permutation invariant — so a new order-relevant site cannot pass silently either.

The source root is tables.SRC (VERIF_REPO_ROOT, default /repo).
"""
from __future__ import annotations

import ast
import os
from dataclasses import dataclass
from pathlib import Path
from typing import Any

from tables import TranslatorError, cstr

OUT_NAME = "T_C09.v"


def src_root() -> Path:
    from tables import SRC
    return SRC


# ---------------------------------------------------------------------------------------------------
# type shapes:  "S" = set;  ("D", x) = mapping whose values have shape x;  ("L", x) = sequence of x;
#               ("T", [x0, x1, …]) = tuple;  None = not set-related
SET_NAMES = {"Set", "set", "frozenset", "FrozenSet", "AbstractSet", "MutableSet"}
DICT_NAMES = {"dict", "Dict", "defaultdict", "DefaultDict", "Mapping", "MutableMapping", "OrderedDict"}
LIST_NAMES = {"list", "List", "Sequence", "Iterable", "Iterator"}
SET_METHODS_RET_SET = {"copy", "union", "intersection", "difference", "symmetric_difference"}
ORDER_FREE_CALLS = {"sorted", "len", "any", "all", "sum", "min", "max", "bool", "set", "frozenset", "isinstance"}
ORDER_CONSUMING_CALLS = {"list", "tuple", "enumerate", "iter", "str", "repr", "zip", "reversed", "map", "filter"}
LOG_NAMES = {"debug", "info", "warning", "error", "exception", "critical", "log"}
FS_LISTING_METHODS = {"glob", "rglob", "iterdir", "listdir", "scandir", "walk"}
FS_LISTING_FUNCS = {"listdir", "scandir", "walk", "glob", "iglob"}
CLOCK_CALLS = {("time", "time"), ("time", "time_ns"), ("time", "monotonic"), ("time", "perf_counter"), ("time", "strftime"),
               ("time", "localtime"), ("time", "gmtime"), ("time", "ctime"),
               ("datetime", "now"), ("datetime", "utcnow"), ("datetime", "today"), ("date", "today"),
               ("uuid", "uuid1"), ("uuid", "uuid4"), ("os", "getpid"), ("os", "urandom"), ("os", "times")}


def _name_of(node: ast.AST) -> str | None:
    if isinstance(node, ast.Name):
        return node.id
    if isinstance(node, ast.Attribute):
        return node.attr
    return None


def ann_shape(a: ast.AST | None) -> Any:
    if a is None:
        return None
    if isinstance(a, ast.Constant) and isinstance(a.value, str):
        try:
            return ann_shape(ast.parse(a.value, mode="eval").body)
        except SyntaxError:
            return None
    n = _name_of(a)
    if n in SET_NAMES:
        return "S"
    if isinstance(a, ast.Subscript):
        base = _name_of(a.value)
        sl = a.slice
        elts = sl.elts if isinstance(sl, ast.Tuple) else [sl]
        if base in SET_NAMES:
            return "S"
        if base in DICT_NAMES and len(elts) == 2:
            v = ann_shape(elts[1])
            return ("D", v) if v else None
        if base in LIST_NAMES and len(elts) == 1:
            v = ann_shape(elts[0])
            return ("L", v) if v else None
        if base in ("Optional", "Final", "ClassVar", "Annotated"):
            return ann_shape(elts[0])
        if base in ("Tuple", "tuple"):
            sh = [ann_shape(e) for e in elts]
            return ("T", sh) if any(sh) else None
        if base == "Union":
            for e in elts:
                s = ann_shape(e)
                if s:
                    return s
        return None
    if isinstance(a, ast.BinOp) and isinstance(a.op, ast.BitOr):  # X | None
        return ann_shape(a.left) or ann_shape(a.right)
    return None


@dataclass
class Site:
    file: str
    line: int
    func: str
    kind: str       # for | comp | call:<name> | fstring | id_in_string | clock; "-fs" = over a file-system listing
                    # (glob/rglob/iterdir/listdir/scandir/walk), "-derived" = over a container filled while iterating a
                    # set / listing (its insertion order is inherited), incl. its .items()/.values()/.keys()
    text: str       # source text of the iterable / expression
    cls: str = ""   # sorted_wrapped | order_irrelevant | order_relevant | dead_value
    why: str = ""
    model: str = ""  # Gallina function in Model/Sites.v (order_relevant only)

    @property
    def key(self) -> tuple[str, str, str, str]:
        return (self.file, self.func, self.kind.split(":")[0], self.text)


# ---------------------------------------------------------------------------------------------------
# Reviewed classifications for shapes the automatic rules do not decide.
# key: (file, enclosing function, kind, source text of the iterable)  ->  (class, model name, reason)
REVIEWED: dict[tuple[str, str, str, str], tuple[str, str, str]] = {
    # shape of the site BEFORE the fix of F09a (kept so that on a tree without that fix the inventory is still
    # produced - with the site listed as order-relevant, which makes C09_sites_full unprovable - instead of
    # failing the translator for every property; allowed to be stale, see LEGACY)
    ("visit/endpoint/processors/parameter_processor.py", "_ensure_path_variables_as_params", "for", "url_vars"):
        ("order_relevant", "ensure_path_vars",
         "appends one parameter per undeclared path variable to the signature list, in set order (F09a, fixed upstream)"),
    ("core/parsing/schema_parser.py", "_parse_properties", "id_in_string", "id(prop_schema_node)"):
        ("dead_value", "",
         "the id()-derived name is only assigned when is_simple_primitive or is_simple_array holds, and in exactly "
         "that case the next statement discards it (schema_name_for_parsing = None); checked structurally by "
         "_check_dead_id_name()"),
    ("context/render_context.py", "add_typing_imports_for_type", "for", "potential_names_to_import"):
        ("order_relevant", "typing_imports_render",
         "each word of the type string is turned into add_import(module, name): the ImportCollector's dict gets its "
         "module keys in set order; harmless only because every renderer sorts modules and names (proved)"),
    ("generator/client_generator.py", "__init__", "clock", "time.time()"):
        ("order_irrelevant", "", "start time of the run: only used for elapsed-time figures in progress messages"),
    ("generator/client_generator.py", "_log_progress", "clock", "time.time()"):
        ("order_irrelevant", "", "elapsed / stage timing, formatted into the progress message (logger.info / print), never a file"),
    ("generator/client_generator.py", "_log_progress", "clock", "datetime.now()"):
        ("order_irrelevant", "", "timestamp prefix of the progress message (logger.info / print), never a file"),
    ("generator/client_generator.py", "generate", "clock", "time.time()"):
        ("order_irrelevant", "", "total time and per-stage summary in progress messages only"),
    ("core/telemetry.py", "track_event", "clock", "time.time()"):
        ("order_irrelevant", "", "opt-in telemetry event record (printed to stdout when enabled); not part of any generated file"),
    ("generator/client_generator.py", "_show_diffs", "for-fs", "Path(new_dir).rglob('*.py')"):
        ("order_relevant", "show_diffs_fs",
         "walks the newly generated tree in file-system order: decides has_diff (an OR) and prints per file; proved: the "
         "decision and the set of files named do not depend on the listing order (only the order of the printed diffs does)"),
    ("generator/client_generator.py", "_show_diffs", "for-fs", "Path(old_dir).rglob('*.py')"):
        ("order_relevant", "show_diffs_fs", "second loop of the same function (files only in the existing output): same theorem"),
    ("core/postprocess_manager.py", "type_check", "call", "target_dir.rglob('*.py')"):
        ("order_irrelevant", "", "file arguments of the mypy command line (order does not change mypy's verdict); type_check "
                                 "is not called by PostprocessManager.run (disabled) and writes no generated file"),
    ("core/postprocess_manager.py", "type_check", "comp-derived", "python_files"):
        ("order_irrelevant", "", "the same list turned into command-line strings; see the entry above"),
    ("emitters/models_emitter.py", "emit", "for", "set(all_schema_keys_to_emit) - processed_schema_original_keys"):
        ("order_irrelevant", "", "stall fallback: logs and adds every remaining key to a set; nothing is emitted here"),
}


LEGACY = {("visit/endpoint/processors/parameter_processor.py", "_ensure_path_variables_as_params", "for", "url_vars")}


class Scanner(ast.NodeVisitor):
    def __init__(self, rel: str, tree: ast.Module, gl: "Globals"):
        self.rel, self.tree, self.gl = rel, tree, gl
        self.sites: list[Site] = []
        self.envs: list[dict[str, Any]] = [{}]
        self.funcs: list[str] = []
        self.counted_free = 0
        self.src_lines: list[str] = []
        self.parents: dict[ast.AST, ast.AST] = {}
        for p in ast.walk(tree):
            for c in ast.iter_child_nodes(p):
                self.parents[c] = p

    # ----- environment
    def lookup(self, name: str) -> Any:
        for env in reversed(self.envs):
            if name in env:
                return env[name]
        return None

    def bind(self, target: ast.AST, shape: Any) -> None:
        if isinstance(target, ast.Name):
            if shape is not None or target.id in self.envs[-1]:
                # a later non-set assignment clears the binding only if the name was bound here
                self.envs[-1][target.id] = shape if shape is not None else self.envs[-1].get(target.id)
        elif isinstance(target, (ast.Tuple, ast.List)) and isinstance(shape, tuple) and shape[0] == "T":
            for t, s in zip(target.elts, shape[1]):
                self.bind(t, s)

    def shape(self, e: ast.AST | None) -> Any:
        if e is None:
            return None
        if isinstance(e, (ast.Set, ast.SetComp)):
            return "S"
        if isinstance(e, (ast.ListComp, ast.DictComp, ast.GeneratorExp)) and any(
                self.shape(self.unwrap_iter(g.iter)[0]) in ("S", "F", "O") and "sorted" not in self.unwrap_iter(g.iter)[1]
                for g in e.generators):
            return "O"   # built by iterating a set / listing / derived container: inherits its order
        if isinstance(e, ast.Name):
            return self.lookup(e.id)
        if isinstance(e, ast.Attribute):
            return self.gl.attrs.get(e.attr)
        if isinstance(e, ast.Subscript):
            s = self.shape(e.value)
            if isinstance(s, tuple) and s[0] in ("D", "L"):
                return s[1]
            return None
        if isinstance(e, ast.IfExp):
            return self.shape(e.body) or self.shape(e.orelse)
        if isinstance(e, ast.BoolOp):
            for v in e.values:
                s = self.shape(v)
                if s:
                    return s
            return None
        if isinstance(e, ast.BinOp) and isinstance(e.op, (ast.BitOr, ast.BitAnd, ast.Sub, ast.BitXor)):
            for side in (e.left, e.right):
                if self.shape(side) == "S" or self.is_view(side):
                    return "S"
            return None
        if isinstance(e, ast.DictComp):
            v = self.shape(e.value)
            return ("D", v) if v else None
        if isinstance(e, ast.Call):
            f = e.func
            # file-system listings: the order of the entries is whatever the file system returns
            if isinstance(f, ast.Attribute) and f.attr in FS_LISTING_METHODS:
                return "F"
            if isinstance(f, ast.Name) and f.id in FS_LISTING_FUNCS:
                return "F"
            # views of a container whose insertion order derives from a set / listing
            if isinstance(f, ast.Attribute) and f.attr in ("items", "values", "keys") and self.shape(f.value) == "O":
                return "O"
            if isinstance(f, ast.Name) and f.id in ("list", "tuple", "dict", "enumerate", "reversed", "iter") and e.args \
                    and self.shape(e.args[0]) in ("S", "F", "O") and f.id != "dict":
                return "O" if self.shape(e.args[0]) != "S" or f.id in ("list", "tuple") else None
            if isinstance(f, ast.Name):
                if f.id in ("set", "frozenset"):
                    return "S"
                if f.id in ("defaultdict",) and e.args and _name_of(e.args[0]) in ("set", "frozenset"):
                    return ("D", "S")
                if f.id in self.gl.funcs:
                    return self.gl.funcs[f.id]
                if f.id in ("dict", "list") and e.args:
                    s = self.shape(e.args[0])
                    return s if isinstance(s, tuple) else None
                return None
            if isinstance(f, ast.Attribute):
                recv = self.shape(f.value)
                if recv == "S" and f.attr in SET_METHODS_RET_SET:
                    return "S"
                if isinstance(recv, tuple) and recv[0] == "D" and f.attr in ("get", "setdefault", "pop"):
                    return recv[1]
                if isinstance(recv, tuple) and recv[0] == "D" and f.attr == "copy":
                    return recv
                if f.attr in self.gl.funcs and recv is None:
                    return self.gl.funcs[f.attr]
                return None
        return None

    @staticmethod
    def is_view(e: ast.AST) -> bool:
        return (isinstance(e, ast.Call) and isinstance(e.func, ast.Attribute) and e.func.attr in ("keys", "items")
                and not e.args)

    def iter_elem_shape(self, it: ast.AST) -> Any:
        """shape of the elements produced by iterating `it` (for binding loop targets)"""
        it, _ = self.unwrap_iter(it)
        if isinstance(it, ast.Call) and isinstance(it.func, ast.Attribute):
            recv = self.shape(it.func.value)
            if isinstance(recv, tuple) and recv[0] == "D":
                if it.func.attr == "items":
                    return ("T", [None, recv[1]])
                if it.func.attr == "values":
                    return recv[1]
        s = self.shape(it)
        if isinstance(s, tuple) and s[0] == "L":
            return s[1]
        return None

    # ----- helpers
    def text(self, node: ast.AST) -> str:
        return " ".join(ast.unparse(node).split())

    def func_name(self) -> str:
        return self.funcs[-1] if self.funcs else "<module>"

    def add(self, node: ast.AST, kind: str, expr: ast.AST, cls: str = "", why: str = "") -> Site:
        s = Site(self.rel, node.lineno, self.func_name(), kind, self.text(expr), cls, why)
        self.sites.append(s)
        return s

    def unwrap_iter(self, it: ast.AST) -> tuple[ast.AST, list[str]]:
        """peel list(...)/enumerate(...)/sorted(...)/reversed(...)/tuple(...) wrappers"""
        wrappers: list[str] = []
        while (isinstance(it, ast.Call) and isinstance(it.func, ast.Name)
               and it.func.id in ("list", "tuple", "enumerate", "sorted", "reversed", "iter") and it.args):
            wrappers.append(it.func.id)
            it = it.args[0]
        return it, wrappers

    # ----- scopes
    def visit_FunctionDef(self, node: ast.FunctionDef) -> None:
        self.funcs.append(node.name)
        env: dict[str, Any] = {}
        a = node.args
        for arg in a.posonlyargs + a.args + a.kwonlyargs + ([a.vararg] if a.vararg else []) + ([a.kwarg] if a.kwarg else []):
            s = ann_shape(arg.annotation)
            if s:
                env[arg.arg] = s
        self.envs.append(env)
        # two passes over the body so that a name assigned after its first textual use is still known
        for _ in range(2):
            for st in ast.walk(node):
                self.collect_binding(st)
        for st in node.body:
            self.visit(st)
        self.envs.pop()
        self.funcs.pop()

    visit_AsyncFunctionDef = visit_FunctionDef  # type: ignore[assignment]

    def collect_binding(self, st: ast.AST) -> None:
        if isinstance(st, ast.AnnAssign):
            s = ann_shape(st.annotation)
            if s and isinstance(st.target, ast.Name):
                self.envs[-1][st.target.id] = s
        elif isinstance(st, ast.Assign):
            s = self.shape(st.value)
            if s:
                for t in st.targets:
                    self.bind(t, s)
        elif isinstance(st, (ast.For, ast.AsyncFor)):
            s = self.iter_elem_shape(st.iter)
            if s:
                self.bind(st.target, s)
            inner, wrappers = self.unwrap_iter(st.iter)
            if self.shape(inner) in ("S", "F", "O") and "sorted" not in wrappers:
                # containers filled in this loop inherit the iteration order
                for n in ast.walk(ast.Module(body=st.body, type_ignores=[])):
                    tgt = None
                    if isinstance(n, ast.Assign) and isinstance(n.targets[0], ast.Subscript):
                        tgt = n.targets[0].value
                    elif isinstance(n, ast.AugAssign) and isinstance(n.op, ast.Add):
                        tgt = n.target
                    elif isinstance(n, ast.Call) and isinstance(n.func, ast.Attribute) and n.func.attr in (
                            "append", "extend", "insert", "setdefault", "appendleft"):
                        tgt = n.func.value
                    if tgt is not None and self.shape(tgt) not in ("S",):
                        if isinstance(tgt, ast.Name):
                            self.envs[-1][tgt.id] = "O"
                        elif isinstance(tgt, ast.Attribute) and isinstance(tgt.value, ast.Name) and tgt.value.id == "self":
                            self.gl.attrs[tgt.attr] = "O"
        elif isinstance(st, ast.comprehension):
            s = self.iter_elem_shape(st.iter)
            if s:
                self.bind(st.target, s)
        elif isinstance(st, ast.NamedExpr):
            s = self.shape(st.value)
            if s:
                self.bind(st.target, s)

    def visit_Module(self, node: ast.Module) -> None:
        for _ in range(2):
            for st in node.body:
                self.collect_binding(st)
        self.generic_visit(node)

    # ----- sites
    KIND = {"S": "for", "F": "for-fs", "O": "for-derived"}

    def visit_For(self, node: ast.For) -> None:
        inner, wrappers = self.unwrap_iter(node.iter)
        sh = self.shape(inner)
        if sh in ("S", "F", "O"):
            if "sorted" in wrappers:
                self.add(node, self.KIND[sh], node.iter, "sorted_wrapped", "iterates sorted(<set / listing>)")
            else:
                site = self.add(node, self.KIND[sh], node.iter)
                cls, why = self.classify_body(node.body + node.orelse, node)
                site.cls, site.why = cls, why
        self.generic_visit(node)

    visit_AsyncFor = visit_For  # type: ignore[assignment]

    def visit_comp(self, node: ast.AST) -> None:
        gens = node.generators  # type: ignore[attr-defined]
        for g in gens:
            inner, wrappers = self.unwrap_iter(g.iter)
            sh = self.shape(inner)
            if sh in ("S", "F", "O"):
                ckind = {"S": "comp", "F": "comp-fs", "O": "comp-derived"}[sh]
                if "sorted" in wrappers:
                    self.add(node, ckind, g.iter, "sorted_wrapped", "iterates sorted(<set / listing>)")
                    continue
                site = self.add(node, ckind, g.iter)
                parent = self.parents.get(node)
                if isinstance(node, ast.SetComp):
                    site.cls, site.why = "order_irrelevant", "set comprehension: result is a set"
                elif (isinstance(parent, ast.Call) and isinstance(parent.func, ast.Name)
                      and parent.func.id in ORDER_FREE_CALLS and parent.args and parent.args[0] is node):
                    site.cls = "sorted_wrapped" if parent.func.id == "sorted" else "order_irrelevant"
                    site.why = f"generator consumed by {parent.func.id}()"
        self.generic_visit(node)

    visit_ListComp = visit_SetComp = visit_DictComp = visit_GeneratorExp = visit_comp  # type: ignore[assignment]

    def visit_Call(self, node: ast.Call) -> None:
        f = node.func
        # order-consuming / order-free conversions of a set
        if isinstance(f, ast.Name) and node.args and self.shape(node.args[0]) in ("S", "F", "O"):
            parent = self.parents.get(node)
            wrapped_in_iter = isinstance(parent, (ast.For, ast.comprehension)) and getattr(parent, "iter", None) is node
            if f.id in ("max", "min") and any(k.arg == "key" for k in node.keywords):
                # with a key function ties are broken by iteration order: an order-sensitive consumer, never auto-classified
                self.add(node, f"call:{f.id}", node.args[0])
            elif f.id in ORDER_FREE_CALLS:
                self.counted_free += 1
                if f.id == "sorted" and not wrapped_in_iter:
                    self.add(node, "call:sorted", node.args[0], "sorted_wrapped", "sorted(<set>)")
            elif f.id in ORDER_CONSUMING_CALLS and not wrapped_in_iter:
                # list(S) directly inside sorted(...)/set(...)/len(...) is harmless
                if (isinstance(parent, ast.Call) and isinstance(parent.func, ast.Name)
                        and parent.func.id in ORDER_FREE_CALLS and parent.args and parent.args[0] is node):
                    self.add(node, f"call:{f.id}", node.args[0],
                             "sorted_wrapped" if parent.func.id == "sorted" else "order_irrelevant",
                             f"{f.id}(<set>) consumed by {parent.func.id}()")
                else:
                    self.add(node, f"call:{f.id}", node.args[0])
        if isinstance(f, ast.Attribute):
            if f.attr == "join" and node.args and self.shape(node.args[0]) in ("S", "F", "O"):
                self.add(node, "call:join", node.args[0])
            if f.attr == "pop" and not node.args and self.shape(f.value) == "S":
                self.add(node, "call:pop", f.value)
        # wall clock / process identity / randomness: never automatically classified
        if isinstance(f, ast.Attribute) and isinstance(f.value, ast.Name) and (f.value.id, f.attr) in CLOCK_CALLS:
            self.add(node, "clock", node)
        if isinstance(f, ast.Attribute) and isinstance(f.value, ast.Name) and f.value.id in ("random", "secrets"):
            self.add(node, "clock", node)
        if isinstance(f, ast.Name) and f.id in ("hash", "uuid4", "uuid1", "getpid", "urandom"):
            self.add(node, "clock", node)
        # id(...) used in a string
        if isinstance(f, ast.Name) and f.id == "id" and len(node.args) == 1:
            if self.in_string_context(node):
                site = self.add(node, "id_in_string", node)
                if self.is_diagnostic(node):
                    site.cls, site.why = "order_irrelevant", "interpolated into a log / exception message only"
        self.generic_visit(node)

    def in_string_context(self, node: ast.AST) -> bool:
        cur: ast.AST | None = node
        while cur is not None:
            p = self.parents.get(cur)
            if isinstance(p, (ast.FormattedValue, ast.JoinedStr)):
                return True
            if isinstance(p, ast.Call) and isinstance(p.func, ast.Name) and p.func.id in ("str", "repr", "hex", "format"):
                return True
            if isinstance(p, ast.Call) and isinstance(p.func, ast.Attribute) and p.func.attr == "format":
                return True
            if isinstance(p, ast.BinOp) and isinstance(p.op, ast.Mod):
                return True
            if isinstance(p, (ast.stmt,)):
                return False
            cur = p
        return False

    def visit_FormattedValue(self, node: ast.FormattedValue) -> None:
        if self.shape(node.value) == "S":
            site = self.add(node, "fstring", node.value)
            if self.is_diagnostic(node):
                site.cls, site.why = "order_irrelevant", "interpolated into a log / exception message only"
        self.generic_visit(node)

    def is_diagnostic(self, node: ast.AST) -> bool:
        """the expression is (part of) an argument of logger.<level>(…), warnings.warn(…) or a raise"""
        cur: ast.AST | None = node
        while cur is not None:
            p = self.parents.get(cur)
            if isinstance(p, ast.Raise):
                return True
            if isinstance(p, ast.Call) and isinstance(p.func, ast.Attribute) and p.func.attr in LOG_NAMES \
                    and _name_of(p.func.value) in ("logger", "logging", "log", "_logger"):
                return True
            if isinstance(p, ast.Call) and _name_of(p.func) == "warn":
                return True
            if isinstance(p, ast.stmt):
                return False
            cur = p
        return False

    # ----- automatic classification of a for-body
    def classify_body(self, body: list[ast.stmt], loop: ast.For) -> tuple[str, str]:
        reasons: list[str] = []

        def ok_stmt(st: ast.stmt) -> bool:
            if isinstance(st, (ast.Pass, ast.Continue)):
                return True
            if isinstance(st, ast.Expr):
                v = st.value
                if isinstance(v, ast.Constant):
                    return True  # docstring / ellipsis
                if isinstance(v, ast.Call) and isinstance(v.func, ast.Attribute):
                    recv, m = v.func.value, v.func.attr
                    if m in ("add", "update", "discard") and self.shape(recv) == "S":
                        reasons.append("accumulates into a set")
                        return True
                    if m in LOG_NAMES and _name_of(recv) in ("logger", "logging", "log", "_logger"):
                        reasons.append("logs")
                        return True
                return False
            if isinstance(st, ast.AugAssign):
                if isinstance(st.op, (ast.BitOr,)) and self.shape(st.target) == "S":
                    reasons.append("accumulates into a set")
                    return True
                if isinstance(st.op, ast.Add) and isinstance(st.value, ast.Constant) and isinstance(st.value.value, int):
                    reasons.append("counts")
                    return True
                return False
            if isinstance(st, ast.If):
                return all(ok_stmt(s) for s in st.body) and all(ok_stmt(s) for s in st.orelse)
            if isinstance(st, ast.Return):
                if st.value is None or (isinstance(st.value, ast.Constant) and isinstance(st.value.value, (bool, type(None)))):
                    reasons.append("any()/all()-style early return of a constant")
                    return True
                return False
            if isinstance(st, ast.Raise):
                reasons.append("raises (diagnostic)")
                return True
            return False

        if all(ok_stmt(s) for s in body):
            return "order_irrelevant", "; ".join(sorted(set(reasons))) or "empty body"
        return "", ""


class Globals:
    """cross-module facts: functions annotated to return a set (by bare name), attributes annotated as sets"""

    def __init__(self) -> None:
        self.funcs: dict[str, Any] = {}
        self.attrs: dict[str, Any] = {}

    def collect(self, tree: ast.Module) -> None:
        for n in ast.walk(tree):
            if isinstance(n, (ast.FunctionDef, ast.AsyncFunctionDef)):
                s = ann_shape(n.returns)
                if s:
                    self.funcs[n.name] = s
            elif isinstance(n, ast.AnnAssign):
                s = ann_shape(n.annotation)
                if s and isinstance(n.target, ast.Attribute):
                    self.attrs[n.target.attr] = s
            elif isinstance(n, ast.ClassDef):
                for st in n.body:
                    if isinstance(st, ast.AnnAssign) and isinstance(st.target, ast.Name):
                        s = ann_shape(st.annotation)
                        if s:
                            self.attrs[st.target.id] = s
            elif isinstance(n, ast.Assign):
                # self.x = set() / defaultdict(set) without annotation
                for t in n.targets:
                    if isinstance(t, ast.Attribute) and isinstance(n.value, ast.Call):
                        fn = _name_of(n.value.func)
                        if fn in ("set", "frozenset") and t.attr not in self.attrs:
                            self.attrs[t.attr] = "S"
                        if fn == "defaultdict" and n.value.args and _name_of(n.value.args[0]) == "set":
                            self.attrs.setdefault(t.attr, ("D", "S"))


def _check_dead_id_name(tree: ast.Module) -> None:
    """schema_parser._parse_properties: `prop_context_name = f"_primitive_…{id(…)}"` sits under
    `if (is_simple_primitive or is_simple_array) and …:` and the very next statement is
    `schema_name_for_parsing = None if (is_simple_primitive or is_simple_array) else prop_context_name`,
    and prop_context_name is not read anywhere else afterwards.  Anything else: fail closed."""
    for fn in ast.walk(tree):
        if isinstance(fn, ast.FunctionDef):
            blocks = [b for blk in ast.walk(fn) for b in (getattr(blk, "body", None), getattr(blk, "orelse", None),
                                                          getattr(blk, "finalbody", None)) if isinstance(b, list)]
            for body in blocks:
                for i, st in enumerate(body):
                    if (isinstance(st, ast.If) and len(st.body) == 1 and isinstance(st.body[0], ast.Assign)
                            and "id(" in ast.unparse(st.body[0].value)
                            and isinstance(st.body[0].targets[0], ast.Name)):
                        var = st.body[0].targets[0].id
                        cond = ast.unparse(st.test)
                        if not cond.startswith("(is_simple_primitive or is_simple_array) and "):
                            raise TranslatorError(f"id()-derived name: unexpected condition {cond!r}")
                        nxt = body[i + 1] if i + 1 < len(body) else None
                        want = f"None if is_simple_primitive or is_simple_array else {var}"
                        if not (isinstance(nxt, ast.Assign) and ast.unparse(nxt.value) == want):
                            raise TranslatorError("id()-derived name: the discarding assignment changed shape")
                        for later in body[i + 2:]:
                            for n in ast.walk(later):
                                if isinstance(n, ast.Name) and n.id == var:
                                    raise TranslatorError(f"id()-derived name {var} is read at line {n.lineno}")
                        return
    raise TranslatorError("id()-derived name site not found in schema_parser.py (update REVIEWED)")


def scan(root: Path | None = None, strict: bool = True) -> tuple[list[Site], dict[str, int]]:
    root = root or src_root()
    files = sorted(p for p in root.rglob("*.py"))
    if len(files) < 50:
        raise TranslatorError(f"only {len(files)} python files under {root}")
    trees: dict[str, ast.Module] = {}
    gl = Globals()
    for p in files:
        rel = str(p.relative_to(root))
        try:
            trees[rel] = ast.parse(p.read_text())
        except SyntaxError as e:
            raise TranslatorError(f"cannot parse {p}: {e}")
        gl.collect(trees[rel])
    sites: list[Site] = []
    free = 0
    for rel, tree in trees.items():
        sc = Scanner(rel, tree, gl)
        sc.visit(tree)
        sites += sc.sites
        free += sc.counted_free
    used = set()
    for s in sites:
        if not s.cls:
            r = REVIEWED.get(s.key)
            if r is None:
                if not strict:
                    s.cls = "UNCLASSIFIED"
                    continue
                raise TranslatorError(
                    f"unclassified hash-order/address site {s.file}:{s.line} in {s.func}: {s.kind} over `{s.text}` — "
                    f"review it and add it to REVIEWED in harness/tables_C09.py")
            s.cls, s.model, s.why = r
            used.add(s.key)
        elif s.key in REVIEWED:
            used.add(s.key)
    stale = [k for k in REVIEWED if k not in used and k not in LEGACY]
    if stale and strict:
        raise TranslatorError(f"REVIEWED entries no longer match any site (code moved?): {stale}")
    if any(s.cls == "dead_value" for s in sites):
        _check_dead_id_name(trees["core/parsing/schema_parser.py"])
    stats = {"files": len(files), "order_free_calls_on_sets": free}
    return sites, stats


def _cmt(s: str) -> str:
    """text safe inside a Coq comment (Coq lexes string quotes and nested comment marks inside comments)"""
    return "".join(c if (c.isalnum() or c in " _.,:;`'-+=/<>[]{}|&^") else " " for c in s)


def render() -> str:
    sites, stats = scan()
    lines = ["(* GENERATED by harness/tables_C09.py from <repo>/src/pyopenapi_gen - do not edit *)",
             "From Coq Require Import List NArith.", "Import ListNotations.", "Open Scope N_scope.", "",
             "(* class: 0 sorted_wrapped | 1 order_irrelevant | 2 order_relevant | 3 dead_value *)",
             "Definition site := (list N * N * list N * N * list N)%type.  (* file, line, function, class, model *)",
             "Definition sites : list site := ["]
    code = {"sorted_wrapped": 0, "order_irrelevant": 1, "order_relevant": 2, "dead_value": 3}
    rows = []
    for s in sites:
        rows.append(f"  ({cstr(s.file)}, {s.line}, {cstr(s.func)}, {code[s.cls]}, {cstr(s.model)})"
                    f"  (* {_cmt(s.kind + ' `' + s.text[:60] + '` : ' + s.cls + ' - ' + s.why[:90])} *)")
    lines.append(";\n".join(rows))
    lines.append("].")
    rel = [s for s in sites if s.cls == "order_relevant"]
    lines.append("")
    lines.append("(* the Gallina transcriptions (names in Model/Sites.v) of the order-relevant sites *)")
    models = list(dict.fromkeys(s.model for s in rel))
    lines.append("Definition order_relevant_models : list (list N) := [" + "; ".join(cstr(m) for m in models) + "].")
    lines.append(f"Definition n_sites : N := {len(sites)}.")
    lines.append(f"Definition n_files_scanned : N := {stats['files']}.")
    lines.append("")
    return "\n".join(lines)


if __name__ == "__main__":
    import collections
    ss, st = scan(strict=False)
    for s in ss:
        print(f"{s.file}:{s.line} [{s.func}] {s.kind} `{s.text[:70]}` -> {s.cls} ({s.why[:80]}) {s.model}")
    print(collections.Counter(s.cls for s in ss), st)
