#!/bin/bash
# Integrator tool: land several prepared fixes (each its own fix: commit), then run the suite once.
# usage: land_batch.sh F1 F2 ...   (fixes/<F>.diff/.msg must exist in /verif)
set -u
cd /verif
START=$(git -C /repo rev-parse HEAD)
for F in "$@"; do
  git -C /repo apply --3way /verif/fixes/$F.diff >/dev/null 2>&1 || { echo "$F: patch does not apply"; git -C /repo reset -q --hard; continue; }
  git -C /repo reset -q
  if [ -n "$(git -C /repo diff --name-only --diff-filter=U)" ]; then echo "$F: conflict"; git -C /repo checkout -q -- .; continue; fi
  git -C /repo add -A && git -C /repo commit -q -F /verif/fixes/$F.msg
  H=$(git -C /repo rev-parse --short HEAD)
  git -C /repo show --format= HEAD > fixes/$F.diff
  sed -i "s/<COMMIT> $F\b/$H $F/; s/&lt;COMMIT&gt; $F\b/$H $F/" known_findings/*.json
  echo "landed $F as $H"
done
R=$(/venv/bin/python harness/baseline_check.py -n 8 | head -20); echo "$R" | head -5
echo "$R" | grep -q "missing=0" || echo "SUITE REGRESSION since $START — bisect needed"
grep -l "COMMIT" known_findings/*.json
