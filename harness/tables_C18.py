"""Translator plug-in for C18: literals the stream-decoder model quantifies over.

* `newline_chars`  — NEWLINE_CHARS of httpx LineDecoder.decode (the installed httpx the helpers run on), cross-checked
                     against what `str.splitlines` of the running interpreter actually splits on (fail closed if they differ);
* `whitespace_chars` — the code points `str.strip()/lstrip()` remove (`str.isspace`), from the interpreter;
* field names / separator / comment prefix / join separator of `_parse_sse_event`, and the shape of `iter_sse`,
  `iter_ndjson`, `iter_bytes`, `iter_sse_events_text` (which httpx iterator each one sits on).
"""
from __future__ import annotations

import ast
from pathlib import Path

from tables import TranslatorError, cstr

OUT_NAME = "T_C18.v"
import os
# VERIF_C18_SRC: mutation testing only (see prop_C18.py); never set by ./check
SRC = Path(os.environ.get("VERIF_C18_SRC") or "/repo/src") / "pyopenapi_gen/core/streaming_helpers.py"


def _httpx_decoders() -> Path:
    import httpx
    return Path(httpx.__file__).resolve().parent / "_decoders.py"


def _func(mod: ast.AST, name: str):
    for n in ast.walk(mod):
        if isinstance(n, (ast.FunctionDef, ast.AsyncFunctionDef)) and n.name == name:
            return n
    raise TranslatorError(f"function {name} not found")


def _cls(mod: ast.AST, name: str) -> ast.ClassDef:
    for n in ast.walk(mod):
        if isinstance(n, ast.ClassDef) and n.name == name:
            return n
    raise TranslatorError(f"class {name} not found")


def newline_chars() -> str:
    try:
        mod = ast.parse(_httpx_decoders().read_text())
    except (OSError, SyntaxError) as e:
        raise TranslatorError(f"cannot parse httpx/_decoders.py: {e}")
    dec = _func(_cls(mod, "LineDecoder"), "decode")
    found = [s.value.value for s in ast.walk(dec)
             if isinstance(s, ast.Assign) and isinstance(s.targets[0], ast.Name) and s.targets[0].id == "NEWLINE_CHARS"
             and isinstance(s.value, ast.Constant) and isinstance(s.value.value, str)]
    if len(found) != 1:
        raise TranslatorError("LineDecoder.decode: NEWLINE_CHARS literal not found")
    nl = found[0]
    actual = [c for c in range(0x110000) if len(("a" + chr(c) + "b").splitlines()) == 2]
    if sorted(map(ord, nl)) != actual:
        raise TranslatorError(f"httpx NEWLINE_CHARS {sorted(map(ord, nl))} != what str.splitlines splits on {actual}")
    if "\n" not in nl or "\r" not in nl:
        raise TranslatorError("NEWLINE_CHARS lacks LF/CR")
    return nl


def sse_literals() -> dict[str, str]:
    try:
        mod = ast.parse(SRC.read_text())
    except (OSError, SyntaxError) as e:
        raise TranslatorError(f"cannot parse {SRC}: {e}")
    f = _func(mod, "_parse_sse_event")
    # field names compared with `field == "<lit>"`, in order
    fields = [n.comparators[0].value for n in ast.walk(f)
              if isinstance(n, ast.Compare) and isinstance(n.left, ast.Name) and n.left.id == "field"
              and len(n.ops) == 1 and isinstance(n.ops[0], ast.Eq) and isinstance(n.comparators[0], ast.Constant)]
    if fields != ["data", "event", "id", "retry"]:
        raise TranslatorError(f"_parse_sse_event: field comparisons changed shape: {fields}")
    starts = [n.args[0].value for n in ast.walk(f)
              if isinstance(n, ast.Call) and isinstance(n.func, ast.Attribute) and n.func.attr == "startswith"
              and len(n.args) == 1 and isinstance(n.args[0], ast.Constant)]
    splits = [(n.args[0].value, n.args[1].value) for n in ast.walk(f)
              if isinstance(n, ast.Call) and isinstance(n.func, ast.Attribute) and n.func.attr == "split"
              and len(n.args) == 2 and all(isinstance(a, ast.Constant) for a in n.args)]
    ins = [n.left.value for n in ast.walk(f)
           if isinstance(n, ast.Compare) and isinstance(n.left, ast.Constant) and len(n.ops) == 1
           and isinstance(n.ops[0], ast.In)]
    joins = [n.func.value.value for n in ast.walk(f)
             if isinstance(n, ast.Call) and isinstance(n.func, ast.Attribute) and n.func.attr == "join"
             and isinstance(n.func.value, ast.Constant)]
    strips = [n.func.attr for n in ast.walk(f)
              if isinstance(n, ast.Call) and isinstance(n.func, ast.Attribute) and n.func.attr in ("strip", "lstrip", "rstrip",
                                                                                                    "removeprefix")]
    if starts != [":"] or splits != [(":", 1)] or ins != [":"] or joins != ["\n"] or strips != ["lstrip"]:
        raise TranslatorError(f"_parse_sse_event changed shape: startswith={starts} split={splits} in={ins} join={joins} "
                              f"strip={strips}")
    lstrip_calls = [n for n in ast.walk(f) if isinstance(n, ast.Call) and isinstance(n.func, ast.Attribute)
                    and n.func.attr == "lstrip"]
    if any(c.args or c.keywords for c in lstrip_calls):
        raise TranslatorError("_parse_sse_event: lstrip now takes arguments")
    # which httpx iterator each helper sits on
    def sits_on(name: str) -> list[str]:
        g = _func(mod, name)
        return [n.func.attr for n in ast.walk(g) if isinstance(n, ast.Call) and isinstance(n.func, ast.Attribute)
                and n.func.attr.startswith("aiter_")] + \
               [n.func.id for n in ast.walk(g) if isinstance(n, ast.Call) and isinstance(n.func, ast.Name)
                and n.func.id.startswith("iter_")]
    shape = {k: sits_on(k) for k in ("iter_bytes", "iter_ndjson", "iter_sse", "iter_sse_events_text")}
    if shape != {"iter_bytes": ["aiter_bytes"], "iter_ndjson": ["aiter_lines"], "iter_sse": ["aiter_lines"],
                 "iter_sse_events_text": ["iter_sse"]}:
        raise TranslatorError(f"helpers no longer sit on the modelled httpx iterators: {shape}")
    # arguments to the aiter_* calls would change chunking (chunk_size=...)
    for k in shape:
        for n in ast.walk(_func(mod, k)):
            if (isinstance(n, ast.Call) and isinstance(n.func, ast.Attribute) and n.func.attr.startswith("aiter_")
                    and (n.args or n.keywords)):
                raise TranslatorError(f"{k}: {n.func.attr} now called with arguments")
    return {"data": fields[0], "event": fields[1], "id": fields[2], "retry": fields[3], "colon": starts[0], "join": joins[0]}


def render() -> str:
    nl = newline_chars()
    lit = sse_literals()
    ws = [c for c in range(0x110000) if chr(c).isspace()]
    if [c for c in range(0x110000) if ("a" + chr(c)).strip() == "a"] != ws or \
            [c for c in range(0x110000) if (chr(c) + "a").lstrip() == "a"] != ws:
        raise TranslatorError("str.strip/lstrip whitespace set differs from str.isspace")
    if len(lit["colon"]) != 1 or len(lit["join"]) != 1:
        raise TranslatorError("separator literals are not single characters")
    lines = [
        "(* GENERATED by harness/tables_C18.py from httpx/_decoders.py, /repo/src/pyopenapi_gen/core/streaming_helpers.py",
        "   and the running interpreter's str methods - do not edit *)",
        "From Coq Require Import List NArith.", "Import ListNotations.", "Open Scope N_scope.", "",
        "(* httpx LineDecoder.decode NEWLINE_CHARS (= the characters str.splitlines splits on, checked) *)",
        "Definition newline_chars : list N := [" + "; ".join(str(ord(c)) for c in nl) + "].",
        "(* code points removed by str.strip()/str.lstrip() without arguments *)",
        "Definition whitespace_chars : list N := [" + "; ".join(map(str, ws)) + "].",
        "(* _parse_sse_event literals *)",
        f"Definition f_data : list N := {cstr(lit['data'])}.",
        f"Definition f_event : list N := {cstr(lit['event'])}.",
        f"Definition f_id : list N := {cstr(lit['id'])}.",
        f"Definition f_retry : list N := {cstr(lit['retry'])}.",
        f"Definition c_colon : N := {ord(lit['colon'])}.",
        f"Definition c_join : N := {ord(lit['join'])}.",
        "",
    ]
    return "\n".join(lines)


if __name__ == "__main__":
    print(render())
