"""C20 — name derivation is total, valid and collision-safe.

Implementation side: the NameSanitizer functions and the enum member namers are called directly; the five
de-duplication loops are driven through the REAL generator classes (DataclassGenerator.generate,
EnumGenerator.generate, ModelsEmitter.emit, EndpointsEmitter._deduplicate_operation_ids_globally,
EndpointParameterProcessor.process_parameters) with the renderer's input captured.
Oracle (independent of the model): str.isidentifier() and not keyword.iskeyword(), distinctness inside one
namespace, count / wire keys preserved.

The implementation is whatever `pyopenapi_gen` ./check put on PYTHONPATH (framework.REPO; VERIF_REPO_ROOT points
the whole run at a scratch checkout for experiments with seeded changes).
"""
from __future__ import annotations

import itertools
import json
import keyword
import logging
import os
import re
import shutil
import sys
import tempfile
from collections import Counter
from typing import Any

from framework import BUILD, Check, cbool, clist, copt, cpair, cstr, load_corpus  # noqa: E402

logging.disable(logging.CRITICAL)

TRUSTED = [
    "Coq 8.16.1 kernel + vm_compute (witness theorems, finite-table lemmas and correspondence evaluation)",
    "hand-written Gallina models coq/Model/Names.v (regex pipelines as tokenisers) and coq/Model/Dedup.v (the "
    "de-duplication loops), tied to the code by this run's correspondence cases",
    "translator harness/tables.py (keyword.kwlist) and harness/tables_C20.py (RESERVED_NAMES, literals of the namers)",
    "CPython's Unicode database for non-ASCII code points (\\w, lower/upper/title mappings, isdigit, Cased, "
    "Case_Ignorable): Section variables in the model, instantiated per run by tables from Python's own str/re",
    "str.isidentifier / keyword.iskeyword as the definition of 'valid identifier' in the oracle; the theorems use the "
    "ASCII identifier grammar [A-Za-z_][A-Za-z0-9_]*",
]

ALPHABET = ["a", "B", "c", "1", "_", "-", " ", "$", "é"]

FN = {0: "sanitize_class_name", 1: "sanitize_module_name", 2: "sanitize_method_name", 3: "sanitize_tag_class_name",
      4: "sanitize_tag_attr_name", 5: "normalize_tag_key", 6: "is_valid_python_identifier",
      7: "enum_member_str", 8: "enum_member_int", 9: "_to_module_name"}
NAME_FNS = (0, 1, 2, 3, 4, 7, 8)   # outputs that must be identifiers
CALL_FINDINGS = {1: "F20d", 2: "F20h"}

# code points with interesting Unicode behaviour (case mappings that change length, digits that are not
# decimal, word characters that are not identifier characters, case-ignorable / cased, astral planes)
UNI_POOL = "".join(chr(c) for c in [
    0xE9, 0xC9, 0xDF, 0xB2, 0xBD, 0xAA, 0xB5, 0xB7, 0xAD, 0xD7, 0xFF, 0x178,            # Latin-1: e-acute, sharp s, ^2, 1/2, ...
    0x130, 0x131, 0x1C4, 0x1C5, 0x1C6, 0x149, 0x1F0, 0x17F, 0x212A,                     # dotted I, dotless i, DZ digraphs, 'n, j-caron
    0x3A3, 0x3C3, 0x3C2, 0x391, 0x1FB3, 0x390, 0x1F80, 0x345,                           # Greek incl. sigma, ypogegrammeni
    0xFB01, 0xFB00, 0x587,                                                               # ligatures fi ff, Armenian ech-yiwn
    0x663, 0x969, 0xB3, 0x2460, 0x2167, 0x2081, 0x3007, 0x5341, 0x1369, 0x19DA,         # digits / numerics
    0x301, 0x307, 0x200D, 0x200C, 0x2019, 0x2B0, 0x2BC, 0x203F, 0x2040, 0x30FB, 0xFF3F, 0xFF21, 0xFF41, 0xFF11,
    0x4E2D, 0xAC00, 0x434, 0x414, 0x5D0, 0xE01, 0x2028, 0x85, 0xA0, 0x3000,
    0x1F600, 0x1D400, 0x1D7D9, 0x10400, 0x10428, 0x1E900, 0xE0041, 0x10FFFF,            # astral
])


# ------------------------------------------------------------------------------------------------ generators
def exhaustive(maxlen: int) -> list[str]:
    out = [""]
    for n in range(1, maxlen + 1):
        out += ["".join(t) for t in itertools.product(ALPHABET, repeat=n)]
    return out


def table_variants(reserved: list[str]) -> list[str]:
    out = []
    for w in list(keyword.kwlist) + list(getattr(keyword, "softkwlist", [])) + reserved + ["Protocol", "Union", "Optional"]:
        out += [w, w.upper(), w.capitalize(), w.lower(), w + "_", "_" + w, w + "\n", w[:1].lower() + w[1:].upper(),
                w + "2", w + "_2", " " + w + " ", w + "-" + w]
    return sorted(set(out))


WORDS = ["get", "user", "Users", "HTTP", "Http", "id", "ID", "v2", "V2", "2", "10", "item", "Items", "API", "Key", "x",
         "List", "by", "Name", "URL", "Server", "class", "None", "type", "import", "json", "data"]
SEPS = ["", "", "_", "-", " ", ".", "__", "/", "{", "}", "$", ":", "_-_"]


def fastapi_ids(rng, n: int) -> list[str]:
    fixed = ["read_items_items__item_id__get", "create_details_details_post", "getHTTPResponse", "listV2Users",
             "HTTPServer", "user-id", "X-API-Key", "{id}", "foo.bar", "getUserByID", "get_user_by_id_users__user_id__get",
             "XMLHttpRequest", "aB", "ABc", "ABCd", "aBC", "a1B", "A1b", "1A", "ABC1", "9lives", "__init__", "_private",
             "UPPER_SNAKE", "kebab-case-name", "dotted.name.v1", "with space", "tab\tname", "new\nline", "trail_",
             "_", "__", "a__b", "A_B", "a_B", "Ab_Cd", "XYz", "XYZa", "xYZ", "x-y_z w", "üser", "naïve", "Ünï"]
    out = list(fixed)
    for _ in range(n):
        k = rng.randint(1, 4)
        s = rng.choice(SEPS[:3])
        for i in range(k):
            s += rng.choice(WORDS) + (rng.choice(SEPS) if i < k - 1 or rng.random() < 0.2 else "")
        out.append(s)
    return out


def random_unicode(rng, n: int) -> list[str]:
    out = []
    ascii_pool = "aBc1_- $.'Z9"
    for _ in range(n):
        k = rng.randint(1, 6)
        cs = []
        for _ in range(k):
            r = rng.random()
            if r < 0.45:
                cs.append(rng.choice(UNI_POOL))
            elif r < 0.75:
                cs.append(rng.choice(ascii_pool))
            elif r < 0.9:
                cs.append(chr(rng.choice([rng.randrange(0x80, 0x800), rng.randrange(0x800, 0xD800),
                                          rng.randrange(0xE000, 0x10000)])))
            else:
                cs.append(chr(rng.randrange(0x10000, 0x110000)))
        out.append("".join(cs))
    # the final-sigma rule of str.lower needs its own stream
    for _ in range(n // 4):
        k = rng.randint(1, 5)
        out.append("".join(rng.choice("\u03a3\u03a3\u03a3a'.\u0301\u00ad\u0345 A_\u03b1-") for _ in range(k)))
    return out


# ------------------------------------------------------------------------------------------------ Unicode tables
def unicode_tables(strings) -> str:
    """Coq record with the behaviour of Python's str/re on every non-ASCII code point that occurs in the inputs or
    can be produced from them by one or two case mappings."""
    cps: set[int] = set()
    for s in strings:
        cps.update(ord(c) for c in s if ord(c) >= 128)
    for _ in range(2):
        more = set()
        for cp in cps:
            c = chr(cp)
            for m in (c.lower(), c.upper(), c.title()):
                more.update(ord(x) for x in m if ord(x) >= 128)
        cps |= more
    word, digit, ign, cased, lower, upper, title = [], [], [], [], [], [], []
    for cp in sorted(cps):
        c = chr(cp)
        if re.match(r"\w", c):
            word.append(cp)
        if c.isdigit():
            digit.append(cp)
        p1 = (c + "Σ").lower()[-1] == "ς"          # c is cased and not case-ignorable
        p2 = ("A" + c + "Σ").lower()[-1] == "ς"    # c is case-ignorable, or cased
        if p1:
            cased.append(cp)
        if p2 and not p1:
            ign.append(cp)
        for tbl, m in ((lower, c.lower()), (upper, c.upper()), (title, c.title())):
            if m != c:
                tbl.append((cp, m))

    def nl(l):
        return clist(str(x) for x in l)

    def ml(l):
        return clist(cpair(str(cp), cstr(m)) for cp, m in l)
    return (f"Definition T : tables := {{| t_word := {nl(word)}; t_lower := {ml(lower)}; t_upper := {ml(upper)}; "
            f"t_title := {ml(title)}; t_digit := {nl(digit)}; t_ign := {nl(ign)}; t_cased := {nl(cased)} |}}.")


# ------------------------------------------------------------------------------------------------ implementation
class Impl:
    """lazy imports so that VERIF_C20_SRC is honoured and import failures surface as harness errors"""

    def __init__(self) -> None:
        from pyopenapi_gen import IROperation, IRParameter, IRRequestBody, IRSchema, IRSpec
        from pyopenapi_gen.context.render_context import RenderContext
        from pyopenapi_gen.core.utils import NameSanitizer
        from pyopenapi_gen.core.writers.python_construct_renderer import PythonConstructRenderer
        from pyopenapi_gen.emitters.endpoints_emitter import EndpointsEmitter
        from pyopenapi_gen.emitters.models_emitter import ModelsEmitter
        from pyopenapi_gen.http_types import HTTPMethod
        from pyopenapi_gen.visit.endpoint.processors.parameter_processor import EndpointParameterProcessor
        from pyopenapi_gen.visit.model.dataclass_generator import DataclassGenerator
        from pyopenapi_gen.visit.model.enum_generator import EnumGenerator
        self.__dict__.update(locals())
        self.NS = NameSanitizer

        class Cap(PythonConstructRenderer):
            cap: Any = None

            def render_dataclass(self, class_name, fields, description, context, field_mappings=None, **kw):  # type: ignore[override]
                self.cap = (list(fields), dict(field_mappings or {}))
                return super().render_dataclass(class_name=class_name, fields=fields, description=description,
                                                context=context, field_mappings=field_mappings, **kw)

            def render_enum(self, enum_name, base_type, values, description, context, **kw):  # type: ignore[override]
                self.cap = list(values)
                return super().render_enum(enum_name=enum_name, base_type=base_type, values=values,
                                           description=description, context=context, **kw)
        self.Cap = Cap
        self.enum_gen = EnumGenerator(Cap())
        self.scratch = tempfile.mkdtemp(prefix="c20_", dir=str(BUILD))

    def close(self) -> None:
        shutil.rmtree(self.scratch, ignore_errors=True)

    # ---- one sanitiser call
    def call(self, f: int, s: str, neg: bool = False, fb: int = 0) -> str | None:
        NS = self.NS
        if f == 0:
            return NS.sanitize_class_name(s)
        if f == 1:
            return NS.sanitize_module_name(s)
        if f == 2:
            return NS.sanitize_method_name(s)
        if f == 3:
            return NS.sanitize_tag_class_name(s)
        if f == 4:
            return NS.sanitize_tag_attr_name(s)
        if f == 5:
            return NS.normalize_tag_key(s)
        if f == 6:
            return "1" if NS.is_valid_python_identifier(s) else "0"
        if f == 7:
            try:
                return self.enum_gen._generate_member_name_for_string_enum(s)
            except ValueError:
                return None
        if f == 8:
            try:
                return self.enum_gen._generate_member_name_for_integer_enum(s, -fb if neg else fb)
            except ValueError:
                return None
        if f == 9:
            return self.PythonConstructRenderer._to_module_name(s)
        raise AssertionError(f)

    # ---- de-duplication loops through the real classes
    def fields(self, props: list) -> list:
        r = self.Cap()
        ps = {k: self.IRSchema(name=None, type="string") for k, _ in props}
        sch = self.IRSchema(name="Thing", type="object", properties=ps, required=[k for k, q in props if q])
        self.DataclassGenerator(r, {}).generate(sch, "Thing", self.RenderContext())
        fields, mapping = r.cap
        names = [x[0] for x in fields]
        keys = list(mapping.keys())
        if [mapping[k] for k in keys] != names:
            return [["<mapping/fields mismatch>", json.dumps([names, mapping])]]
        return [[k, mapping[k]] for k in keys]

    def enum(self, vals: list) -> list | None:
        r = self.Cap()
        sch = self.IRSchema(name="E", type="string", enum=list(vals))
        try:
            self.EnumGenerator(r).generate(sch, "E", self.RenderContext())
        except ValueError:
            return None
        return [v[0] for v in r.cap]

    def ops(self, ids: list) -> list:
        os_ = [self.IROperation(operation_id=i, method=self.HTTPMethod.GET, path="/p", summary=None, description=None)
               for i in ids]
        em = self.EndpointsEmitter(self.RenderContext())
        em._deduplicate_operation_ids_globally(os_)
        once = [o.operation_id for o in os_]
        em._deduplicate_operation_ids_globally(os_)
        return [once, [o.operation_id for o in os_]]

    BODY = {"body": "application/json", "files": "multipart/form-data", "form_data": "application/x-www-form-urlencoded",
            "bytes_content": "application/octet-stream"}

    def params(self, names: list, body: str | None, vars_: list) -> list:
        ps = [self.IRParameter(name=n, param_in="query", required=False, schema=self.IRSchema(name=None, type="string"))
              for n in names]
        rb = None
        if body:
            rb = self.IRRequestBody(required=False, content={self.BODY[body]: self.IRSchema(name=None, type="object")})
        path = "/p" + "".join("/{" + v + "}" for v in vars_)
        op = self.IROperation(operation_id="op", method=self.HTTPMethod.POST, path=path, summary=None, description=None,
                              parameters=ps, request_body=rb)
        out, _, _ = self.EndpointParameterProcessor({}).process_parameters(op, self.RenderContext())
        # the final stable sort puts required (= appended path variables, in template order) first; undo it to get
        # the construction order
        return [p["name"] for p in out if not p["required"]] + [p["name"] for p in out if p["required"]]

    def schemas(self, raw: list) -> list | None:
        """build_schemas (loader) on flat object schemas; content of schema i is recognisable by its property p<i>"""
        from pyopenapi_gen.core.loader.schemas.extractor import build_schemas
        doc = {n: {"type": "object", "properties": {f"p{i}": {"type": "string"}}} for i, n in enumerate(raw)}
        try:
            ctx = build_schemas(doc, {"schemas": doc})
        except RuntimeError:
            return None
        out = []
        for k, v in ctx.parsed_schemas.items():
            props = list((v.properties or {}).keys())
            idx = int(props[0][1:]) if len(props) == 1 and props[0][:1] == "p" and props[0][1:].isdigit() else 10 ** 6
            out.append([k, idx])
        return out

    def pipeline(self, raw: list) -> list | None | str:
        """whole generator (generate_client) on a document whose component schemas are all referenced by operations;
        observation = (module stem, class, position of the schema whose marker property the class has), by ast"""
        import ast

        from pipeline import generate
        schemas = {n: {"type": "object", "properties": {f"p{i}": {"type": "string"}}} for i, n in enumerate(raw)}
        paths = {f"/r{j}": {"get": {"operationId": f"g{j}", "responses": {"200": {"description": "ok", "content": {
            "application/json": {"schema": {"$ref": "#/components/schemas/" + n}}}}}}} for j, n in enumerate(raw)}
        g = generate({"openapi": "3.0.3", "info": {"title": "T", "version": "1"}, "paths": paths,
                      "components": {"schemas": schemas}})
        try:
            if not g.ok:
                return None if (g.error or "").startswith("RuntimeError") else f"ERR {g.error}"
            out = []
            for f in sorted((g.pkg_dir / "models").glob("*.py")):
                if f.name == "__init__.py":
                    continue
                try:
                    tree = ast.parse(f.read_text())
                except SyntaxError as e:
                    return f"SYNTAX {f.name}: {e.msg}"
                classes = [n for n in tree.body if isinstance(n, ast.ClassDef)]
                if len(classes) != 1:
                    return f"SHAPE {f.name}: {len(classes)} classes"
                marks = [b.target.id for b in classes[0].body
                         if isinstance(b, ast.AnnAssign) and isinstance(b.target, ast.Name)]
                idx = int(marks[0][1:]) if len(marks) == 1 and marks[0][1:].isdigit() else 10 ** 6
                out.append([f.stem, classes[0].name, idx])
            return out
        finally:
            g.cleanup()

    def clean(self, op_id: str, method: str, path: str) -> list:
        cid = self.NS.clean_auto_generated_operation_id(op_id, method, path)
        return [cid, self.NS.sanitize_method_name(cid)]

    def tagops(self, ops: list) -> list | str:
        """whole generator on a document whose operations carry the given (operationId, tag) pairs; observation =
        the public method names of every generated endpoint client class (ast), as a sorted list of lists"""
        import ast

        from pipeline import generate
        paths = {}
        for j, (oid, tag) in enumerate(ops):
            op = {"operationId": oid, "responses": {"204": {"description": "ok"}}}
            if tag is not None:
                op["tags"] = [tag]
            paths[f"/r{j}"] = {"get": op}
        g = generate({"openapi": "3.0.3", "info": {"title": "T", "version": "1"}, "paths": paths})
        try:
            if not g.ok:
                return f"ERR {g.error}"
            out = []
            for f in sorted((g.pkg_dir / "endpoints").glob("*.py")):
                if f.name == "__init__.py":
                    continue
                try:
                    tree = ast.parse(f.read_text())
                except SyntaxError as e:
                    return f"SYNTAX {f.name}: {e.msg}"
                for c in tree.body:
                    if isinstance(c, ast.ClassDef) and not c.name.endswith("Protocol"):
                        out.append([b.name for b in c.body if isinstance(b, (ast.FunctionDef, ast.AsyncFunctionDef))
                                    and not b.name.startswith("_")])
            return sorted(out)
        finally:
            g.cleanup()

    def models(self, raw: list) -> dict:
        d = tempfile.mkdtemp(dir=self.scratch)
        try:
            schemas, objs = {}, []
            for i, n in enumerate(raw):
                s = self.IRSchema(name=n, type="object", properties={"a": self.IRSchema(name=None, type="string")})
                objs.append(s)
                schemas[f"k{i}"] = s
            spec = self.IRSpec(title="t", version="1", schemas=schemas)
            ctx = self.RenderContext(package_root_for_generated_code=d, overall_project_root=d, parsed_schemas=schemas,
                                     core_package_name="core")
            self.ModelsEmitter(ctx, schemas).emit(spec, d)
            files = sorted(f[:-3] for f in os.listdir(os.path.join(d, "models"))
                           if f.endswith(".py") and f != "__init__.py")
            return {"names": [[s.generation_name or "", s.final_module_stem or ""] for s in objs], "files": files}
        finally:
            shutil.rmtree(d, ignore_errors=True)


# ------------------------------------------------------------------------------------------------ oracle
def ident_ok(s: Any) -> bool:
    return isinstance(s, str) and s.isidentifier() and not keyword.iskeyword(s)


def oracle_call(f: int, s: str, out: str | None) -> list[str]:
    if f in NAME_FNS:
        if out is None:
            return [f"{FN[f]}({s!r}) raised: name derivation is not total"]
        if not ident_ok(out):
            return [f"{FN[f]}({s!r}) = {out!r} is not a valid non-keyword identifier"]
    if f == 9 and s and s.isascii() and s.isalpha():
        from pyopenapi_gen.core.utils import NameSanitizer as _NS
        m = _NS.sanitize_module_name(s)
        if not m.endswith("_") and out != m:
            return [f"_to_module_name({s!r}) = {out!r} but the model file is sanitize_module_name = {m!r} "
                    f"(letters-only, non-reserved name: the two snake-casers must agree)"]
    if f == 6 and out == "1" and not ident_ok(s):
        return [f"is_valid_python_identifier({s!r}) is True for a string that is not an identifier"]
    return []


def oracle_namespace(what: str, n_in: int, names: list | None) -> list[str]:
    if names is None:
        return [f"{what}: derivation raised"]
    fails = []
    if len(names) != n_in:
        fails.append(f"{what}: {n_in} spec names gave {len(names)} identifiers (dropped or merged)")
    if len(set(names)) != len(names):
        dup = sorted({x for x in names if names.count(x) > 1})
        fails.append(f"{what}: identifiers collide inside one namespace: {dup}")
    bad = [x for x in names if not ident_ok(x)]
    if bad:
        fails.append(f"{what}: not valid non-keyword identifiers: {bad[:3]}")
    return fails


# ------------------------------------------------------------------------------------------------ printers
def c_call(f: int, s: str, neg: bool, fb: int, out: str | None) -> str:
    return f"((({f}, {cstr(s)}), ({cbool(neg)}, {fb})), {copt(out, cstr)})"


def c_strs(l) -> str:
    return clist(cstr(x) for x in l)


def c_pairs(l) -> str:
    return clist(cpair(cstr(a), cstr(b)) for a, b in l)


IMPORTS = "From PG Require Import Lib.Strs Model.Names Model.Dedup Corr.C20."


# ------------------------------------------------------------------------------------------------ streams
def short_names(chk: Check) -> list[str]:
    """names for the namespace streams: collide in many ways after sanitisation"""
    return ["foo", "Foo", "FOO", "foo_2", "foo_3", "foo_2_2", "foo-2", "foo_", "_foo", "f-o", "fO", "foo2", "Foo2",
            "class", "Class", "class_", "type", "Type_", "Type2", "none", "None", "$", "", "é", "1", "_1", "a b",
            "a_b", "aB", "a-b", "A", "a", "A_1", "a_1", "A-1", "id", "ID", "body", "files", "x", "2"]


def main(chk: Check, replay: dict | None = None) -> int:
    impl = Impl()
    try:
        return _main(chk, impl, replay)
    finally:
        impl.close()


def run_case(impl: Impl, kind: str, inp: Any) -> dict:
    if kind == "call":
        f, s, neg, fb = inp
        out = impl.call(f, s, neg, fb)
        return {"input": {"kind": kind, "fn": FN[f], "arg": inp}, "obs": out, "oracle_fail": oracle_call(f, s, out)}
    if kind == "fields":
        obs = impl.fields(inp)
        fails = oracle_namespace("dataclass fields", len(inp), [b for _, b in obs])
        if sorted(a for a, _ in obs) != sorted(k for k, _ in inp):
            fails.append("dataclass fields: wire keys not preserved")
        return {"input": {"kind": kind, "arg": inp}, "obs": obs, "oracle_fail": fails}
    if kind == "enum":
        obs = impl.enum(inp)
        return {"input": {"kind": kind, "arg": inp}, "obs": obs, "oracle_fail": oracle_namespace("enum members", len(inp), obs)}
    if kind == "ops":
        obs = impl.ops(inp)
        ms = [impl.NS.sanitize_method_name(i) for i in obs[0]]
        fails = oracle_namespace("operation methods of one client", len(inp), ms)
        if obs[1] != obs[0]:
            fails.append("operation-id de-duplication is not idempotent (emit runs it twice under --force)")
        return {"input": {"kind": kind, "arg": inp}, "obs": obs, "oracle_fail": fails}
    if kind == "params":
        names, body, vars_ = inp
        obs = impl.params(names, body, vars_)
        fails = oracle_namespace("parameters of one operation", len(obs), obs)
        need = Counter(impl.NS.sanitize_method_name(n) for n in names)
        if body:
            need[body] += 1
        have = Counter(obs)
        lost = sorted(k for k in need if have[k] < need[k])
        if lost:
            fails.append(f"parameters of one operation: declared parameter(s) {lost} missing from the signature (dropped)")
        return {"input": {"kind": kind, "arg": inp}, "obs": obs, "oracle_fail": fails}
    if kind == "schemas":
        obs = impl.schemas(inp)
        fails = []
        if obs is None:
            fails.append("component schemas: the loader raised RuntimeError (name derivation is not total)")
        else:
            held = {i for _, i in obs}          # a schema registered twice is a duplicate, not a drop or a merge
            lost = [inp[i] for i in range(len(inp)) if i not in held]
            if lost or not held <= set(range(len(inp))):
                fails.append(f"component schemas: {len(inp)} declared, {len(obs)} kept; dropped or merged: {lost}")
        return {"input": {"kind": kind, "arg": inp}, "obs": obs, "oracle_fail": fails}
    if kind == "clean":
        obs = impl.clean(*inp)
        fails = []
        if not ident_ok(obs[1]):
            fails.append(f"method name {obs[1]!r} derived from the cleaned operation id {obs[0]!r} is not a valid identifier")
        if not (obs[0] == inp[0] or (obs[0] and inp[0].startswith(obs[0]))):
            fails.append(f"cleaned operation id {obs[0]!r} is neither the id nor a non-empty prefix of it")
        return {"input": {"kind": kind, "arg": inp}, "obs": obs, "oracle_fail": fails}
    if kind == "tagops":
        obs = impl.tagops(inp)
        fails = []
        if isinstance(obs, str):
            fails.append(f"operations of one client: generation failed or produced unparsable endpoints ({obs})")
        else:
            for names in obs:
                fails += oracle_namespace("methods of one generated client class", len(names), names)
            if sum(len(n) for n in obs) != len(inp):
                fails.append(f"operations of one client: {len(inp)} operations declared, "
                             f"{sum(len(n) for n in obs)} methods generated (dropped or merged)")
        return {"input": {"kind": kind, "arg": inp}, "obs": obs, "oracle_fail": fails}
    if kind == "pipeline":
        obs = impl.pipeline(inp)
        fails = []
        if obs is None or isinstance(obs, str):
            fails.append(f"whole pipeline: generation failed or produced unparsable models ({obs or 'RuntimeError'})")
        else:
            fails += oracle_namespace("generated model classes", len(obs), [c for _, c, _ in obs])
            fails += oracle_namespace("generated model modules", len(obs), [m for m, _, _ in obs])
            lost = [inp[i] for i in range(len(inp)) if i not in {k for _, _, k in obs}]
            if lost:
                fails.append(f"whole pipeline: no generated model has the content of schema(s) {lost} (dropped or merged)")
        return {"input": {"kind": kind, "arg": inp}, "obs": obs, "oracle_fail": fails}
    if kind == "models":
        o = impl.models(inp)
        obs = o["names"]
        fails = oracle_namespace("model classes", len(inp), [a for a, _ in obs])
        fails += oracle_namespace("model modules", len(inp), [b for _, b in obs])
        if sorted(b for _, b in obs) != o["files"]:
            fails.append(f"model modules: files written {o['files']} != stems assigned")
        return {"input": {"kind": kind, "arg": inp}, "obs": obs, "oracle_fail": fails}
    raise AssertionError(kind)


def _main(chk: Check, impl: Impl, replay: dict | None) -> int:
    if replay is not None:
        inp = replay["input"]
        r = run_case(impl, inp["kind"], inp["arg"])
        print(json.dumps(r, indent=1, default=str))
        if r["oracle_fail"]:
            print(f"VIOLATION property=C20 replay=(replayed) : {r['oracle_fail']}")
            return 1
        return 0

    chk.prove()
    if chk.thorough and not chk.broken:
        # independent re-check of the compiled proofs (and of "no axioms") by coqchk
        from framework import COQ, sh
        rc, out = sh(["coqchk", "-o", "-silent", "-Q", str(COQ), "PG", "PG.Properties.C20"], timeout=1500)
        ok = rc == 0 and "* Axioms: <none>" in out
        chk.cov["coqchk"] = "ok: Axioms <none>" if ok else "FAILED"
        if not ok:
            chk.broken.append({"kind": "coqchk", "name": "PG.Properties.C20", "detail": out[-1500:]})
    rng = chk.rng
    reserved = sorted(impl.NS.RESERVED_NAMES)
    corpus = load_corpus("C20")
    dist: dict[str, Any] = {}

    # ---------------------------------------------------------------- A. direct calls
    strings: list[str] = []
    strings += exhaustive(4 if chk.thorough else 3)
    n_exh = len(strings)
    strings += table_variants(reserved)
    n_tab = len(strings) - n_exh
    strings += fastapi_ids(rng, 1500 if chk.thorough else 300)
    n_ids = len(strings) - n_exh - n_tab
    strings += random_unicode(rng, 4000 if chk.thorough else 800)
    n_uni = len(strings) - n_exh - n_tab - n_ids
    strings = list(dict.fromkeys(strings))
    calls: list[tuple] = [tuple(c["input"]["arg"]) for c in corpus if c["input"]["kind"] == "call"]
    for s in strings:
        for f in (0, 1, 2, 3, 4, 5, 6, 7):
            calls.append((f, s, False, 0))
        if s.isascii():
            calls.append((9, s, False, 0))
    ints = [0, 1, 7, 10, 42, 255, 1000, 2 ** 31, 10 ** 20]
    for s in strings[: (3000 if chk.thorough else 900)] + [str(i) for i in ints] + ["-" + str(i) for i in ints] + \
            ["1.5", "-1.5", "1e3", ".", "-", "+1", " 1 ", "0x10", "1_000"]:
        try:
            iv = int(s)
        except (ValueError, TypeError):
            iv = rng.choice(ints) * rng.choice([1, -1]) if rng.random() < 0.3 else 0
        calls.append((8, s, iv < 0, abs(iv)))
    calls = list(dict.fromkeys(calls))
    call_cases = [run_case(impl, "call", list(c)) for c in calls]
    dist["calls"] = {"exhaustive_strings": n_exh, "table_variants": n_tab, "fastapi_style": n_ids, "random_unicode": n_uni,
                     "per_function": {FN[f]: sum(1 for c in calls if c[0] == f) for f in FN},
                     "non_ascii_inputs": sum(1 for c in calls if not c[1].isascii()),
                     "astral_inputs": sum(1 for c in calls if any(ord(x) > 0xFFFF for x in c[1])),
                     "oracle_failures": sum(1 for c in call_cases if c["oracle_fail"])}
    codes = None
    if chk.model_ok:
        codes = chk.coq_eval(IMPORTS, "((N * str) * (bool * N)) * option str",
                             [c_call(*c, out=r["obs"]) for c, r in zip(calls, call_cases)], "run_calls T",
                             shard=1500, prelude=unicode_tables(c[1] for c in calls), tag="calls")
    chk.decide(call_cases, codes, CALL_FINDINGS, "Corr.C20.run_calls: sanitiser(model) = NameSanitizer/EnumGenerator output")

    # ---------------------------------------------------------------- B. namespaces through the real generator
    pool = short_names(chk)
    small = ["foo", "Foo", "foo_2", "foo-2", "$", "", "class", "1", "a b", "a_b"]

    def combos(base: list[str], k_pairs: int, k_triples: int) -> list[list[str]]:
        out = [list(t) for t in itertools.product(base, repeat=2)]
        out += [list(t) for t in itertools.product(base[:6], repeat=3)]
        out += [[rng.choice(pool) for _ in range(2)] for _ in range(k_pairs)]
        out += [[rng.choice(pool) for _ in range(rng.randint(3, 6))] for _ in range(k_triples)]
        return out
    scale = 4 if chk.thorough else 1

    # pile-ups: 3..6 spec names that all derive the same identifier, optionally with the suffixed names the loop
    # would hand out already taken (a suffix loop needs several iterations; `while` -> `if` shows here)
    PILES = [["a-b", "a_b", "a b", "a.b", "a$b", "a__b"], ["foo", "Foo", "FOO", "fOO", "foo_", "_foo"],
             ["class", "Class", "CLASS", "class_", "_class", "cLASS"], ["x", "X", "x_", "_x", "x-", "-x"],
             ["$", "", "_", "-", " ", "$$"], ["1", "_1", "1_", "-1", " 1", "1$"]]

    def piles(dup_ok: bool) -> list[list[str]]:
        out = []
        for pile in PILES:
            b = pile[0]
            for k in (3, 4, 5, 6):
                out.append(pile[:k])
                out.append(list(reversed(pile[:k])))
                if dup_ok:
                    out.append([b] * k)
            for taken in ([b + "_2"], [b + "_2", b + "_3"], [b + "2", b + "3"], [b + "_1", b + "_2"]):
                out.append(pile[:3] + taken)
                out.append(taken + pile[:4])
                out.append(pile[:2] + taken + pile[2:4])
        return out

    # fields (dict keys are distinct)
    field_inputs = [c["input"]["arg"] for c in corpus if c["input"]["kind"] == "fields"]
    for names in combos(small, 150 * scale, 150 * scale) + piles(False):
        names = list(dict.fromkeys(names))
        field_inputs.append([[n, rng.random() < 0.4] for n in names])
    field_cases = [run_case(impl, "fields", x) for x in field_inputs]
    enum_inputs = [c["input"]["arg"] for c in corpus if c["input"]["kind"] == "enum"]
    enum_inputs += combos(["a", "A", "A_1", "a-1", "", "$", "1", "if", "IF", "ß"], 150 * scale, 150 * scale) + piles(True)
    enum_cases = [run_case(impl, "enum", x) for x in enum_inputs]
    ops_inputs = [c["input"]["arg"] for c in corpus if c["input"]["kind"] == "ops"]
    ops_inputs += combos(small + ["foo_3", "getFoo", "get_foo"], 200 * scale, 300 * scale) + piles(True)
    ops_cases = [run_case(impl, "ops", x) for x in ops_inputs]
    par_inputs = [c["input"]["arg"] for c in corpus if c["input"]["kind"] == "params"]
    bodies = [None, None, "body", "files", "form_data", "bytes_content"]
    ppool = ["id", "ID", "user-id", "user_id", "userId", "body", "files", "form_data", "x", "$", "class", "X-Y", "x_y"]
    for names in combos(["id", "Id", "user-id", "user_id", "body", "$", "x"], 100 * scale, 200 * scale):
        names = [n if n in ppool or rng.random() < 0.5 else rng.choice(ppool) for n in names]
        vars_ = [rng.choice(ppool + ["v"]).replace("$", "w") for _ in range(rng.randint(0, 2))]
        par_inputs.append([names, rng.choice(bodies), list(dict.fromkeys(vars_))])
    par_cases = [run_case(impl, "params", x) for x in par_inputs]
    mod_inputs = [c["input"]["arg"] for c in corpus if c["input"]["kind"] == "models"]
    mpool = ["foo", "Foo", "FOO", "foo_bar", "FooBar", "fooBar", "type", "Type_", "Type2", "Type3", "email", "Email_",
             "none", "None", "true", "$", "1a", "a", "A", "a2", "A_2", "a_2", "é", "x y", "list", "List", "Protocol",
             "protocol", "Union", "UNION"]
    for names in combos(["foo", "Foo", "type", "Type2", "none", "$"], 60 * scale, 120 * scale):
        names = [n if rng.random() < 0.6 else rng.choice(mpool) for n in names]
        mod_inputs.append([n if n.strip() else "$" for n in names])
    mod_inputs += [[n if n.strip() else "$" for n in names] for names in piles(True)]
    mod_cases = [run_case(impl, "models", x) for x in mod_inputs]

    sch_inputs = [c["input"]["arg"] for c in corpus if c["input"]["kind"] == "schemas"]
    spool = ["foo_bar", "FooBar", "fooBar", "foo-bar", "Foo", "foo", "FOO", "a_b", "a-b", "AB", "Ab", "aB", "x_y_z", "XYZ",
             "Xyz", "user_v2", "UserV2", "HTTPServer", "HttpServer", "type", "Type_", "none", "None", "$", "-", "1a", "_1a",
             "Pet", "pet", "Pets", "A", "a", "é", "x", "n_o_n_e", "t_r_u_e", "i_d", "NONE"]
    for names in ([list(t) for t in itertools.product(spool[:20], repeat=2)]
                  + [[rng.choice(spool) for _ in range(rng.randint(1, 5))] for _ in range(300 * scale)]
                  + [[s] for s in spool] + [[s] for s in exhaustive(2)]):
        names = [n for n in dict.fromkeys(names) if n.strip()]
        if names:
            sch_inputs.append(names)
    sch_cases = [run_case(impl, "schemas", x) for x in sch_inputs]

    pipe_inputs = [c["input"]["arg"] for c in corpus if c["input"]["kind"] == "pipeline"]
    ppool2 = ["audit-entry", "audit_entry", "AuditEntry", "Pet", "pet", "PET", "foo_bar", "FooBar", "fooBar", "user_v2",
              "UserV2", "type", "Type_", "Type2", "list", "List", "1st", "_1st", "a_b", "Ab", "Pet2", "pet_2", "$", "x"]
    for names in ([list(t) for t in itertools.permutations(ppool2[:16], 2)
                   if impl.NS.sanitize_class_name(t[0]) == impl.NS.sanitize_class_name(t[1]) or rng.random() < 0.15]
                  + [[rng.choice(ppool2) for _ in range(rng.randint(2, 5))] for _ in range(150 * scale)]):
        names = list(dict.fromkeys(names))
        pipe_inputs.append(names)
    pipe_cases = [run_case(impl, "pipeline", x) for x in pipe_inputs]

    clean_inputs = [c["input"]["arg"] for c in corpus if c["input"]["kind"] == "clean"]
    handlers = ["create_details", "read_items", "getUser", "list", "x", "Get_User", "read", "", "_", "é", "items", "İtem"]
    cpaths = ["/details", "/items/{item_id}", "/api/v1/users/{user-id}/posts", "/", "", "/a.b/c-d", "/{id}", "//x//",
              "/Items", "/users/{userId}", "/é/x", "/_/_", "/a/"]
    cmethods = ["GET", "POST", "get", "Post", "DELETE", "PUT", "PATCH"]

    def fastapi_norm(pth: str) -> str:
        return re.sub(r"\W", "_", pth).strip("/")

    for h in handlers:
        for pth in cpaths:
            for mth in rng.sample(cmethods, 3):
                base = f"{h}{fastapi_norm(pth)}_{mth.lower()}"
                for oid in {base, base.upper(), h + "_" + mth.lower(), base + "x", fastapi_norm(pth)[1:] + "_" + mth.lower()}:
                    clean_inputs.append([oid, mth, pth])
    for _ in range(300 * scale):
        clean_inputs.append([rng.choice(strings), rng.choice(cmethods), rng.choice(cpaths)])
    clean_cases = [run_case(impl, "clean", x) for x in clean_inputs]

    tag_inputs = [c["input"]["arg"] for c in corpus if c["input"]["kind"] == "tagops"]
    tpool = ["Users", "users", "USERS", None, "Default", "default", "Orders", "orders", "user_admin", "User-Admin"]
    ipool = ["getUser", "get_user", "get-user", "GetUser", "ping", "Ping", "list", "List", "foo", "foo_2", "foo-2", "x"]
    for _ in range(90 * scale):
        k = rng.randint(2, 5)
        same = rng.random() < 0.6
        base_tags = rng.choice([["Users", "users", "USERS"], [None, "Default", "default"], ["Orders", "orders"],
                                ["user_admin", "User-Admin"]])
        base_ids = rng.choice([["getUser", "get_user", "get-user", "GetUser"], ["ping", "Ping"], ["foo", "foo", "foo_2", "foo-2"],
                               ["list", "List", "x"]])
        tag_inputs.append([[rng.choice(base_ids if same else ipool), rng.choice(base_tags if rng.random() < 0.8 else tpool)]
                           for _ in range(k)])
    tag_cases = [run_case(impl, "tagops", x) for x in tag_inputs]

    streams = [
        ("fields", field_cases, "list (str * bool) * list (str * str)", "run_fields",
         lambda c: f"({clist(cpair(cstr(k), cbool(q)) for k, q in c['input']['arg'])}, {c_pairs(c['obs'])})",
         {}, "Corr.C20.run_fields: dedup_fields = DataclassGenerator field mapping"),
        ("enum", enum_cases, "list str * option (list str)", "run_enum T",
         lambda c: f"({c_strs(c['input']['arg'])}, {copt(c['obs'], c_strs)})",
         {}, "Corr.C20.run_enum: dedup_enum = EnumGenerator member names"),
        ("ops", ops_cases, "list str * (list str * list str)", "run_ops",
         lambda c: f"({c_strs(c['input']['arg'])}, ({c_strs(c['obs'][0])}, {c_strs(c['obs'][1])}))",
         {}, "Corr.C20.run_ops: dedup_ops = _deduplicate_operation_ids_globally (once, twice)"),
        ("params", par_cases, "((list str * option str) * list str) * list str", "run_params",
         lambda c: f"((({c_strs(c['input']['arg'][0])}, {copt(c['input']['arg'][1], cstr)}), "
                   f"{c_strs(c['input']['arg'][2])}), {c_strs(c['obs'])})",
         {1: "F04c", 2: "F04d"}, "Corr.C20.run_params: params = EndpointParameterProcessor.process_parameters names"),
        ("schemas", sch_cases, "list str * option (list (str * nat))", "run_schemas",
         lambda c: f"({c_strs(c['input']['arg'])}, "
                   f"{copt(c['obs'], lambda l: clist(cpair(cstr(k), str(i) + '%nat') for k, i in l))})",
         {1: "F20k", 2: "F20m"}, "Corr.C20.run_schemas: build_keys = keys of build_schemas(...).parsed_schemas"),
        ("pipeline", pipe_cases, "list str * option (list ((str * str) * nat))", "run_pipeline",
         lambda c: f"({c_strs(c['input']['arg'])}, "
                   + copt(c['obs'] if not isinstance(c['obs'], str) else None,
                          lambda l: clist(f"(({cstr(m)}, {cstr(k)}), {i}%nat)" for m, k, i in l)) + ")",
         {1: "F20k", 2: "F20m"},
         "Corr.C20.run_pipeline: pipeline_models = model modules/classes written by generate_client"),
        ("clean", clean_cases, "((str * str) * str) * (str * str)", "run_clean T",
         lambda c: f"((({cstr(c['input']['arg'][0])}, {cstr(c['input']['arg'][1])}), {cstr(c['input']['arg'][2])}), "
                   f"({cstr(c['obs'][0])}, {cstr(c['obs'][1])}))",
         {}, "Corr.C20.run_clean: clean_op_id = clean_auto_generated_operation_id (and its method name)"),
        ("tagops", tag_cases, "list (str * option str) * list (list str)", "run_tagops T",
         lambda c: "(" + clist(cpair(cstr(i), copt(t, cstr)) for i, t in c['input']['arg']) + ", "
                   + (clist(c_strs(n) for n in c['obs']) if not isinstance(c['obs'], str) else "[]") + ")",
         {}, "Corr.C20.run_tagops: global dedup_ops + grouping by normalize_tag_key = method names of the generated "
             "endpoint client classes"),
        ("models", mod_cases, "list str * list (str * str)", "run_models",
         lambda c: f"({c_strs(c['input']['arg'])}, {c_pairs(c['obs'])})",
         {}, "Corr.C20.run_models: dedup_models = ModelsEmitter generation_name / final_module_stem"),
    ]
    all_cases = list(call_cases)
    for tag, cases, ctype, fn, pr, findings, rel in streams:
        codes = None
        if chk.model_ok:
            prelude = unicode_tables(_all_strings(c["input"]["arg"]) for c in cases)
            codes = chk.coq_eval(IMPORTS, ctype, [pr(c) for c in cases], fn, shard=400, prelude=prelude, tag=tag)
        chk.decide(cases, codes, findings, rel)
        dist[tag] = {"cases": len(cases), "sizes": _hist(len(c["input"]["arg"][0]) if tag == "params" else len(c["input"]["arg"])
                                                         for c in cases),
                     "oracle_failures": sum(1 for c in cases if c["oracle_fail"])}
        all_cases += cases

    chk.cov["evaluations"] = len(all_cases)
    distinct = {json.dumps(c["input"], sort_keys=True) for c in all_cases
                if c["input"]["kind"] != "call" or len(c["input"]["arg"][1]) > 0}
    chk.cov["distinct_nontrivial"] = len(distinct)
    chk.cov["input_distribution"] = dist
    for c in (call_cases[1234:1236] + field_cases[-1:] + ops_cases[-1:]):
        chk.sample({"input": c["input"], "obs": c["obs"]})
    return chk.finish(
        TRUSTED,
        rule="corpus; every sanitiser on all strings of length <= 3 (quick) / <= 4 (thorough) over {a,B,c,1,_,-,' ',$,e-acute}, "
             "the keyword / soft keyword / RESERVED_NAMES tables with 12 case and affix variants, FastAPI-style ids, random "
             "Unicode (BMP + astral, final-sigma contexts); the five namespaces driven through the real generator classes on "
             "all pairs and small triples of colliding names plus random tuples. non-trivial = non-empty input string "
             "(calls) / any namespace case; distinct by JSON of the input")


def _all_strings(x: Any) -> str:
    if isinstance(x, str):
        return x
    if isinstance(x, (list, tuple)):
        return "".join(_all_strings(y) for y in x)
    return ""


def _hist(xs) -> dict:
    h: dict[str, int] = {}
    for x in xs:
        h[str(x)] = h.get(str(x), 0) + 1
    return dict(sorted(h.items()))
