"""C02 — schema-to-model structure fidelity (no silently lost fields).

Inputs: {"schemas": [[name, node], ...] (declaration order), "max_depth": int|None}
node := ["ref",n] | ["obj",[[key,node]..],[required..]] | ["arr",node] | ["oneof",[node..]] | ["anyof",[node..]]
      | ["allof",[node..]] | ["prim",k] | ["enum"] | ["map",node]
      | ["bare",[required..],variant]   only as an allOf member: variant "required" = {required:[..]} (no type, no
        properties), "typed" = {type:object, required:[..]}, "empty" = {}, "description" = {description:".."};
        the parser builds the same IR for it as for an object without properties, so the Coq printer maps it to Obj [] req
"""
from __future__ import annotations

import itertools
import json
import logging
import os
import sys
from typing import Any

from framework import VERIF, Check, cbool, clist, copt, cpair, cstr, load_corpus

TRUSTED = [
    "Coq 8.16.1 kernel + vm_compute (witness theorems and correspondence evaluation)",
    "hand-written Gallina model coq/Model/Parser.v + Model/AllOf.v of _parse_schema/_parse_properties/_resolve_ref/"
    "_process_all_of/oneOf/anyOf/items/additionalProperties and of the cycle tracker (enter/exit/storage policy), "
    "tied to the code by this run's correspondence cases (in the name domain where sanitize_class_name is "
    "'capitalise the first letter'; names outside it are run through the oracle only)",
    "translator harness/tables_C02.py for the heuristic string constants and the default depth limit",
    "the observation function (prop_C02.observe_ir / Parser.observe): per registered key the name, placeholder flags, "
    "structural kind and the (key, required, type reference) list",
]

PRIMS = ["string", "integer", "number", "boolean"]
BASIC = ["object", "array", "string", "integer", "number", "boolean", "null"]


# ---------------------------------------------------------------- documents
def to_json(nd: list) -> dict:
    """a trailing dict element of a node is a decoration: extra keywords copied into the schema object (e.g.
    {"default": {...}}); every structural walker and the Coq printer ignore it"""
    d = _to_json(nd)
    if isinstance(nd[-1], dict):
        d = dict(d)
        d.update(nd[-1])
    return d


def _to_json(nd: list) -> dict:
    k = nd[0]
    if k == "ref":
        return {"$ref": "#/components/schemas/" + nd[1]}
    if k == "obj":
        return {"type": "object", "properties": {a: to_json(b) for a, b in nd[1]}, "required": list(nd[2])}
    if k == "arr":
        return {"type": "array", "items": to_json(nd[1])}
    if k == "oneof":
        return {"oneOf": [to_json(x) for x in nd[1]]}
    if k == "anyof":
        return {"anyOf": [to_json(x) for x in nd[1]]}
    if k == "allof":
        return {"allOf": [to_json(x) for x in nd[1]]}
    if k == "prim":
        return {"type": nd[1]}
    if k == "enum":
        return {"type": "string", "enum": ["a", "b"]}
    if k == "map":
        return {"type": "object", "additionalProperties": to_json(nd[1])}
    if k == "objx":   # object with properties AND oneOf/anyOf next to them (branches: required-only or $ref variants)
        d = {"type": "object", "properties": {a: to_json(b) for a, b in nd[1]}, "required": list(nd[2])}
        d["anyOf" if nd[3] == "anyof" else "oneOf"] = [to_json(x) for x in nd[4]]
        return d
    if k == "bare":
        v = nd[2]
        if v == "required":
            return {"required": list(nd[1])}
        if v == "typed":
            return {"type": "object", "required": list(nd[1])}
        if v == "description":
            return {"description": "tightening branch"}
        return {}
    raise ValueError(k)


def bare_req(nd: list) -> list:
    return list(nd[1]) if nd[2] in ("required", "typed") else []


def bare_misplaced(schemas: list) -> bool:
    """a "bare" node anywhere but directly inside allOf (the model identifies it with Obj [] req only there)"""
    def walk(nd, under_allof):
        k = nd[0]
        if k == "bare":
            return not under_allof
        if k == "obj":
            return any(walk(b, False) for _, b in nd[1])
        if k in ("arr", "map"):
            return walk(nd[1], False)
        if k in ("oneof", "anyof"):
            return any(walk(x, False) for x in nd[1])
        if k == "allof":
            return any(walk(x, True) for x in nd[1])
        return False
    return any(walk(nd, False) for _, nd in schemas)


def doc(schemas: list) -> dict:
    return {"openapi": "3.0.3", "info": {"title": "T", "version": "1"},
            "paths": {"/ping": {"get": {"operationId": "ping", "responses": {"204": {"description": "ok"}}}}},
            "components": {"schemas": {n: to_json(nd) for n, nd in schemas}}}


def simple_cls(s: str) -> str:
    """the model's name function: capitalise the first letter (domain restriction, checked against the real one)"""
    return s[:1].upper() + s[1:] if s and s[0].islower() else s


def all_names(schemas: list) -> tuple[set, set]:
    names, keys = set(), set()

    def walk(nd):
        k = nd[0]
        if k == "ref":
            names.add(nd[1])
        elif k == "obj":
            for a, b in nd[1]:
                keys.add(a)
                walk(b)
        elif k in ("arr", "map"):
            walk(nd[1])
        elif k in ("oneof", "anyof", "allof"):
            for x in nd[1]:
                walk(x)
        elif k == "objx":
            for a, b in nd[1]:
                keys.add(a)
                walk(b)
            for x in nd[4]:
                walk(x)
    for n, nd in schemas:
        names.add(n)
        walk(nd)
    return names, keys


def anonymous_complex_array(schemas: list) -> bool:
    """an array with non-$ref, non-primitive items that is parsed without a name (synthetic name AnonymousArrayItem<k>)"""
    def walk(nd, named):
        k = nd[0]
        if k == "arr":
            cx = nd[1][0] not in ("ref", "prim", "enum")
            if cx and not named:
                return True
            return walk(nd[1], cx)  # complex items get the name <name>Item
        if k == "obj":
            # properties: $ref -> no parse of a node; simple primitive / simple array -> anonymous; others named
            for _, b in nd[1]:
                simple = b[0] == "prim" or (b[0] == "arr" and b[1][0] in ("ref", "prim", "enum"))
                if walk(b, not simple):
                    return True
            return False
        if k == "map":
            return walk(nd[1], False)
        if k in ("oneof", "anyof", "allof"):
            return any(walk(x, False) for x in nd[1])
        return False
    return any(walk(nd, True) for _, nd in schemas)


# The model transcribes fixes/F02d_followup.diff.  The only generated inputs on which a tree with and without that
# patch differ observably are documents with a top-level pure alias AND a lowered depth limit (the alias can be cut off
# at the limit and, without the patch, stays a placeholder).  While the patch is pending they are compared by the oracle
# only, so that the check is green on both trees; set to False once the follow-up is committed.
FOLLOWUP_PENDING = False


def in_domain(inp: dict) -> bool:
    """the fragment the Gallina model is claimed to be faithful on"""
    if not names_in_domain(inp):
        return False
    return shapes_in_domain(inp)


def names_in_domain(inp: dict) -> bool:
    """names on which sanitize_class_name is 'capitalise the first letter' (also the domain of the emitted-model oracle:
    other names are renamed/de-collided by the generator, which is C20's subject)"""
    from pyopenapi_gen.core.utils import NameSanitizer
    names, keys = all_names(inp["schemas"])
    real = NameSanitizer.sanitize_class_name
    for n in names:
        if real(n) != n or simple_cls(n) != n or not n.isascii():
            return False
        for suffix in ("Item",):
            if real(n + suffix) != n + suffix:
                return False
    for k in keys:
        if real(k) != simple_cls(k) or not k.isascii() or not k[0].islower():
            return False
        for n in names:
            if real(n + simple_cls(k)) != n + simple_cls(k) or real(n + simple_cls(k) + "Item") != n + simple_cls(k) + "Item":
                return False
    return len({n for n, _ in inp["schemas"]}) == len(inp["schemas"])


def shapes_in_domain(inp: dict) -> bool:
    if anonymous_complex_array(inp["schemas"]):
        return False
    if bare_misplaced(inp["schemas"]) or any(nd[0] == "objx" for _, nd in inp["schemas"]):
        return False   # objx (properties next to oneOf/anyOf) is not a node of the model: oracle only
    if FOLLOWUP_PENDING and inp.get("max_depth") is not None and any(nd[0] == "ref" for _, nd in inp["schemas"]):
        return False
    return True


# ---------------------------------------------------------------- implementation runner and observation
def flags_of(s) -> int:
    return ((1 if s._is_circular_ref else 0) + (2 if s._from_unresolved_ref else 0)
            + (4 if s._max_depth_exceeded_marker else 0) + (8 if s._is_self_referential_stub else 0))


def tyref(p, key: str | None) -> list:
    if p is None:
        return ["any"]
    if p.type is not None and p.type not in BASIC:
        return ["ref", p.type]
    if p.name is not None and p.name != key:
        return ["ref", p.name]
    return struct(p)


def struct(p) -> list:
    t = p.type
    if t == "array":
        return ["list", tyref(p.items, None)]
    if t in PRIMS:
        return ["enum"] if p.enum else ["prim", t]
    if t == "object":
        if p.properties:
            return ["inline", list(p.properties.keys())]
        if p.additional_properties not in (None, True, False):
            return ["map", tyref(p.additional_properties, None)]
        return ["object"]
    if p.any_of or p.one_of:
        return ["union", [tyref(x, None) for x in (p.any_of or []) + (p.one_of or [])]]
    return ["any"]


def observe_ir(schemas: dict) -> list:
    out = []
    for k, s in schemas.items():
        out.append([k, s.name, flags_of(s), struct(s),
                    [[pk, pk in (s.required or []), tyref(pv, pk)] for pk, pv in s.properties.items()]])
    return out


class _Env:
    def __init__(self, max_depth):
        self.md = max_depth

    def __enter__(self):
        self.old = os.environ.pop("PYOPENAPI_MAX_DEPTH", None)
        if self.md is not None:
            os.environ["PYOPENAPI_MAX_DEPTH"] = str(self.md)

    def __exit__(self, *a):
        os.environ.pop("PYOPENAPI_MAX_DEPTH", None)
        if self.old is not None:
            os.environ["PYOPENAPI_MAX_DEPTH"] = self.old


def run_impl(inp: dict) -> tuple[Any, Any]:
    """returns (observation, IRSpec.schemas or None)"""
    from pyopenapi_gen import load_ir_from_spec
    logging.disable(logging.CRITICAL)
    try:
        with _Env(inp.get("max_depth")):
            ir = load_ir_from_spec(doc(inp["schemas"]))
        return observe_ir(ir.schemas), ir.schemas
    except RuntimeError as e:
        if "was not parsed" in str(e):
            return "NOT_PARSED", None
        return "ERR RuntimeError: " + str(e)[:100], None
    except RecursionError:
        return "ERR RecursionError", None
    except Exception as e:  # noqa: BLE001
        return f"ERR {type(e).__name__}: {str(e)[:100]}", None
    finally:
        logging.disable(logging.NOTSET)


# ---------------------------------------------------------------- the property's own oracle (independent resolver)
class _Cyclic(Exception):
    pass


def decl_fields(spec: dict, nd: list, seen: tuple = ()) -> tuple[dict, set]:
    """declared fields of a node: own properties plus those inherited through allOf (plain recursion)."""
    k = nd[0]
    if k in ("obj", "objx"):   # oneOf/anyOf next to properties constrain values, they do not add or remove fields
        return {a: b for a, b in nd[1]}, set(nd[2])
    if k == "bare":          # a branch without properties still contributes its `required` list
        return {}, set(bare_req(nd))
    if k == "ref":
        if nd[1] in seen:
            raise _Cyclic()
        if nd[1] not in spec:
            return {}, set()
        return decl_fields(spec, spec[nd[1]], seen + (nd[1],))
    if k == "allof":
        fields: dict = {}
        req: set = set()
        for m in nd[1]:
            f, r = decl_fields(spec, m, seen)
            for a, b in f.items():
                fields.setdefault(a, b)
            req |= r
        return fields, req
    return {}, set()


def oracle(inp: dict, obs: Any, schemas: dict | None) -> list[str]:
    from pyopenapi_gen.core.utils import NameSanitizer
    spec = {n: nd for n, nd in inp["schemas"]}
    fails: list[str] = []
    if schemas is None:
        return [f"loading the document failed: {obs}"]

    def model_of(n: str):
        s = schemas.get(n)
        if s is None:
            s = schemas.get(NameSanitizer.sanitize_class_name(n))
        return s

    def alias_chain(n: str) -> list[str]:
        out = [n]
        while n in spec and spec[n][0] == "ref" and spec[n][1] not in out:
            n = spec[n][1]
            out.append(n)
        return out

    def follow(p, hops=0):
        """a property/holder whose `type` names another registered schema designates that schema"""
        while p is not None and p.type is not None and p.type not in BASIC and hops < 8:
            t = schemas.get(p.type)
            if t is None:
                return None
            p, hops = t, hops + 1
        return p

    def conforms(nd, p, where, depth=0) -> str | None:
        if p is None:
            return f"{where}: no type at all"
        if depth > 12:
            return None
        k = nd[0]
        if k == "ref":
            got = p.type if (p.type is not None and p.type not in BASIC) else p.name
            ok_names = set()
            for a in alias_chain(nd[1]):       # a top-level alias is the same model as its target
                ok_names |= {a, NameSanitizer.sanitize_class_name(a)}
            if got not in ok_names:
                return f"{where}: should reference {nd[1]}, references {got}"
            if nd[1] in spec and model_of(nd[1]) is None:
                return f"{where}: references {nd[1]} which has no model"
            return None
        q = follow(p)
        if q is None:
            return f"{where}: type {p.type!r} names no registered schema"
        placeholder = q._is_circular_ref or q._from_unresolved_ref or q._max_depth_exceeded_marker
        if placeholder:
            return f"{where}: resolved to a placeholder ({q.name})"
        if k == "prim":
            return None if (q.type == nd[1] and not q.enum) else f"{where}: want {nd[1]}, got {q.type}{'+enum' if q.enum else ''}"
        if k == "enum":
            return None if (q.type == "string" and q.enum) else f"{where}: want enum, got {q.type}"
        if k == "arr":
            if q.type != "array":
                return f"{where}: want list, got {q.type}"
            return conforms(nd[1], q.items, where + "[]", depth + 1)
        if k == "map":
            if q.type != "object" or q.additional_properties in (None, True, False) or q.properties:
                return f"{where}: want map, got {q.type}"
            return conforms(nd[1], q.additional_properties, where + "{}", depth + 1)
        if k in ("oneof", "anyof"):
            ms = (q.one_of if k == "oneof" else q.any_of) or []
            if len(ms) != len(nd[1]):
                return f"{where}: want union of {len(nd[1])}, got {len(ms)} member(s)"
            for i, (x, m) in enumerate(zip(nd[1], ms)):
                r = conforms(x, m, f"{where}|{i}", depth + 1)
                if r:
                    return r
            return None
        if k in ("obj", "allof", "bare", "objx"):
            if q.type != "object":
                return f"{where}: want object, got {q.type}"
            return fields_ok(nd, q, where, depth + 1)
        return None

    def fields_ok(nd, s, where, depth=0) -> str | None:
        try:
            want, req = decl_fields(spec, nd)
        except _Cyclic:
            return None  # cyclic inheritance: the document has no declared meaning here
        got = s.properties or {}
        if set(got) != set(want):
            lost = sorted(set(want) - set(got))
            extra = sorted(set(got) - set(want))
            return f"{where}: fields {sorted(got)} != declared {sorted(want)} (lost {lost}, extra {extra})"
        for key, pn in want.items():
            if (key in (s.required or [])) != (key in req):
                return f"{where}.{key}: required={key in (s.required or [])} but declared {key in req}"
            r = conforms(pn, got[key], f"{where}.{key}", depth + 1)
            if r:
                return r
        return None

    for n, nd in inp["schemas"]:
        keys = {k for k in (n, NameSanitizer.sanitize_class_name(n)) if k in schemas}
        if not keys:
            fails.append(f"{n}: no model")
            continue
        s = model_of(n)
        if s._is_circular_ref or s._from_unresolved_ref or s._max_depth_exceeded_marker:
            fails.append(f"{n}: the model is a placeholder without fields (flags {flags_of(s)})")
            continue
        if nd[0] == "ref":
            # an alias declares what its target declares (fields, kind); an alias chain that never reaches a
            # non-alias schema (cycle of aliases / dangling) declares nothing
            t = alias_chain(n)[-1]
            if t not in spec or spec[t][0] == "ref":
                continue
            nd = spec[t]
        r = conforms(nd, s, n)
        if r:
            fails.append(r)
    return fails


# ---------------------------------------------------------------- second observation: the generated dataclasses
DRIVER = """
import dataclasses, importlib
def main(arg):
    m = importlib.import_module(arg["pkg"] + ".models")
    out = {}
    for name in dir(m):
        c = getattr(m, name)
        if isinstance(c, type) and dataclasses.is_dataclass(c):
            meta = getattr(c, "Meta", None)
            load = dict(getattr(meta, "key_transform_with_load", {}) or {})
            fs = []
            for f in dataclasses.fields(c):
                req = f.default is dataclasses.MISSING and f.default_factory is dataclasses.MISSING
                fs.append([f.name, req, str(f.type)])
            out[name] = {"fields": fs, "load": load}
        elif isinstance(c, type):
            out[name] = {"bases": [b.__name__ for b in c.__mro__[1:3]]}
    return out
"""
PY_PRIM = {"string": "str", "integer": "int", "number": "float", "boolean": "bool"}


def pipeline_check(inp: dict) -> tuple[list[str], str]:
    """Generate the package with the real generator, import its models in a fresh interpreter (pipeline.py) and compare
    dataclasses.fields()/Meta of every declared object schema with the declared fields.  Returns (failures, status);
    a package that cannot be generated/imported is not an observation of C02 (C01 owns that) and is only counted."""
    import pipeline
    spec = {n: nd for n, nd in inp["schemas"]}
    with _Env(inp.get("max_depth")):
        g = pipeline.generate(doc(inp["schemas"]))
    try:
        if not g.ok:
            return [], "generator-failed"
        r = pipeline.drive(g, DRIVER, {"pkg": g.package})
        if not r.get("ok"):
            return [], "import-failed"
        classes = r["result"]
    finally:
        g.cleanup()
    fails = []
    for n, nd in inp["schemas"]:
        if nd[0] not in ("obj", "allof"):
            continue
        try:
            want, req = decl_fields(spec, nd)
        except _Cyclic:
            continue
        c = classes.get(n)
        if c is None or "fields" not in c:
            fails.append(f"generated code: no dataclass {n}")
            continue
        load = c["load"]
        by_name = {f[0]: f for f in c["fields"]}
        if set(load) != set(want) or sorted(load.values()) != sorted(by_name) or len(set(load.values())) != len(load):
            fails.append(f"generated code: {n} has JSON keys {sorted(load)} / fields {sorted(by_name)}, declared {sorted(want)}")
            continue
        for key, pn in want.items():
            f = by_name[load[key]]
            if f[1] != (key in req):
                fails.append(f"generated code: {n}.{key} required={f[1]} but declared {key in req}")
            t = f[2]
            ok = True
            if pn[0] == "ref" and pn[1] in spec and spec[pn[1]][0] in ("obj", "allof", "enum"):
                ok = ("." + pn[1]) in t or t.startswith(pn[1]) or (pn[1] + " |") in t or ("'" + pn[1] + "'") in t
            elif pn[0] == "prim":
                ok = PY_PRIM[pn[1]] in t
            elif pn[0] == "arr":
                ok = "List[" in t or "list[" in t
            if not ok:
                fails.append(f"generated code: {n}.{key} is annotated {t}, declared {pn[0]} {pn[1] if pn[0] != 'arr' else ''}")
    return fails, "ok"


# ---------------------------------------------------------------- third observation: the EMITTED model modules (text)
def ann_kind(e) -> Any:
    """rendered annotation -> structural kind: ["prim",t] | ["model",Name] | ["list",k] | ["dict",k] | ["union",[k..]]
    | ["any"] | ["literal"]; None-ness (Optional / `| None`) is dropped"""
    import ast
    if isinstance(e, ast.Constant):
        if e.value is None:
            return None
        if isinstance(e.value, str):
            try:
                return ann_kind(ast.parse(e.value, mode="eval").body)
            except SyntaxError:
                return ["any"]
        return ["literal"]
    if isinstance(e, ast.Name):
        if e.id in ("int", "str", "float", "bool", "bytes"):
            return ["prim", e.id]
        if e.id == "Any":
            return ["any"]
        if e.id == "None":
            return None
        return ["model", e.id]
    if isinstance(e, ast.Attribute):
        return ["model", e.attr]
    if isinstance(e, ast.BinOp) and isinstance(e.op, ast.BitOr):
        parts = []
        for x in (ann_kind(e.left), ann_kind(e.right)):
            if x is None:
                continue
            parts += x[1] if x[0] == "union" else [x]
        return parts[0] if len(parts) == 1 else (["union", parts] if parts else None)
    if isinstance(e, ast.Subscript):
        head = e.value.id if isinstance(e.value, ast.Name) else (e.value.attr if isinstance(e.value, ast.Attribute) else "?")
        args = list(e.slice.elts) if isinstance(e.slice, ast.Tuple) else [e.slice]
        if head in ("List", "list", "Sequence", "Set", "set"):
            return ["list", ann_kind(args[0]) or ["any"]]
        if head in ("Dict", "dict", "Mapping"):
            return ["dict", (ann_kind(args[-1]) or ["any"])]
        if head == "Optional":
            return ann_kind(args[0])
        if head == "Union":
            parts = []
            for a in args:
                x = ann_kind(a)
                if x is None:
                    continue
                parts += x[1] if x[0] == "union" else [x]
            return parts[0] if len(parts) == 1 else (["union", parts] if parts else None)
        if head == "Literal":
            return ["literal"]
        return ["any"]
    return ["any"]


def emitted_models(inp: dict) -> Any:
    """Run the real generator and read every emitted models/*.py with `ast` (no import: C01 owns importability):
    {name: {"kind": "dataclass"|"enum"|"alias", "fields": [[wire key, python name, required, kind]], "alias": kind}}"""
    import ast
    import pipeline
    with _Env(inp.get("max_depth")):
        g = pipeline.generate(doc(inp["schemas"]))
    try:
        if not g.ok:
            return "generator-failed: " + str(g.error)[:80]
        out: dict = {}
        for f in g.files:
            if "/models/" not in f or not f.endswith(".py") or f.endswith("__init__.py"):
                continue
            try:
                mod = ast.parse(g.read(f))
            except SyntaxError:
                return "syntax-error in " + f
            for st in mod.body:
                if isinstance(st, ast.ClassDef):
                    decos = [d.id if isinstance(d, ast.Name) else (d.func.id if isinstance(d, ast.Call) and isinstance(d.func, ast.Name) else "") for d in st.decorator_list]
                    bases = [b.id for b in st.bases if isinstance(b, ast.Name)]
                    if "Enum" in bases:
                        out[st.name] = {"kind": "enum"}
                    elif "dataclass" in decos:
                        load = {}
                        for c in st.body:
                            if isinstance(c, ast.ClassDef) and c.name == "Meta":
                                for a in c.body:
                                    if (isinstance(a, ast.Assign) and isinstance(a.targets[0], ast.Name)
                                            and a.targets[0].id == "key_transform_with_load" and isinstance(a.value, ast.Dict)):
                                        load = {k.value: v.value for k, v in zip(a.value.keys, a.value.values)
                                                if isinstance(k, ast.Constant) and isinstance(v, ast.Constant)}
                        py2wire = {v: k for k, v in load.items()}
                        fields = []
                        for c in st.body:
                            if isinstance(c, ast.AnnAssign) and isinstance(c.target, ast.Name):
                                nm = c.target.id
                                fields.append([py2wire.get(nm, nm), nm, c.value is None, ann_kind(c.annotation) or ["any"]])
                        wrapper = [f[1] for f in fields] == ["_data"]
                        out[st.name] = {"kind": "mapclass" if wrapper else "dataclass", "fields": fields}
                elif isinstance(st, ast.AnnAssign) and isinstance(st.target, ast.Name) and st.value is not None:
                    out[st.target.id] = {"kind": "alias", "alias": ann_kind(st.value) or ["any"]}
        return out
    finally:
        g.cleanup()


def emitted_oracle(inp: dict, em: Any) -> list[str]:
    """the property on the emitted modules: every declared object schema is a dataclass with one field per declared
    property (wire key, required flag) annotated with the structural kind the document gives - a reference is typed as
    the right model, never as Any / dict[str, Any]"""
    from pyopenapi_gen.core.utils import NameSanitizer
    cls = NameSanitizer.sanitize_class_name
    spec = {n: nd for n, nd in inp["schemas"]}
    if isinstance(em, str):
        return []          # not an observation of C02 (counted)
    fails: list[str] = []

    def chain(n):
        out = [n]
        while n in spec and spec[n][0] == "ref" and spec[n][1] not in out:
            n = spec[n][1]
            out.append(n)
        return out

    def conf(nd, k, where):
        t = nd[0]
        if t == "ref":
            ch = chain(nd[1])
            names = {cls(a) for a in ch} | set(ch)
            end = spec.get(ch[-1])
            if k[0] == "model" and k[1] in names:
                return None
            if end is not None and end[0] == "prim" and k == ["prim", PY_PRIM[end[1]]]:
                return None
            if end is not None and end[0] == "arr" and k[0] == "list":
                return conf(end[1], k[1], where + "[]")
            if end is None:
                return None    # dangling reference: nothing is claimed
            return f"{where}: should be typed as the model {nd[1]}, is rendered as {k}"
        if t == "prim":
            return None if k == ["prim", PY_PRIM[nd[1]]] else f"{where}: want {PY_PRIM[nd[1]]}, rendered {k}"
        if t == "arr":
            if k[0] == "model":
                return None    # a named alias module for an array of inline items
            if k[0] != "list":
                return f"{where}: want a list, rendered {k}"
            return conf(nd[1], k[1], where + "[]")
        if t == "enum":
            # an inline enum is an enum class (or Literal); as array item the generator renders the bare value type:
            # accepted, the property does not claim enum classes for array items
            return None if k[0] in ("model", "literal") or k == ["prim", "str"] else f"{where}: want an enum, rendered {k}"
        if t in ("obj", "objx", "allof"):
            return None if k[0] in ("model", "literal") else f"{where}: want a model class, rendered {k}"
        if t == "map":
            return None if k[0] in ("model", "dict") else f"{where}: want a map, rendered {k}"
        if t in ("oneof", "anyof"):
            return None if k[0] in ("model", "union", "prim", "list") else f"{where}: want a union, rendered {k}"
        return None

    for n, nd0 in inp["schemas"]:
        nd = nd0
        if nd[0] == "ref":
            continue           # an alias is the same model as its target
        e = em.get(cls(n)) or em.get(n)
        if nd[0] in ("obj", "allof", "objx"):
            try:
                want, req = decl_fields(spec, nd)
            except _Cyclic:
                continue
            if e is None:
                fails.append(f"emitted: no model class {n}")
                continue
            if e["kind"] != "dataclass":
                if not want and e["kind"] in ("alias", "mapclass"):
                    continue   # an object without declared properties may be rendered as a plain alias
                fails.append(f"emitted: {n} is rendered as {e['kind']}, not as a dataclass with fields {sorted(want)}")
                continue
            got = {f[0]: f for f in e["fields"]}
            if set(got) != set(want) or len(got) != len(e["fields"]):
                fails.append(f"emitted: {n} has wire keys {sorted(got)}, declared {sorted(want)}")
                continue
            for key, pn in want.items():
                f = got[key]
                if f[2] != (key in req):
                    fails.append(f"emitted: {n}.{key} required={f[2]} but declared {key in req}")
                r = conf(pn, f[3], f"emitted: {n}.{key}")
                if r:
                    fails.append(r)
        elif nd[0] == "enum":
            if e is None or e["kind"] != "enum":
                fails.append(f"emitted: {n} should be an enum, is {e['kind'] if e else 'missing'}")
        elif nd[0] in ("arr", "prim"):
            if e is None:
                fails.append(f"emitted: no alias for {n}")
            elif e["kind"] == "alias":
                r = conf(nd, e["alias"], f"emitted: {n}")
                if r:
                    fails.append(r)
    return fails


# ---------------------------------------------------------------- Coq printers
PRIM_C = {"string": "PString", "integer": "PInteger", "number": "PNumber", "boolean": "PBoolean"}


def c_node(nd: list) -> str:
    k = nd[0]
    if k == "ref":
        return f"(Ref {cstr(nd[1])})"
    if k == "obj":
        return f"(Obj {clist(cpair(cstr(a), c_node(b)) for a, b in nd[1])} {clist(cstr(r) for r in nd[2])})"
    if k == "arr":
        return f"(Arr {c_node(nd[1])})"
    if k == "oneof":
        return f"(OneOf {clist(c_node(x) for x in nd[1])})"
    if k == "anyof":
        return f"(AnyOf {clist(c_node(x) for x in nd[1])})"
    if k == "allof":
        return f"(AllOf {clist(c_node(x) for x in nd[1])})"
    if k == "prim":
        return f"(Prim {PRIM_C[nd[1]]})"
    if k == "enum":
        return "EnumN"
    if k == "map":
        return f"(MapN {c_node(nd[1])})"
    if k == "bare":
        return f"(Obj [] {clist(cstr(r) for r in bare_req(nd))})"
    raise ValueError(k)


def c_tyref(t: list) -> str:
    k = t[0]
    if k == "ref":
        return f"(TRef {cstr(t[1])})"
    if k == "list":
        return f"(TList {c_tyref(t[1])})"
    if k == "prim":
        return f"(TPrim {PRIM_C[t[1]]})"
    if k == "enum":
        return "TEnum"
    if k == "inline":
        return f"(TInline {clist(cstr(x) for x in t[1])})"
    if k == "map":
        return f"(TMap {c_tyref(t[1])})"
    if k == "object":
        return "TObject"
    if k == "union":
        return f"(TUnion {clist(c_tyref(x) for x in t[1])})"
    return "TAny"


def c_obs(obs: Any) -> str:
    if obs == "NOT_PARSED":
        return "(inr 1)"
    if isinstance(obs, str):
        return "(inr 2)"
    rows = []
    for key, name, flags, st, fields in obs:
        fs = clist(cpair(cstr(a), cbool(b), c_tyref(t)) for a, b, t in fields)
        rows.append(f"({cstr(key)}, {copt(name, cstr)}, {flags}, {c_tyref(st)}, {fs})")
    return f"(inl {clist(rows)})"


def c_case(inp: dict, obs: Any) -> str:
    sch = clist(cpair(cstr(n), c_node(nd)) for n, nd in inp["schemas"])
    md = inp.get("max_depth")
    return f"(({150 if md is None else md}, {sch}), {c_obs(obs)})"


# ---------------------------------------------------------------- generators
NAME_SETS = [["User", "UserGroup", "UserGroupItem"], ["Order", "OrderItem", "Pet"], ["Node", "Tree", "Pet"],
             ["PropertyBag", "Bag", "BagItem"], ["Children", "ChildrenItem", "Kid"]]
NAMES = ["User", "UserGroup", "Order", "OrderItem", "Node", "NodeKid", "Tree", "Pet", "PropertyBag", "Children"]
KEYS = ["group", "members", "item", "alpha", "beta", "kid", "nxt", "user", "order", "children", "ident"]
EDGE_KINDS = ["ref", "arr_ref", "inline", "arr_inline", "map", "oneof", "anyof", "allof"]


def edge_prop(kind: str, target: str) -> list:
    r = ["ref", target]
    if kind == "ref":
        return r
    if kind == "arr_ref":
        return ["arr", r]
    if kind == "inline":
        return ["obj", [["xx", r], ["yy", ["prim", "string"]]], ["xx"]]
    if kind == "arr_inline":
        return ["arr", ["obj", [["xx", r]], []]]
    if kind == "map":
        return ["map", r]
    if kind == "oneof":
        return ["oneof", [r, ["prim", "string"]]]
    if kind == "anyof":
        return ["anyof", [r, ["prim", "integer"]]]
    raise ValueError(kind)


PROP_KEY = {"User": "user", "UserGroup": "group", "UserGroupItem": "item", "Order": "order", "OrderItem": "item",
            "Pet": "pet", "Node": "node", "Tree": "tree", "PropertyBag": "bag", "Bag": "bag", "BagItem": "item",
            "Children": "children", "ChildrenItem": "item", "Kid": "kid"}


def graph_spec(names: list, edges: list, order: tuple) -> dict:
    """edges: (i, j, kind).  Schema i = object with one property per non-allOf edge, wrapped in allOf for parent edges."""
    schemas = {}
    for i, n in enumerate(names):
        props, req, parents = [["ident", ["prim", "integer"]], ["label", ["prim", "string"]]], ["ident"], []
        used = {"ident", "label"}
        for (a, b, kind) in edges:
            if a != i:
                continue
            if kind == "allof":
                parents.append(["ref", names[b]])
            else:
                key = PROP_KEY[names[b]]
                if kind in ("arr_ref", "arr_inline"):
                    key = {"user": "members", "item": "items", "kid": "kids"}.get(key, key + "s")
                while key in used:
                    key += "x"
                used.add(key)
                props.append([key, edge_prop(kind, names[b])])
        own = ["obj", props, req]
        if parents:
            # the usual tightening idiom: a branch without properties that makes an inherited property required
            variant = ("required", "typed", "required")[(i + len(edges)) % 3]
            tight = ["bare", ["label"], variant]
            members = parents + [own]
            members.insert((i + len(parents)) % (len(members) + 1), tight)
            schemas[n] = ["allof", members]
        else:
            schemas[n] = own
    return {"schemas": [[names[i], schemas[names[i]]] for i in order]}


def enum_graphs(max_edges: int, nodes: int):
    slots = [(i, j) for i in range(nodes) for j in range(nodes)]
    for ne in range(0, max_edges + 1):
        for chosen in itertools.combinations(slots, ne):
            for kinds in itertools.product(EDGE_KINDS, repeat=ne):
                yield [(a, b, k) for (a, b), k in zip(chosen, kinds)]


def gen_node(rng, names, depth=0, top=False) -> list:
    n = lambda: rng.choice(names)  # noqa: E731
    if depth >= 2:
        return rng.choice([["ref", n()], ["prim", rng.choice(PRIMS)], ["ref", n()], ["enum"]])
    kinds = ["ref", "obj", "arr", "oneof", "anyof", "allof", "prim", "enum", "map"]
    w = [3, 5, 3, 1, 1, 1.5, 2, 1, 1] if not top else [0, 8, 1, 1, .5, 2.5, .5, 1, .5]
    k = rng.choices(kinds, w)[0]
    if k == "ref":
        return ["ref", n()]
    if k == "obj":
        ks = rng.sample(KEYS, rng.randint(0, 3))
        return ["obj", [[kk, gen_node(rng, names, depth + 1)] for kk in ks], [kk for kk in ks if rng.random() < .4]]
    if k == "arr":
        return ["arr", gen_node(rng, names, depth + 1)]
    if k in ("oneof", "anyof"):
        return [k, [rng.choice([["ref", n()], ["prim", rng.choice(PRIMS)]]) for _ in range(rng.randint(1, 3))]]
    if k == "allof":
        ms = [["ref", n()] for _ in range(rng.randint(1, 2))]
        if rng.random() < .7:
            ks = rng.sample(KEYS, rng.randint(0, 2))
            ms.append(["obj", [[kk, gen_node(rng, names, 2)] for kk in ks], [kk for kk in ks if rng.random() < .4]])
        return ["allof", ms]
    if k == "prim":
        return ["prim", rng.choice(PRIMS)]
    if k == "enum":
        return ["enum"]
    return ["map", gen_node(rng, names, depth + 1)]


def gen_spec(rng, nmax=7, acyclic=False) -> dict:
    names = rng.sample(NAMES, rng.randint(1, min(nmax, len(NAMES))))
    if acyclic:
        # references only to later names in a hidden order; declaration order shuffled
        out = []
        for i, nm in enumerate(names):
            later = names[i + 1:] or None
            if later is None:
                out.append([nm, ["obj", [["ident", ["prim", "integer"]]], ["ident"]]])
            else:
                out.append([nm, gen_node(rng, later, 0, True)])
        rng.shuffle(out)
        return {"schemas": out}
    inp = {"schemas": [[n, gen_node(rng, names, 0, True)] for n in names]}
    if rng.random() < .08:
        inp["max_depth"] = rng.choice([1, 2, 3])
    return inp


def gen_core(rng, nmax=7, acyclic=True) -> dict:
    """documents of the fragment C02_partial is proved for (acyclic: references only to later names of a hidden order)"""
    names = rng.sample(NAMES, rng.randint(2, min(nmax, len(NAMES))))
    ckeys = [k for k in KEYS]

    def item(tg):
        r = rng.random()
        return ["ref", rng.choice(tg)] if (tg and r < .6) else (["enum"] if r < .7 else ["prim", rng.choice(PRIMS)])

    def prop(tg):
        r = rng.random()
        if tg and r < .45:
            return ["ref", rng.choice(tg)]
        if r < .7:
            return ["arr", item(tg)]
        return ["prim", rng.choice(PRIMS)]

    def obj(tg):
        ks = rng.sample(ckeys, rng.randint(0, 4))
        return ["obj", [[k, prop(tg)] for k in ks], [k for k in ks if rng.random() < .5]]
    out = []
    for i, nm in enumerate(names):
        tg = (names[i + 1:] if acyclic else names)
        r = rng.random()
        if r < .55:
            nd = obj(tg)
        elif r < .8 and tg:
            nd = ["allof", [["ref", rng.choice(tg)] for _ in range(rng.randint(1, 2))] + ([obj(tg)] if rng.random() < .8 else [])
                  + ([["prim", "string"]] if rng.random() < .1 else [])]
        elif r < .85:
            nd = ["enum"]
        elif r < .89:
            nd = ["prim", rng.choice(PRIMS)]
        elif r < .93:
            nd = ["arr", item(tg)]
        elif r < .96:
            nd = ["map", item(tg)]
        else:
            nd = [rng.choice(["oneof", "anyof"]), [item(tg) for _ in range(rng.randint(1, 3))]]
        out.append([nm, nd])
    rng.shuffle(out)
    return {"schemas": out}


def tighten(inp: dict, rng) -> dict:
    """post-pass over a generated document: give allOf nodes branches of every shape ({required only}, {type+required},
    {}, {description}, object with properties whose `required` also names INHERITED properties), in random positions"""
    spec = {n: nd for n, nd in inp["schemas"]}

    def visit(nd):
        k = nd[0]
        if k == "obj":
            for _, b in nd[1]:
                visit(b)
        elif k in ("arr", "map"):
            visit(nd[1])
        elif k in ("oneof", "anyof"):
            for x in nd[1]:
                visit(x)
        elif k == "allof":
            for x in nd[1]:
                visit(x)
            try:
                inherited = sorted(decl_fields(spec, nd)[0])
            except _Cyclic:
                inherited = []
            for m in nd[1]:
                if m[0] == "obj" and inherited and rng.random() < .5:
                    m[2] = sorted(set(m[2]) | set(rng.sample(inherited, rng.randint(1, min(2, len(inherited))))))
            for _ in range(rng.choice([0, 1, 1, 2])):
                variant = rng.choice(["required", "required", "typed", "empty", "description"])
                req = rng.sample(inherited, rng.randint(1, min(2, len(inherited)))) if inherited else []
                nd[1].insert(rng.randint(0, len(nd[1])), ["bare", req, variant])
    for _, nd in inp["schemas"]:
        visit(nd)
    return inp


def allof_shape_cases() -> list[dict]:
    """Leaf -> StrictBase -> Base with every shape of allOf branch in every position, all declaration orders of the three"""
    account = ["Account", ["obj", [["name", ["prim", "string"]]], []]]
    base = ["Base", ["obj", [["ident", ["prim", "integer"]], ["label", ["prim", "string"]], ["owner", ["ref", "Account"]]], ["ident"]]]
    shapes = [
        ["bare", ["label", "owner"], "required"],                      # required only
        ["bare", ["label"], "typed"],                                  # type object + required, no properties
        ["bare", [], "empty"],                                         # {}
        ["bare", [], "description"],                                   # description only
        ["obj", [["note", ["prim", "string"]]], []],                   # properties only
        ["obj", [["note", ["prim", "string"]]], ["note", "owner"]],    # both, required names own + inherited
        ["obj", [], ["label"]],                                        # object with empty properties + required
    ]
    out = []
    for i, sh in enumerate(shapes):
        for j, sh2 in enumerate(shapes):
            for pos in range(2):
                strict = [["ref", "Base"]]
                strict.insert(pos, json.loads(json.dumps(sh)))
                leaf = [["ref", "StrictBase"]]
                leaf.insert((pos + j) % 2, json.loads(json.dumps(sh2)))
                if sh2[0] == "obj" and sh[0] == "obj" and sh[1] and sh2[1]:
                    leaf[(pos + j) % 2][1] = [["memo", ["prim", "string"]]]
                    leaf[(pos + j) % 2][2] = [k if k != "note" else "memo" for k in leaf[(pos + j) % 2][2]]
                sch = [account, base, ["StrictBase", ["allof", strict]], ["Leaf", ["allof", leaf]]]
                order = list(itertools.permutations(range(4)))[(7 * i + 3 * j + pos) % 24]
                out.append({"schemas": [json.loads(json.dumps(sch[k])) for k in order]})
    return out


ALIAS_NAMES = ["Alias", "AliasTwo", "Shortcut"]


def add_aliases(inp: dict, rng) -> dict:
    """top-level pure aliases: before/after the target, chains, aliases of any kind of schema, references routed
    through the alias (so that cycles go through it)"""
    sch = inp["schemas"]
    declared = [n for n, _ in sch]
    prev = None
    for a in rng.sample(ALIAS_NAMES, rng.randint(1, 3)):
        if a in declared:
            continue
        target = prev if (prev and rng.random() < .35) else rng.choice(declared)
        sch.insert(rng.randint(0, len(sch)), [a, ["ref", target]])
        prev = a
        if rng.random() < .6:   # route some existing references to `target` through the alias
            def reroute(nd):
                k = nd[0]
                if k == "ref" and nd[1] == target and rng.random() < .6:
                    nd[1] = a
                elif k == "obj":
                    for _, b in nd[1]:
                        reroute(b)
                elif k in ("arr", "map"):
                    reroute(nd[1])
                elif k in ("oneof", "anyof", "allof"):
                    for x in nd[1]:
                        reroute(x)
            for n, nd in sch:
                if n not in ALIAS_NAMES:
                    reroute(nd)
    return inp


def alias_cases() -> list[dict]:
    tgt = {"obj": ["obj", [["ident", ["prim", "integer"]], ["label", ["prim", "string"]]], ["ident"]],
           "enum": ["enum"], "arr": ["arr", ["prim", "string"]], "prim": ["prim", "integer"],
           "arr_obj": ["arr", ["obj", [["xx", ["prim", "string"]]], []]], "map": ["map", ["prim", "string"]],
           "allof": ["allof", [["ref", "Base"], ["bare", ["label"], "required"]]],
           "cyc": ["obj", [["peer", ["ref", "Alias"]], ["vv", ["prim", "string"]]], []]}
    base = ["Base", ["obj", [["ident", ["prim", "integer"]], ["label", ["prim", "string"]]], ["ident"]]]
    user = ["Holder", ["obj", [["thing", ["ref", "Alias"]], ["things", ["arr", ["ref", "AliasTwo"]]]], ["thing"]]]
    out = []
    for kind, nd in tgt.items():
        items = [["Target", nd], ["Alias", ["ref", "Target"]], ["AliasTwo", ["ref", "Alias"]], user]
        if kind == "allof":
            items.append(base)
        for order in itertools.permutations(range(len(items))):
            if len(items) == 5 and order[4] != 4 and order[0] != 4:
                continue
            out.append({"schemas": [json.loads(json.dumps(items[i])) for i in order]})
    out.append({"schemas": [["Alias", ["ref", "AliasTwo"]], ["AliasTwo", ["ref", "Alias"]]]})          # aliases of each other
    out.append({"schemas": [["Alias", ["ref", "Alias"]]]})                                             # alias of itself
    out.append({"schemas": [["Child", ["allof", [["ref", "Alias"], ["obj", [["bb", ["prim", "integer"]]], ["bb"]]]]],
                            ["Alias", ["ref", "Base"]], base]})                                        # allOf parent through an alias
    return out


def kind_cases() -> list[dict]:
    """(i) cycles whose back edge targets a named union / array / map alias, every declaration order; references to named
    primitive and enum aliases; (ii) object schemas that carry properties AND oneOf/anyOf (required-only branches,
    variant branches), also as allOf parent and as property target"""
    R = lambda n: ["ref", n]  # noqa: E731
    out = []
    for kw in ("oneof", "anyof"):
        items = [["Expr", [kw, [R("BinaryOp"), R("Num")]]],
                 ["BinaryOp", ["obj", [["left", R("Expr")], ["right", R("Expr")], ["op", ["enum"]]], ["left"]]],
                 ["Num", ["obj", [["value", ["prim", "number"]]], ["value"]]]]
        out += [{"schemas": [json.loads(json.dumps(items[i])) for i in o]} for o in itertools.permutations(range(3))]
        single = [items[0], ["BinaryOp", ["obj", [["left", R("Expr")], ["op", ["enum"]]], ["left"]]], items[2]]
        out += [{"schemas": [json.loads(json.dumps(single[i])) for i in o]} for o in itertools.permutations(range(3))]
    for tgt in (["arr", R("Entry")], ["map", R("Entry")], ["arr", ["arr", R("Entry")]]):
        for extra in ([], [["peer", R("Entry")]]):
            items = [["Listing", tgt], ["Entry", ["obj", [["children", R("Listing")], ["label", ["prim", "string"]]] + extra, ["label"]]]]
            out += [{"schemas": [json.loads(json.dumps(items[i])) for i in o]} for o in itertools.permutations(range(2))]
    items = [["Ident", ["prim", "string"]], ["Kind", ["enum"]], ["Scores", ["arr", ["prim", "integer"]]],
             ["Thing", ["obj", [["ident", R("Ident")], ["kind", R("Kind")], ["scores", R("Scores")], ["kinds", ["arr", R("Kind")]]], ["ident", "kind"]]]]
    out += [{"schemas": [json.loads(json.dumps(items[i])) for i in o]} for o in ((0, 1, 2, 3), (3, 2, 1, 0), (1, 3, 0, 2))]
    # cycles that CLOSE through an additionalProperties edge (the map-owning schema parsed second / first)
    for via in (["map", R("Team")], ["map", ["arr", R("Team")]]):
        items = [["Team", ["obj", [["members", ["arr", R("Member")]], ["title", ["prim", "string"]]], ["title"]]],
                 ["Member", ["obj", [["teams", via], ["login", ["prim", "string"]]], ["login"]]]]
        out += [{"schemas": [json.loads(json.dumps(items[i])) for i in o]} for o in itertools.permutations(range(2))]
    items = [["Team", ["obj", [["lead", R("Member")], ["title", ["prim", "string"]]], []]],
             ["Member", ["obj", [["login", ["prim", "string"]]], []]], ["Roster", ["map", R("Team")]],
             ["Org", ["obj", [["rosters", ["map", R("Roster")]], ["teams", ["map", R("Team")]]], []]]]
    out += [{"schemas": [json.loads(json.dumps(items[i])) for i in o]} for o in ((0, 1, 2, 3), (3, 2, 1, 0), (2, 0, 3, 1))]
    # non-scalar defaults on OPTIONAL properties: inline object, $ref to a schema declaring an object default,
    # oneOf/anyOf property, map property; scalar and array defaults next to them
    owner = ["Owner", ["obj", [["name", ["prim", "string"]]], [], {"default": {"name": "nobody"}}]]
    job = ["Job", ["obj", [["ident", ["prim", "string"]],
                           ["options", ["obj", [["retries", ["prim", "integer"]]], [], {"default": {"retries": 3}}]],
                           ["owner", R("Owner")],
                           ["priority", ["prim", "integer", {"default": 5}]],
                           ["labels", ["arr", ["prim", "string"], {"default": ["aa"]}]],
                           ["either", ["oneof", [R("Owner"), ["prim", "string"]], {"default": {"name": "xx"}}]],
                           ["anyway", ["anyof", [R("Owner"), ["prim", "integer"]], {"default": [1, 2]}]],
                           ["extra", ["map", ["prim", "string"], {"default": {"kk": "vv"}}]]],
                   ["ident"]]]
    out += [{"schemas": json.loads(json.dumps(x))} for x in ([job, owner], [owner, job])]
    child = ["Batch", ["allof", [R("Job"), ["obj", [["note", ["prim", "string", {"default": "nn"}]]], []]]]]
    out.append({"schemas": json.loads(json.dumps([child, job, owner]))})
    num = ["Num", ["obj", [["value", ["prim", "number"]]], []]]
    sq = ["Sq", ["obj", [["side", ["prim", "number"]]], ["side"]]]
    for kw in ("anyof", "oneof"):
        contact = ["Contact", ["objx", [["email", ["prim", "string"]], ["phone", ["prim", "string"]], ["owner", R("Num")]], ["owner"], kw,
                               [["bare", ["email"], "required"], ["bare", ["phone"], "required"]]]]
        shape = ["Shape", ["objx", [["kind", ["prim", "string"]], ["tags", ["arr", ["prim", "string"]]]], ["kind"], kw, [R("Num"), R("Sq")]]]
        derived = ["Derived", ["allof", [R("Contact"), ["obj", [["note", ["prim", "string"]]], []]]]]
        holder = ["Holder", ["obj", [["contact", R("Contact")], ["shapes", ["arr", R("Shape")]]], ["contact"]]]
        for items in ([contact, num], [num, contact], [shape, num, sq], [sq, num, shape], [derived, contact, num],
                      [contact, num, derived], [holder, contact, shape, num, sq], [num, sq, shape, contact, holder]):
            out.append({"schemas": json.loads(json.dumps(items))})
    return out


def gen_malformed(rng) -> dict:
    """outside the model's name domain / shape domain: oracle only"""
    weird = ["A", "AB", "userGroup", "user_group", "Next", "S1a", "Üser"]
    names = rng.sample(weird, rng.randint(1, 3)) + rng.sample(NAMES, 1)
    sch = [[n, gen_node(rng, names, 0, True)] for n in names]
    if rng.random() < .3:
        sch.append(["Alias", ["ref", names[0]]])
    if rng.random() < .3:
        sch.append(["Dangling", ["obj", [["x", ["ref", "Nowhere"]]], []]])
    return {"schemas": sch}


def chain(n: int, max_depth: int | None = None) -> dict:
    sch = [[f"S{i}", ["obj", [["nxt", ["ref", f"S{i + 1}"]], ["vv", ["prim", "string"]]], ["vv"]]] for i in range(n - 1)]
    sch.append([f"S{n - 1}", ["obj", [["vv", ["prim", "string"]]], ["vv"]]])
    d: dict = {"schemas": sch}
    if max_depth is not None:
        d["max_depth"] = max_depth
    return d


# ---------------------------------------------------------------- entry
def placeholder_slots(schemas: dict | None) -> list[str]:
    """in which kinds of slot of the registered schemas cycle/depth placeholder objects sit: "prop", "items", "member"
    (oneOf/anyOf/allOf) - the slots ModelsEmitter.collect_nested_schemas descends into - or "map" (additionalProperties)"""
    if not schemas:
        return []
    out: set[str] = set()
    seen: set[int] = set()

    def is_ph(x) -> bool:
        return bool(x is not None and x.name and (x._is_circular_ref or x._max_depth_exceeded_marker
                                                  or x._is_self_referential_stub or x._from_unresolved_ref))

    def walk(sx, depth=0):
        if sx is None or id(sx) in seen or depth > 6:
            return
        seen.add(id(sx))
        for v in (sx.properties or {}).values():
            if is_ph(v):
                out.add("prop")
            walk(v, depth + 1)
        if sx.items is not None:
            if is_ph(sx.items):
                out.add("items")
            walk(sx.items, depth + 1)
        for lst in (sx.any_of, sx.one_of, sx.all_of):
            for v in lst or []:
                if is_ph(v):
                    out.add("member")
                walk(v, depth + 1)
        ap = sx.additional_properties
        if ap not in (None, True, False):
            if is_ph(ap):
                out.add("map")
            walk(ap, depth + 1)
    for k, v in schemas.items():
        if is_ph(v):
            out.add("registered")
        walk(v)
    return sorted(out)


def run_one(inp: dict) -> dict:
    obs, schemas = run_impl(inp)
    fails = oracle(inp, obs, schemas)
    slots = placeholder_slots(schemas)
    em_status = "skipped"
    if not isinstance(obs, str) and len(inp["schemas"]) <= 12 and names_in_domain(inp):
        em = emitted_models(inp)
        em_status = em.split(":")[0] if isinstance(em, str) else "ok"
        fails = fails + emitted_oracle(inp, em)
    return {"input": inp, "obs": obs, "oracle_fail": fails, "dom": in_domain(inp), "emitted": em_status, "ph_slots": slots}


def run_all(inputs: list[dict]) -> list[dict]:
    """The loader (its third-party spec validator) retains ~2 MB per document; run the cases in recycled worker
    processes.  Results keep the order of the inputs; every case is independent of the others."""
    import multiprocessing as mp
    ctx = mp.get_context("fork")
    with ctx.Pool(processes=8, maxtasksperchild=150) as pool:
        return pool.map(run_one, inputs, chunksize=10)


def build_inputs(chk: Check) -> list[dict]:
    rng = chk.rng
    inputs = [c["input"] for c in load_corpus("C02")]
    graphs = []
    for si, ns in enumerate(NAME_SETS):
        for nodes in (1, 2, 3):
            full = nodes < 3 or (chk.thorough and si < 1)   # all graphs with <= 2 edges; 3 nodes: one name set in full
            gs = []
            for edges in enum_graphs(2 if (nodes < 3 or chk.thorough) else 1, nodes):
                for order in itertools.permutations(range(nodes)):
                    gs.append((ns[:nodes], edges, order))
            if chk.thorough and not full:
                gs = rng.sample(gs, 1500)
            graphs += gs
    if not chk.thorough:
        graphs = rng.sample(graphs, 260)
    else:
        for _ in range(2000):   # 3-edge graphs, sampled
            ns = rng.choice(NAME_SETS)
            slots = [(i, j) for i in range(3) for j in range(3)]
            edges = [(a, b, rng.choice(EDGE_KINDS)) for a, b in rng.sample(slots, 3)]
            graphs.append((ns, edges, tuple(rng.sample(range(3), 3))))
    inputs += [graph_spec(*g) for g in graphs]
    n = 2500 if chk.thorough else 260
    shapes = allof_shape_cases()
    inputs += shapes if chk.thorough else rng.sample(shapes, 40)
    aliases = alias_cases()
    inputs += aliases if chk.thorough else rng.sample(aliases, 40)
    inputs += kind_cases()
    inputs += [add_aliases(gen_spec(rng, 5), rng) for _ in range(n // 5)]
    inputs += [add_aliases(tighten(gen_core(rng, 5, acyclic=True), rng), rng) for _ in range(n // 8)]
    inputs += [tighten(gen_spec(rng, 7), rng) if i % 2 else gen_spec(rng, 7) for i in range(n)]
    inputs += [tighten(gen_spec(rng, 7, acyclic=True), rng) for _ in range(n // 3)]
    inputs += [tighten(gen_core(rng, 7, acyclic=True), rng) for _ in range(n // 3)]
    inputs += [tighten(gen_core(rng, 5, acyclic=False), rng) for _ in range(n // 6)]
    inputs += [chain(6, 3), chain(8, 150), chain(5, 4), chain(30, 150)]
    inputs += [gen_malformed(rng) for _ in range(n // 6)]
    return inputs


FINDING_BITS = {1: "F02a", 2: "F02b", 3: "F02c", 4: "F02d"}


# which classes of oracle failure each open finding can explain (measured on the unchanged tree, thorough tier; a failure
# of another class on an input where only that finding's guard is false is NOT attributed - e.g. a reference rendered as
# dict[str, Any] on a document whose only peculiarity is an unstored cycle placeholder, or a wrong `required` flag anywhere)
EXPLAINS = {
    "F02a": {"placeholder-model", "placeholder-prop", "fields", "kind", "missing", "ref", "required",
             "em-fields", "em-kind", "em-missing", "em-type", "em-ref", "em-ref-untyped", "em-required"},
    "F02b": {"fields", "kind", "ref", "placeholder-prop", "em-fields", "em-kind", "em-type", "em-missing"},
    "F02c": {"placeholder-model", "placeholder-prop", "fields", "ref", "required",
             "em-fields", "em-missing", "em-type", "em-ref", "em-required"},
    "F02d": {"placeholder-model", "placeholder-prop", "fields", "em-fields", "em-missing", "em-type", "em-ref", "em-kind"},
}


def fail_class(msg: str) -> str:
    """coarse class of an oracle failure; a known finding may only explain the classes listed for it in EXPLAINS"""
    if msg.startswith("emitted:"):
        if "no model class" in msg or "no alias for" in msg:
            return "em-missing"
        if "not as a dataclass" in msg or "should be an enum" in msg:
            return "em-kind"
        if "has wire keys" in msg:
            return "em-fields"
        if "required=" in msg:
            return "em-required"
        if "should be typed as the model" in msg:
            # a reference rendered without any model name (Any / dict[str, Any] / a primitive) vs. under another name
            return "em-ref" if "'model'" in msg.split("is rendered as")[-1] else "em-ref-untyped"
        return "em-type"
    if "the model is a placeholder" in msg:
        return "placeholder-model"
    if "resolved to a placeholder" in msg:
        return "placeholder-prop"
    if "!= declared" in msg:
        return "fields"
    if "required=" in msg:
        return "required"
    if "should reference" in msg or "which has no model" in msg:
        return "ref"
    if ": no model" in msg:
        return "missing"
    if "loading the document failed" in msg:
        return "load"
    return "kind"


def main(chk: Check, replay: dict | None = None) -> int:
    if replay is not None:
        r = run_one(replay["input"])
        print(json.dumps(r, indent=1, default=str))
        if r["oracle_fail"]:
            print(f"VIOLATION property=C02 replay=(replayed) : {r['oracle_fail']}")
            return 1
        return 0
    chk.prove()
    inputs = build_inputs(chk)
    cases = run_all(inputs)
    chk.cov["evaluations"] = len(cases)
    pstat: dict[str, int] = {}
    for c in cases:
        pstat[c.get("emitted", "skipped")] = pstat.get(c.get("emitted", "skipped"), 0) + 1
    dom = [c for c in cases if c["dom"]]
    out = [c for c in cases if not c["dom"]]
    distinct = {json.dumps(c["input"], sort_keys=True) for c in cases
                if any(nd[0] in ("obj", "allof") and (nd[1]) for _, nd in c["input"]["schemas"])}
    chk.cov["distinct_nontrivial"] = len(distinct)
    kinds: dict[str, int] = {}

    def count(nd):
        kinds[nd[0]] = kinds.get(nd[0], 0) + 1
        if nd[0] == "obj":
            for _, b in nd[1]:
                count(b)
        elif nd[0] in ("arr", "map"):
            count(nd[1])
        elif nd[0] in ("oneof", "anyof", "allof"):
            for x in nd[1]:
                count(x)
    sizes: dict[int, int] = {}
    for c in cases:
        sizes[len(c["input"]["schemas"])] = sizes.get(len(c["input"]["schemas"]), 0) + 1
        for _, nd in c["input"]["schemas"]:
            count(nd)
    chk.cov["input_distribution"] = {
        "schemas_per_document": dict(sorted(sizes.items())), "node_kinds": kinds,
        "in_model_domain": len(dom), "oracle_only": len(out),
        "load_errors": sum(1 for c in cases if isinstance(c["obs"], str)),
        "oracle_failures": sum(1 for c in cases if c["oracle_fail"]),
        "emitted_model_observations": pstat,
        "in_C02_partial_fragment": sum(1 for c in dom if in_theorem_fragment(c["input"])),
        "in_C02_partial_fragment_oracle_failures": sum(1 for c in dom if in_theorem_fragment(c["input"]) and c["oracle_fail"]),
        "with_placeholder": sum(1 for c in cases if not isinstance(c["obs"], str) and any(r[2] for r in c["obs"])),
    }
    for c in cases[:2] + cases[-2:]:
        chk.sample({"input": c["input"], "obs": c["obs"], "oracle_fail": c["oracle_fail"]})
    codes = None
    if chk.model_ok:
        codes = chk.coq_eval("From PG Require Import Lib.Strs Model.AllOf Model.Parser Corr.C02.",
                             "(N * list (str * node)) * (list sobs + N)",
                             [c_case(c["input"], c["obs"]) for c in dom], "run", shard=150)
    if codes is not None:
        frag = [c for c, code in zip(dom, codes) if in_clean_runs_fragment(c["input"])]
        clean = [c for c, code in zip(dom, codes) if in_clean_runs_fragment(c["input"]) and code == 0]
        chk.cov["input_distribution"]["in_inl_spec_fragment"] = len(frag)
        chk.cov["input_distribution"]["in_inl_spec_fragment_with_all_guards_true"] = len(clean)
        chk.cov["input_distribution"]["in_inl_spec_fragment_guards_true_oracle_failures"] = sum(1 for c in clean if c["oracle_fail"])
    if codes is not None:
        for c, code in zip(dom, codes):
            if not c["oracle_fail"] or code & 1:
                continue
            fired = [FINDING_BITS[k] for k in FINDING_BITS if (code >> k) & 1 and FINDING_BITS[k] in chk.known]
            if not fired:
                continue
            collected = bool(set(c.get("ph_slots", [])) & {"prop", "items", "member", "registered"})
            ok_classes: set = set()
            for f in fired:
                cl = set(EXPLAINS[f])
                if f != "F02b" and not collected:
                    # the placeholder findings explain a renamed / missing model module only through the emitter's name
                    # de-collision, which sees placeholders in property / items / composition slots and registered
                    # ones - not a placeholder that sits only in a map's value slot
                    cl -= {"em-missing", "em-ref", "em-ref-untyped"}
                ok_classes |= cl
            unexplained = [m for m in c["oracle_fail"] if fail_class(m) not in ok_classes]
            if unexplained:
                chk.violation(c, f"(not explained by {'/'.join(fired)}) " + "; ".join(unexplained))
                c["oracle_fail"] = [m for m in c["oracle_fail"] if m not in unexplained]
    chk.decide(dom, codes, FINDING_BITS,
               "Corr.C02.run: observe(parse spec) = observation of load_ir_from_spec(spec).schemas")
    # outside the model's domain only the oracle speaks; failures there cannot be attributed by the model's guards,
    # so they are attributed by the oracle's own message class (placeholder / lost fields under a cycle) or reported
    for c in out:
        if c["oracle_fail"]:
            attribute_out_of_domain(chk, c)
    return chk.finish(TRUSTED,
                      rule="corpus + enumerated graphs over <=3 named schemas (8 edge kinds, all orders, 5 name sets with "
                           "prefix-related names) + seeded random documents <=7 schemas (cyclic and acyclic) + ref chains at the "
                           "depth limit + a malformed/out-of-domain stream (oracle only); non-trivial = some object schema "
                           "with at least one property or allOf member; distinct by JSON of the input")


def attribute_out_of_domain(chk: Check, c: dict) -> None:
    """Out-of-domain inputs (names the model's simplified sanitiser does not cover, top-level aliases, dangling refs):
    no model guard is available.  A failure is accepted as a known finding only when it has the exact signature of one:
    NOT_PARSED for a top-level alias (F02e), or a placeholder/lost-field failure on a document that has a reference cycle
    (F02a/F02c).  Everything else is a violation."""
    inp = c["input"]
    spec = {n: nd for n, nd in inp["schemas"]}
    if c["obs"] == "NOT_PARSED" and any(nd[0] == "ref" for nd in spec.values()) and "F02e" in chk.known:
        chk.known_hits.setdefault("F02e", []).append(c)
        return
    dangling = any(n not in spec for n in all_names(inp["schemas"])[0])
    if capture_possible(inp["schemas"]) and "F02b" in chk.known:
        chk.known_hits.setdefault("F02b", []).append(c)
        return
    if has_ref_cycle(spec) and not isinstance(c["obs"], str) and "F02a" in chk.known:
        chk.known_hits.setdefault("F02a", []).append(c)
        return
    if inp.get("max_depth") is not None and "F02d" in chk.known:
        chk.known_hits.setdefault("F02d", []).append(c)   # lowered depth limit: placeholders are expected (F02d)
        return
    if dangling:
        return  # a dangling $ref is not a valid document; nothing is claimed
    chk.violation(c, "(outside the model's domain) " + "; ".join(c["oracle_fail"]))


def capture_possible(schemas: list) -> bool:
    """Python-side version of Parser.no_capture with the REAL sanitiser: two nodes (declared or inline) would be
    parsed/registered under the same (sanitised) name."""
    from pyopenapi_gen.core.utils import NameSanitizer
    cls = NameSanitizer.sanitize_class_name
    names: list[str] = []

    def ctx(parent, key):
        sp = cls(key)
        if parent:
            return sp if sp.lower().startswith(parent.lower()) else parent + sp
        return sp

    def walk(name, nd):
        if name:
            names.append(cls(name))
        k = nd[0]
        if k == "obj":
            for key, pn in nd[1]:
                if pn[0] == "ref":
                    continue
                simple = pn[0] == "prim" or (pn[0] == "arr" and pn[1][0] in ("ref", "prim", "enum"))
                if pn[0] == "obj" and name:
                    walk(cls(name) + cls(key), pn)
                elif simple:
                    walk(None, pn)
                else:
                    walk(ctx(cls(name) if name else None, key), pn)
        elif k == "arr":
            x = nd[1]
            walk(None if x[0] in ("ref", "prim", "enum") else cls((name or "AnonymousArray") + "Item"), x)
        elif k in ("oneof", "anyof", "allof"):
            for x in nd[1]:
                walk(None, x)
        elif k == "map":
            walk(None, nd[1])
    for n, nd in schemas:
        walk(n, nd)
    return len(names) != len(set(names))


def in_theorem_fragment(inp: dict) -> bool:
    """Python rendering of core_spec && exists rk, ranked_b && depth_ok (the hypothesis of C02_partial); only used
    to MEASURE how many generated inputs the theorem speaks about."""
    spec = {n: nd for n, nd in inp["schemas"]}

    def item(x):
        return x[0] in ("ref", "prim", "enum")

    def prop(x):
        return x[0] in ("ref", "prim") or (x[0] == "arr" and item(x[1]))

    def obj(x):
        return x[0] == "obj" and all(prop(b) for _, b in x[1])

    def top(x):
        return (obj(x) or (x[0] == "allof" and all(m[0] in ("ref", "bare", "prim", "enum") or obj(m) for m in x[1]))
                or x[0] in ("prim", "enum") or (x[0] in ("arr", "map") and item(x[1]))
                or (x[0] in ("oneof", "anyof") and all(item(m) for m in x[1])))
    names, keys = all_names(inp["schemas"])
    if not all(top(nd) for nd in spec.values()) or keys & set(spec) or not names <= set(spec):
        return False
    if has_ref_cycle(spec):
        return False
    md = inp.get("max_depth") or 150
    return 4 * len(spec) + 4 <= md


def in_clean_runs_fragment(inp: dict) -> bool:
    """Python rendering of inl_spec (hypothesis of C02_partial_clean_runs, without the dynamic part `events = []`):
    like the core fragment, but properties of a top-level object may be inline objects of core properties; every
    $ref declared; no two names of the name table equal and no property key equal to one of them."""
    spec = {n: nd for n, nd in inp["schemas"]}

    def item(x):
        return x[0] in ("ref", "prim", "enum")

    def prop(x):
        return x[0] in ("ref", "prim") or (x[0] == "arr" and item(x[1]))

    def obj(x):
        return x[0] == "obj" and all(prop(b) for _, b in x[1])

    def top(x):
        if x[0] == "obj":
            return all(prop(b) or obj(b) for _, b in x[1])
        return ((x[0] == "allof" and all(m[0] in ("ref", "bare", "prim", "enum") or obj(m) for m in x[1]))
                or x[0] in ("prim", "enum") or (x[0] in ("arr", "map") and item(x[1]))
                or (x[0] in ("oneof", "anyof") and all(item(m) for m in x[1])))
    names, keys = all_names(inp["schemas"])
    if not all(top(nd) for nd in spec.values()) or not names <= set(spec):
        return False
    table = list(spec)
    for n, nd in spec.items():
        if nd[0] == "obj":
            table += [n + simple_cls(k) for k, b in nd[1] if b[0] == "obj"]
    return len(table) == len(set(table)) and not (keys & set(table))


def has_ref_cycle(spec: dict) -> bool:
    def targets(nd, acc):
        k = nd[0]
        if k == "ref":
            acc.add(nd[1])
        elif k == "obj":
            for _, b in nd[1]:
                targets(b, acc)
        elif k in ("arr", "map"):
            targets(nd[1], acc)
        elif k in ("oneof", "anyof", "allof"):
            for x in nd[1]:
                targets(x, acc)
        return acc
    g = {n: targets(nd, set()) for n, nd in spec.items()}
    color: dict = {}

    def dfs(u):
        color[u] = 1
        for v in g.get(u, ()):
            if v not in g:
                continue
            if color.get(v) == 1 or (color.get(v) is None and dfs(v)):
                return True
        color[u] = 2
        return False
    return any(color.get(u) is None and dfs(u) for u in g)
