"""Translator plug-in for C02: heuristic string constants of the cycle storage policy and the default depth limit,
read from the working tree with `ast` (fail closed) -> coq/Gen/T_C02.v."""
from __future__ import annotations

import ast

from framework import REPO
from tables import TranslatorError, cstr

OUT_NAME = "T_C02.v"
SRC = REPO / "src" / "pyopenapi_gen"


PINNED = {"synthetic": ["Item", "Property"], "array_self_ref": ["Children", "ChildrenItem"], "endswith": ["Item"],
          "separator": " -> ", "max_depth": 150, "item_suffix": ["Item"], "anonymous_base": ["AnonymousArray"],
          "mark": ["Item"]}


def _parse(rel: str) -> ast.Module:
    try:
        return ast.parse((SRC / rel).read_text())
    except (OSError, SyntaxError) as e:
        raise TranslatorError(f"cannot parse {rel}: {e}")


def _func(mod: ast.AST, name: str) -> ast.FunctionDef:
    for n in ast.walk(mod):
        if isinstance(n, ast.FunctionDef) and n.name == name:
            return n
    raise TranslatorError(f"function {name} not found")


def _assign_value(fn: ast.AST, target: str) -> ast.expr:
    for n in ast.walk(fn):
        if isinstance(n, ast.Assign) and len(n.targets) == 1 and isinstance(n.targets[0], ast.Name) and n.targets[0].id == target:
            return n.value
    raise TranslatorError(f"assignment to {target} not found")


def _in_consts(e: ast.expr, var: str) -> list[str]:
    """string constants c of every `c in <var>` inside e, in source order"""
    out = []
    for n in ast.walk(e):
        if (isinstance(n, ast.Compare) and len(n.ops) == 1 and isinstance(n.ops[0], ast.In)
                and isinstance(n.left, ast.Constant) and isinstance(n.left.value, str)
                and isinstance(n.comparators[0], ast.Name) and n.comparators[0].id == var):
            out.append((n.lineno, n.col_offset, n.left.value))
    return [c for _, _, c in sorted(out)]


def render() -> str:
    ucd = _parse("core/parsing/unified_cycle_detection.py")
    chk = _func(ucd, "unified_cycle_check")
    synth = _in_consts(_assign_value(chk, "is_synthetic_schema"), "schema_name")
    if len(synth) != 2:
        raise TranslatorError(f"is_synthetic_schema: expected two `c in schema_name` tests, got {synth}")
    arr = _in_consts(_assign_value(chk, "is_direct_array_self_ref"), "cycle_path_str")
    if len(arr) != 2:
        raise TranslatorError(f"is_direct_array_self_ref: expected two `c in cycle_path_str` tests, got {arr}")
    nested = _assign_value(chk, "is_nested_property_self_ref")
    ends = [n.args[0].value for n in ast.walk(nested)
            if isinstance(n, ast.Call) and isinstance(n.func, ast.Attribute) and n.func.attr == "endswith"
            and len(n.args) == 1 and isinstance(n.args[0], ast.Constant)]
    starts = [n for n in ast.walk(nested)
              if isinstance(n, ast.Call) and isinstance(n.func, ast.Attribute) and n.func.attr == "startswith"]
    if len(ends) != 1 or len(starts) != 1:
        raise TranslatorError("is_nested_property_self_ref: expected one startswith and one endswith test")
    sep = _assign_value(chk, "cycle_path_str")
    if not (isinstance(sep, ast.Call) and isinstance(sep.func, ast.Attribute) and sep.func.attr == "join"
            and isinstance(sep.func.value, ast.Constant)):
        raise TranslatorError("cycle_path_str is not '<sep>'.join(...)")
    store = _assign_value(chk, "should_store_placeholder")
    if not (isinstance(store, ast.BoolOp) and isinstance(store.op, ast.Or) and len(store.values) == 4):
        raise TranslatorError("should_store_placeholder is not a 4-way `or`")
    # default depth limit: dataclass field UnifiedCycleContext.max_depth and ParsingContext.__post_init__
    md = None
    for n in ast.walk(ucd):
        if isinstance(n, ast.ClassDef) and n.name == "UnifiedCycleContext":
            for s in n.body:
                if isinstance(s, ast.AnnAssign) and isinstance(s.target, ast.Name) and s.target.id == "max_depth" \
                        and isinstance(s.value, ast.Constant) and isinstance(s.value.value, int):
                    md = s.value.value
    if md is None:
        raise TranslatorError("UnifiedCycleContext.max_depth default not found")
    ctx = _parse("core/parsing/context.py")
    md2 = None
    for n in ast.walk(_func(ctx, "__post_init__")):
        if (isinstance(n, ast.Call) and isinstance(n.func, ast.Attribute) and n.func.attr == "get" and len(n.args) == 2
                and isinstance(n.args[0], ast.Constant) and n.args[0].value == "PYOPENAPI_MAX_DEPTH"
                and isinstance(n.args[1], ast.Constant)):
            md2 = int(n.args[1].value)
    if md2 != md:
        raise TranslatorError(f"default depth limit differs between sites: {md} vs {md2}")
    # synthetic item names in schema_parser: f"{base}Item", "AnonymousArray"
    sp = _parse("core/parsing/schema_parser.py")
    ps = _func(sp, "_parse_schema")
    item_suffix = set()
    anon = set()
    for n in ast.walk(ps):
        if isinstance(n, ast.JoinedStr) and len(n.values) == 2 and isinstance(n.values[0], ast.FormattedValue) \
                and isinstance(n.values[0].value, ast.Name) and n.values[0].value.id.startswith("base_name_for") \
                and isinstance(n.values[1], ast.Constant):
            item_suffix.add(n.values[1].value)
        if isinstance(n, ast.Assign) and isinstance(n.targets[0], ast.Name) and n.targets[0].id.startswith("base_name_for") \
                and isinstance(n.value, ast.BoolOp) and isinstance(n.value.op, ast.Or) and len(n.value.values) == 2 \
                and isinstance(n.value.values[0], ast.Name) and n.value.values[0].id == "schema_name" \
                and isinstance(n.value.values[1], ast.Constant) and isinstance(n.value.values[1].value, str):
            anon.add(n.value.values[1].value)
    marks = [n.left.value for n in ast.walk(ps)
             if isinstance(n, ast.Compare) and len(n.ops) == 1 and isinstance(n.ops[0], ast.In)
             and isinstance(n.left, ast.Constant) and isinstance(n.left.value, str)
             and isinstance(n.comparators[0], ast.Subscript) and isinstance(n.comparators[0].value, ast.Attribute)
             and n.comparators[0].value.attr == "cycle_path"]
    if len(marks) != 1:
        raise TranslatorError(f"_parse_schema: expected one `c in cycle_info.cycle_path[i]` test, got {marks}")
    if len(item_suffix) != 1 or len(anon) != 1:
        raise TranslatorError(f"item naming changed shape: suffixes {item_suffix}, anonymous bases {anon}")
    got = {"synthetic": synth, "array_self_ref": arr, "endswith": ends, "separator": sep.func.value.value,
           "max_depth": md, "item_suffix": sorted(item_suffix), "anonymous_base": sorted(anon), "mark": marks}
    if got != PINNED:
        # The open findings F02a/F02f are attributed through guards that are only meaningful for the storage policy
        # they were established with; a changed policy must be looked at, not silently followed by the model.
        diff = {k: (PINNED[k], got[k]) for k in PINNED if PINNED[k] != got[k]}
        raise TranslatorError(f"storage-policy / depth constants changed (pinned, now): {diff}")
    lines = [
        "(* GENERATED by harness/tables_C02.py from the working tree of pyopenapi_gen - do not edit *)",
        "From Coq Require Import List NArith.", "Import ListNotations.", "Open Scope N_scope.", "",
        "(* core/parsing/unified_cycle_detection.py: storage policy of unified_cycle_check *)",
        f"Definition s_Item : list N := {cstr(synth[0])}.",
        f"Definition s_Property : list N := {cstr(synth[1])}.",
        f"Definition s_Children : list N := {cstr(arr[0])}.",
        f"Definition s_ChildrenItem : list N := {cstr(arr[1])}.",
        f"Definition s_ends_Item : list N := {cstr(ends[0])}.",
        f"Definition s_arrow : list N := {cstr(sep.func.value.value)}.",
        f"Definition default_max_depth : N := {md}.",
        "(* core/parsing/schema_parser.py: synthetic names of inline array items *)",
        f"Definition s_item_suffix : list N := {cstr(item_suffix.pop())}.",
        f"Definition s_AnonymousArray : list N := {cstr(anon.pop())}.",
        "(* core/parsing/schema_parser.py 904-921: marking of a registered schema as circular *)",
        f"Definition s_mark_Item : list N := {cstr(marks[0])}.",
        "",
    ]
    return "\n".join(lines)
